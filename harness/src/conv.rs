//! Projections between the neutral reference values (`spec::v3::P3`,
//! `spec::v5::P5`) and the library's packet types.  The "absent ⇔ default"
//! rules of the specification are stated here explicitly.

use std::num::{NonZeroU16, NonZeroU32};

use ntex_bytes::{ByteString, Bytes};
use ntex_mqtt::{QoS, v3::codec as c3, v5::codec as c5};

use crate::spec::v3::{Connect3, P3, Publish3, Will3};
use crate::spec::v5::*;

pub fn qos(q: u8) -> QoS {
    match q {
        0 => QoS::AtMostOnce,
        1 => QoS::AtLeastOnce,
        2 => QoS::ExactlyOnce,
        _ => panic!("invalid qos in generated value"),
    }
}
pub fn qos_u8(q: QoS) -> u8 {
    match q {
        QoS::AtMostOnce => 0,
        QoS::AtLeastOnce => 1,
        QoS::ExactlyOnce => 2,
    }
}
fn bs(s: &str) -> ByteString {
    ByteString::from(s)
}
fn obs(s: &Option<String>) -> Option<ByteString> {
    s.as_deref().map(ByteString::from)
}
fn ob(b: &Option<Vec<u8>>) -> Option<Bytes> {
    b.as_ref().map(|v| Bytes::copy_from_slice(v))
}
fn ups(u: &UserProps) -> c5::UserProperties {
    u.iter().map(|(k, v)| (bs(k), bs(v))).collect()
}
fn ups_back(u: &c5::UserProperties) -> UserProps {
    u.iter().map(|(k, v)| (k.to_string(), v.to_string())).collect()
}
fn nz16(v: u16) -> NonZeroU16 {
    NonZeroU16::new(v).expect("generated packet id / value must be non-zero")
}
fn s(b: &ByteString) -> String {
    b.to_string()
}
fn os(b: &Option<ByteString>) -> Option<String> {
    b.as_ref().map(ToString::to_string)
}
fn obv(b: &Option<Bytes>) -> Option<Vec<u8>> {
    b.as_ref().map(|b| b.to_vec())
}

/// Library item for one reference packet.
#[derive(Clone, Debug, PartialEq, Eq)]
pub enum Lib5 {
    Packet(c5::Packet),
    Publish(c5::Publish),
}
#[derive(Clone, Debug, PartialEq, Eq)]
pub enum Lib3 {
    Packet(c3::Packet),
    Publish(c3::Publish),
}

macro_rules! try_enum {
    ($t:ty, $v:expr) => {
        <$t>::try_from($v).map_err(|_| format!("value {} not representable as {}", $v, stringify!($t)))
    };
}

pub fn publish5_to_lib(p: &Publish5) -> c5::Publish {
    c5::Publish {
        dup: p.dup,
        retain: p.retain,
        qos: qos(p.qos),
        packet_id: p.pid.map(nz16),
        topic: bs(&p.topic),
        payload_size: p.payload_len,
        properties: c5::PublishProperties {
            topic_alias: p.topic_alias.map(nz16),
            correlation_data: ob(&p.correlation),
            message_expiry_interval: p.expiry.map(|v| NonZeroU32::new(v).expect("expiry 0")),
            content_type: obs(&p.content_type),
            user_properties: ups(&p.user_props),
            is_utf8_payload: p.pfi.unwrap_or(false),
            response_topic: obs(&p.response_topic),
            subscription_ids: p
                .sub_ids
                .iter()
                .map(|v| NonZeroU32::new(*v).expect("sub id 0"))
                .collect(),
        },
    }
}

pub fn publish5_from_lib(p: &c5::Publish) -> Publish5 {
    Publish5 {
        dup: p.dup,
        qos: qos_u8(p.qos),
        retain: p.retain,
        topic: s(&p.topic),
        pid: p.packet_id.map(NonZeroU16::get),
        pfi: if p.properties.is_utf8_payload { Some(true) } else { None },
        expiry: p.properties.message_expiry_interval.map(NonZeroU32::get),
        topic_alias: p.properties.topic_alias.map(NonZeroU16::get),
        response_topic: os(&p.properties.response_topic),
        correlation: obv(&p.properties.correlation_data),
        user_props: ups_back(&p.properties.user_properties),
        sub_ids: p.properties.subscription_ids.iter().map(|v| v.get()).collect(),
        content_type: os(&p.properties.content_type),
        payload_len: p.payload_size,
    }
}

fn ack5_to_lib(a: &Ack5) -> Result<c5::PublishAck, String> {
    Ok(c5::PublishAck {
        packet_id: nz16(a.pid),
        reason_code: try_enum!(c5::PublishAckReason, a.reason)?,
        properties: ups(&a.user_props),
        reason_string: obs(&a.reason_string),
    })
}
fn ack52_to_lib(a: &Ack5) -> Result<c5::PublishAck2, String> {
    Ok(c5::PublishAck2 {
        packet_id: nz16(a.pid),
        reason_code: try_enum!(c5::PublishAck2Reason, a.reason)?,
        properties: ups(&a.user_props),
        reason_string: obs(&a.reason_string),
    })
}

/// Reference value -> library value (fails only for values the library's
/// types cannot represent; generators never produce those).
/// can the library's packet types hold this value at all?  (they use NonZero types for packet ids, aliases,
/// expiry intervals, subscription identifiers, Maximum Packet Size and Receive Maximum)
pub fn representable5(p: &P5) -> bool {
    match p {
        P5::Connect(c) => c.max_packet_size != Some(0) && c.receive_max != Some(0) && c.will.as_ref().is_none_or(|w| w.expiry != Some(0)),
        P5::ConnAck(c) => c.receive_max != Some(0) && c.max_packet_size != Some(0),
        P5::Publish(pb) => pb.pid != Some(0) && pb.topic_alias != Some(0) && pb.expiry != Some(0) && pb.sub_ids.iter().all(|v| *v != 0),
        P5::PubAck(a) | P5::PubRec(a) | P5::PubRel(a) | P5::PubComp(a) => a.pid != 0,
        P5::Subscribe(sb) => sb.pid != 0 && sb.sub_id != Some(0),
        P5::SubAck(a) | P5::UnsubAck(a) => a.pid != 0,
        P5::Unsubscribe(u) => u.pid != 0,
        _ => true,
    }
}

pub fn to_lib5(p: &P5) -> Result<Lib5, String> {
    Ok(Lib5::Packet(match p {
        P5::Publish(pb) => return Ok(Lib5::Publish(publish5_to_lib(pb))),
        P5::Connect(c) => c5::Packet::Connect(Box::new(c5::Connect {
            clean_start: c.clean_start,
            keep_alive: c.keep_alive,
            session_expiry_interval_secs: c.session_expiry.unwrap_or(0),
            auth_method: obs(&c.auth_method),
            auth_data: ob(&c.auth_data),
            request_problem_info: c.req_prob_info.unwrap_or(true),
            request_response_info: c.req_resp_info.unwrap_or(false),
            receive_max: c.receive_max.map(nz16),
            topic_alias_max: c.topic_alias_max.unwrap_or(0),
            user_properties: ups(&c.user_props),
            max_packet_size: c.max_packet_size.map(|v| NonZeroU32::new(v).expect("mps 0")),
            last_will: c.will.as_ref().map(|w| c5::LastWill {
                qos: qos(w.qos),
                retain: w.retain,
                topic: bs(&w.topic),
                message: Bytes::copy_from_slice(&w.payload),
                will_delay_interval_sec: w.delay,
                correlation_data: ob(&w.correlation),
                message_expiry_interval: w.expiry.map(|v| NonZeroU32::new(v).expect("expiry 0")),
                content_type: obs(&w.content_type),
                user_properties: ups(&w.user_props),
                is_utf8_payload: w.pfi,
                response_topic: obs(&w.response_topic),
            }),
            client_id: bs(&c.client_id),
            username: obs(&c.username),
            password: ob(&c.password),
        })),
        P5::ConnAck(c) => c5::Packet::ConnectAck(Box::new(c5::ConnectAck {
            session_present: c.session_present,
            reason_code: try_enum!(c5::ConnectAckReason, c.reason)?,
            session_expiry_interval_secs: c.session_expiry,
            receive_max: nz16(c.receive_max.unwrap_or(65_535)),
            max_qos: qos(c.max_qos.unwrap_or(2)),
            max_packet_size: c.max_packet_size,
            assigned_client_id: obs(&c.assigned_client_id),
            topic_alias_max: c.topic_alias_max.unwrap_or(0),
            retain_available: c.retain_avail.unwrap_or(true),
            wildcard_subscription_available: c.wildcard_avail.unwrap_or(true),
            subscription_identifiers_available: c.sub_id_avail.unwrap_or(true),
            shared_subscription_available: c.shared_avail.unwrap_or(true),
            server_keepalive_sec: c.server_keep_alive,
            response_info: obs(&c.response_info),
            server_reference: obs(&c.server_reference),
            auth_method: obs(&c.auth_method),
            auth_data: ob(&c.auth_data),
            reason_string: obs(&c.reason_string),
            user_properties: ups(&c.user_props),
        })),
        P5::PubAck(a) => c5::Packet::PublishAck(ack5_to_lib(a)?),
        P5::PubRec(a) => c5::Packet::PublishReceived(ack5_to_lib(a)?),
        P5::PubRel(a) => c5::Packet::PublishRelease(ack52_to_lib(a)?),
        P5::PubComp(a) => c5::Packet::PublishComplete(ack52_to_lib(a)?),
        P5::Subscribe(sb) => c5::Packet::Subscribe(c5::Subscribe {
            packet_id: nz16(sb.pid),
            id: sb.sub_id.map(|v| NonZeroU32::new(v).expect("sub id 0")),
            user_properties: ups(&sb.user_props),
            topic_filters: sb
                .filters
                .iter()
                .map(|(f, o)| {
                    Ok((
                        bs(f),
                        c5::SubscriptionOptions {
                            qos: qos(o.qos),
                            no_local: o.no_local,
                            retain_as_published: o.rap,
                            retain_handling: try_enum!(c5::RetainHandling, o.retain_handling)?,
                        },
                    ))
                })
                .collect::<Result<Vec<_>, String>>()?,
        }),
        P5::SubAck(a) => c5::Packet::SubscribeAck(c5::SubscribeAck {
            packet_id: nz16(a.pid),
            properties: ups(&a.user_props),
            reason_string: obs(&a.reason_string),
            status: a
                .codes
                .iter()
                .map(|c| try_enum!(c5::SubscribeAckReason, *c))
                .collect::<Result<Vec<_>, String>>()?,
        }),
        P5::Unsubscribe(u) => c5::Packet::Unsubscribe(c5::Unsubscribe {
            packet_id: nz16(u.pid),
            user_properties: ups(&u.user_props),
            topic_filters: u.filters.iter().map(|f| bs(f)).collect(),
        }),
        P5::UnsubAck(a) => c5::Packet::UnsubscribeAck(c5::UnsubscribeAck {
            packet_id: nz16(a.pid),
            properties: ups(&a.user_props),
            reason_string: obs(&a.reason_string),
            status: a
                .codes
                .iter()
                .map(|c| try_enum!(c5::UnsubscribeAckReason, *c))
                .collect::<Result<Vec<_>, String>>()?,
        }),
        P5::PingReq => c5::Packet::PingRequest,
        P5::PingResp => c5::Packet::PingResponse,
        P5::Disconnect(d) => c5::Packet::Disconnect(c5::Disconnect {
            reason_code: try_enum!(c5::DisconnectReasonCode, d.reason)?,
            session_expiry_interval_secs: d.session_expiry,
            server_reference: obs(&d.server_reference),
            reason_string: obs(&d.reason_string),
            user_properties: ups(&d.user_props),
        }),
        P5::Auth(a) => c5::Packet::Auth(c5::Auth {
            reason_code: try_enum!(c5::AuthReasonCode, a.reason)?,
            auth_method: obs(&a.auth_method),
            auth_data: ob(&a.auth_data),
            reason_string: obs(&a.reason_string),
            user_properties: ups(&a.user_props),
        }),
    }))
}

fn ack5_from(a: &c5::PublishAck) -> Ack5 {
    Ack5 {
        pid: a.packet_id.get(),
        reason: a.reason_code.into(),
        reason_string: os(&a.reason_string),
        user_props: ups_back(&a.properties),
    }
}
fn ack52_from(a: &c5::PublishAck2) -> Ack5 {
    Ack5 {
        pid: a.packet_id.get(),
        reason: a.reason_code.into(),
        reason_string: os(&a.reason_string),
        user_props: ups_back(&a.properties),
    }
}

/// Library value -> reference value in normal form.
pub fn from_lib5(p: &c5::Packet) -> P5 {
    match p {
        c5::Packet::Connect(c) => P5::Connect(Box::new(Connect5 {
            clean_start: c.clean_start,
            keep_alive: c.keep_alive,
            client_id: s(&c.client_id),
            will: c.last_will.as_ref().map(|w| Will5 {
                qos: qos_u8(w.qos),
                retain: w.retain,
                topic: s(&w.topic),
                payload: w.message.to_vec(),
                delay: w.will_delay_interval_sec,
                pfi: w.is_utf8_payload,
                expiry: w.message_expiry_interval.map(NonZeroU32::get),
                content_type: os(&w.content_type),
                response_topic: os(&w.response_topic),
                correlation: obv(&w.correlation_data),
                user_props: ups_back(&w.user_properties),
            }),
            username: os(&c.username),
            password: obv(&c.password),
            session_expiry: Some(c.session_expiry_interval_secs),
            receive_max: c.receive_max.map(NonZeroU16::get),
            max_packet_size: c.max_packet_size.map(NonZeroU32::get),
            topic_alias_max: Some(c.topic_alias_max),
            req_resp_info: Some(c.request_response_info),
            req_prob_info: Some(c.request_problem_info),
            user_props: ups_back(&c.user_properties),
            auth_method: os(&c.auth_method),
            auth_data: obv(&c.auth_data),
        })),
        c5::Packet::ConnectAck(c) => P5::ConnAck(Box::new(ConnAck5 {
            session_present: c.session_present,
            reason: c.reason_code.into(),
            session_expiry: c.session_expiry_interval_secs,
            receive_max: Some(c.receive_max.get()),
            max_qos: if c.max_qos == QoS::ExactlyOnce { None } else { Some(qos_u8(c.max_qos)) },
            retain_avail: Some(c.retain_available),
            max_packet_size: c.max_packet_size,
            assigned_client_id: os(&c.assigned_client_id),
            topic_alias_max: Some(c.topic_alias_max),
            reason_string: os(&c.reason_string),
            user_props: ups_back(&c.user_properties),
            wildcard_avail: Some(c.wildcard_subscription_available),
            sub_id_avail: Some(c.subscription_identifiers_available),
            shared_avail: Some(c.shared_subscription_available),
            server_keep_alive: c.server_keepalive_sec,
            response_info: os(&c.response_info),
            server_reference: os(&c.server_reference),
            auth_method: os(&c.auth_method),
            auth_data: obv(&c.auth_data),
        })),
        c5::Packet::PublishAck(a) => P5::PubAck(ack5_from(a)),
        c5::Packet::PublishReceived(a) => P5::PubRec(ack5_from(a)),
        c5::Packet::PublishRelease(a) => P5::PubRel(ack52_from(a)),
        c5::Packet::PublishComplete(a) => P5::PubComp(ack52_from(a)),
        c5::Packet::Subscribe(sb) => P5::Subscribe(Sub5 {
            pid: sb.packet_id.get(),
            sub_id: sb.id.map(NonZeroU32::get),
            user_props: ups_back(&sb.user_properties),
            filters: sb
                .topic_filters
                .iter()
                .map(|(f, o)| {
                    (
                        s(f),
                        SubOpts {
                            qos: qos_u8(o.qos),
                            no_local: o.no_local,
                            rap: o.retain_as_published,
                            retain_handling: o.retain_handling.into(),
                        },
                    )
                })
                .collect(),
        }),
        c5::Packet::SubscribeAck(a) => P5::SubAck(SubAck5 {
            pid: a.packet_id.get(),
            reason_string: os(&a.reason_string),
            user_props: ups_back(&a.properties),
            codes: a.status.iter().map(|c| (*c).into()).collect(),
        }),
        c5::Packet::Unsubscribe(u) => P5::Unsubscribe(Unsub5 {
            pid: u.packet_id.get(),
            user_props: ups_back(&u.user_properties),
            filters: u.topic_filters.iter().map(s).collect(),
        }),
        c5::Packet::UnsubscribeAck(a) => P5::UnsubAck(SubAck5 {
            pid: a.packet_id.get(),
            reason_string: os(&a.reason_string),
            user_props: ups_back(&a.properties),
            codes: a.status.iter().map(|c| (*c).into()).collect(),
        }),
        c5::Packet::PingRequest => P5::PingReq,
        c5::Packet::PingResponse => P5::PingResp,
        c5::Packet::Disconnect(d) => P5::Disconnect(Disc5 {
            reason: d.reason_code.into(),
            session_expiry: d.session_expiry_interval_secs,
            reason_string: os(&d.reason_string),
            user_props: ups_back(&d.user_properties),
            server_reference: os(&d.server_reference),
        }),
        c5::Packet::Auth(a) => P5::Auth(Auth5 {
            reason: a.reason_code.into(),
            auth_method: os(&a.auth_method),
            auth_data: obv(&a.auth_data),
            reason_string: os(&a.reason_string),
            user_props: ups_back(&a.user_properties),
        }),
    }
    .normalize()
}

pub fn from_lib5_publish(p: &c5::Publish) -> P5 {
    P5::Publish(Box::new(publish5_from_lib(p))).normalize()
}

// --- v3 ---------------------------------------------------------------------

pub fn publish3_to_lib(p: &Publish3) -> c3::Publish {
    c3::Publish {
        dup: p.dup,
        retain: p.retain,
        qos: qos(p.qos),
        topic: bs(&p.topic),
        packet_id: p.pid.map(nz16),
        payload_size: p.payload_len,
    }
}

pub fn publish3_from_lib(p: &c3::Publish) -> Publish3 {
    Publish3 {
        dup: p.dup,
        qos: qos_u8(p.qos),
        retain: p.retain,
        topic: s(&p.topic),
        pid: p.packet_id.map(NonZeroU16::get),
        payload_len: p.payload_size,
    }
}

pub fn to_lib3(p: &P3) -> Result<Lib3, String> {
    Ok(Lib3::Packet(match p {
        P3::Publish(pb) => return Ok(Lib3::Publish(publish3_to_lib(pb))),
        P3::Connect(c) => c3::Packet::Connect(Box::new(c3::Connect {
            clean_session: c.clean_session,
            keep_alive: c.keep_alive,
            last_will: c.will.as_ref().map(|w| c3::LastWill {
                qos: qos(w.qos),
                retain: w.retain,
                topic: bs(&w.topic),
                message: Bytes::copy_from_slice(&w.message),
            }),
            client_id: bs(&c.client_id),
            username: obs(&c.username),
            password: ob(&c.password),
        })),
        P3::ConnAck { session_present, code } => c3::Packet::ConnectAck(c3::ConnectAck {
            return_code: try_enum!(c3::ConnectAckReason, *code)?,
            session_present: *session_present,
        }),
        P3::PubAck(id) => c3::Packet::PublishAck { packet_id: nz16(*id) },
        P3::PubRec(id) => c3::Packet::PublishReceived { packet_id: nz16(*id) },
        P3::PubRel(id) => c3::Packet::PublishRelease { packet_id: nz16(*id) },
        P3::PubComp(id) => c3::Packet::PublishComplete { packet_id: nz16(*id) },
        P3::Subscribe { pid, filters } => c3::Packet::Subscribe {
            packet_id: nz16(*pid),
            topic_filters: filters.iter().map(|(f, q)| (bs(f), qos(*q))).collect(),
        },
        P3::SubAck { pid, codes } => c3::Packet::SubscribeAck {
            packet_id: nz16(*pid),
            status: codes
                .iter()
                .map(|c| {
                    if *c == 0x80 {
                        c3::SubscribeReturnCode::Failure
                    } else {
                        c3::SubscribeReturnCode::Success(qos(*c))
                    }
                })
                .collect(),
        },
        P3::Unsubscribe { pid, filters } => c3::Packet::Unsubscribe {
            packet_id: nz16(*pid),
            topic_filters: filters.iter().map(|f| bs(f)).collect(),
        },
        P3::UnsubAck(id) => c3::Packet::UnsubscribeAck { packet_id: nz16(*id) },
        P3::PingReq => c3::Packet::PingRequest,
        P3::PingResp => c3::Packet::PingResponse,
        P3::Disconnect => c3::Packet::Disconnect,
    }))
}

pub fn from_lib3(p: &c3::Packet) -> P3 {
    match p {
        c3::Packet::Connect(c) => P3::Connect(Box::new(Connect3 {
            clean_session: c.clean_session,
            keep_alive: c.keep_alive,
            client_id: s(&c.client_id),
            will: c.last_will.as_ref().map(|w| Will3 {
                qos: qos_u8(w.qos),
                retain: w.retain,
                topic: s(&w.topic),
                message: w.message.to_vec(),
            }),
            username: os(&c.username),
            password: obv(&c.password),
        })),
        c3::Packet::ConnectAck(a) => {
            P3::ConnAck { session_present: a.session_present, code: a.return_code.into() }
        }
        c3::Packet::PublishAck { packet_id } => P3::PubAck(packet_id.get()),
        c3::Packet::PublishReceived { packet_id } => P3::PubRec(packet_id.get()),
        c3::Packet::PublishRelease { packet_id } => P3::PubRel(packet_id.get()),
        c3::Packet::PublishComplete { packet_id } => P3::PubComp(packet_id.get()),
        c3::Packet::Subscribe { packet_id, topic_filters } => P3::Subscribe {
            pid: packet_id.get(),
            filters: topic_filters.iter().map(|(f, q)| (s(f), qos_u8(*q))).collect(),
        },
        c3::Packet::SubscribeAck { packet_id, status } => P3::SubAck {
            pid: packet_id.get(),
            codes: status
                .iter()
                .map(|c| match c {
                    c3::SubscribeReturnCode::Failure => 0x80,
                    c3::SubscribeReturnCode::Success(q) => qos_u8(*q),
                })
                .collect(),
        },
        c3::Packet::Unsubscribe { packet_id, topic_filters } => P3::Unsubscribe {
            pid: packet_id.get(),
            filters: topic_filters.iter().map(s).collect(),
        },
        c3::Packet::UnsubscribeAck { packet_id } => P3::UnsubAck(packet_id.get()),
        c3::Packet::PingRequest => P3::PingReq,
        c3::Packet::PingResponse => P3::PingResp,
        c3::Packet::Disconnect => P3::Disconnect,
    }
}
