//! Independent MQTT 5.0 reference codec (OASIS MQTT Version 5.0, sections 2
//! and 3).  Values are neutral: every optional field / property is an
//! `Option` or a `Vec`.  Nothing here touches `ntex_mqtt`.

use serde::{Deserialize, Serialize};

use super::wire::*;

pub type UserProps = Vec<(String, String)>;

#[derive(Clone, Debug, PartialEq, Eq, Serialize, Deserialize, Default)]
pub struct Will5 {
    pub qos: u8,
    pub retain: bool,
    pub topic: String,
    pub payload: Vec<u8>,
    pub delay: Option<u32>,
    pub pfi: Option<bool>,
    pub expiry: Option<u32>,
    pub content_type: Option<String>,
    pub response_topic: Option<String>,
    pub correlation: Option<Vec<u8>>,
    pub user_props: UserProps,
}

#[derive(Clone, Debug, PartialEq, Eq, Serialize, Deserialize, Default)]
pub struct Connect5 {
    pub clean_start: bool,
    pub keep_alive: u16,
    pub client_id: String,
    pub will: Option<Will5>,
    pub username: Option<String>,
    pub password: Option<Vec<u8>>,
    pub session_expiry: Option<u32>,
    pub receive_max: Option<u16>,
    pub max_packet_size: Option<u32>,
    pub topic_alias_max: Option<u16>,
    pub req_resp_info: Option<bool>,
    pub req_prob_info: Option<bool>,
    pub user_props: UserProps,
    pub auth_method: Option<String>,
    pub auth_data: Option<Vec<u8>>,
}

#[derive(Clone, Debug, PartialEq, Eq, Serialize, Deserialize, Default)]
pub struct ConnAck5 {
    pub session_present: bool,
    pub reason: u8,
    pub session_expiry: Option<u32>,
    pub receive_max: Option<u16>,
    pub max_qos: Option<u8>,
    pub retain_avail: Option<bool>,
    pub max_packet_size: Option<u32>,
    pub assigned_client_id: Option<String>,
    pub topic_alias_max: Option<u16>,
    pub reason_string: Option<String>,
    pub user_props: UserProps,
    pub wildcard_avail: Option<bool>,
    pub sub_id_avail: Option<bool>,
    pub shared_avail: Option<bool>,
    pub server_keep_alive: Option<u16>,
    pub response_info: Option<String>,
    pub server_reference: Option<String>,
    pub auth_method: Option<String>,
    pub auth_data: Option<Vec<u8>>,
}

#[derive(Clone, Debug, PartialEq, Eq, Serialize, Deserialize, Default)]
pub struct Publish5 {
    pub dup: bool,
    pub qos: u8,
    pub retain: bool,
    pub topic: String,
    pub pid: Option<u16>,
    pub pfi: Option<bool>,
    pub expiry: Option<u32>,
    pub topic_alias: Option<u16>,
    pub response_topic: Option<String>,
    pub correlation: Option<Vec<u8>>,
    pub user_props: UserProps,
    pub sub_ids: Vec<u32>,
    pub content_type: Option<String>,
    /// declared payload length (payload bytes travel separately)
    pub payload_len: u32,
}

#[derive(Clone, Debug, PartialEq, Eq, Serialize, Deserialize, Default)]
pub struct Ack5 {
    pub pid: u16,
    pub reason: u8,
    pub reason_string: Option<String>,
    pub user_props: UserProps,
}

#[derive(Clone, Copy, Debug, PartialEq, Eq, Serialize, Deserialize, Default)]
pub struct SubOpts {
    pub qos: u8,
    pub no_local: bool,
    pub rap: bool,
    pub retain_handling: u8,
}

#[derive(Clone, Debug, PartialEq, Eq, Serialize, Deserialize, Default)]
pub struct Sub5 {
    pub pid: u16,
    pub sub_id: Option<u32>,
    pub user_props: UserProps,
    pub filters: Vec<(String, SubOpts)>,
}

#[derive(Clone, Debug, PartialEq, Eq, Serialize, Deserialize, Default)]
pub struct SubAck5 {
    pub pid: u16,
    pub reason_string: Option<String>,
    pub user_props: UserProps,
    pub codes: Vec<u8>,
}

#[derive(Clone, Debug, PartialEq, Eq, Serialize, Deserialize, Default)]
pub struct Unsub5 {
    pub pid: u16,
    pub user_props: UserProps,
    pub filters: Vec<String>,
}

#[derive(Clone, Debug, PartialEq, Eq, Serialize, Deserialize, Default)]
pub struct Disc5 {
    pub reason: u8,
    pub session_expiry: Option<u32>,
    pub reason_string: Option<String>,
    pub user_props: UserProps,
    pub server_reference: Option<String>,
}

#[derive(Clone, Debug, PartialEq, Eq, Serialize, Deserialize, Default)]
pub struct Auth5 {
    pub reason: u8,
    pub auth_method: Option<String>,
    pub auth_data: Option<Vec<u8>>,
    pub reason_string: Option<String>,
    pub user_props: UserProps,
}

#[derive(Clone, Debug, PartialEq, Eq, Serialize, Deserialize)]
pub enum P5 {
    Connect(Box<Connect5>),
    ConnAck(Box<ConnAck5>),
    Publish(Box<Publish5>),
    PubAck(Ack5),
    PubRec(Ack5),
    PubRel(Ack5),
    PubComp(Ack5),
    Subscribe(Sub5),
    SubAck(SubAck5),
    Unsubscribe(Unsub5),
    UnsubAck(SubAck5),
    PingReq,
    PingResp,
    Disconnect(Disc5),
    Auth(Auth5),
}

impl P5 {
    pub fn kind(&self) -> &'static str {
        match self {
            P5::Connect(_) => "CONNECT",
            P5::ConnAck(_) => "CONNACK",
            P5::Publish(_) => "PUBLISH",
            P5::PubAck(_) => "PUBACK",
            P5::PubRec(_) => "PUBREC",
            P5::PubRel(_) => "PUBREL",
            P5::PubComp(_) => "PUBCOMP",
            P5::Subscribe(_) => "SUBSCRIBE",
            P5::SubAck(_) => "SUBACK",
            P5::Unsubscribe(_) => "UNSUBSCRIBE",
            P5::UnsubAck(_) => "UNSUBACK",
            P5::PingReq => "PINGREQ",
            P5::PingResp => "PINGRESP",
            P5::Disconnect(_) => "DISCONNECT",
            P5::Auth(_) => "AUTH",
        }
    }

    /// packet type number 1..15
    pub fn type_no(&self) -> u8 {
        match self {
            P5::Connect(_) => 1,
            P5::ConnAck(_) => 2,
            P5::Publish(_) => 3,
            P5::PubAck(_) => 4,
            P5::PubRec(_) => 5,
            P5::PubRel(_) => 6,
            P5::PubComp(_) => 7,
            P5::Subscribe(_) => 8,
            P5::SubAck(_) => 9,
            P5::Unsubscribe(_) => 10,
            P5::UnsubAck(_) => 11,
            P5::PingReq => 12,
            P5::PingResp => 13,
            P5::Disconnect(_) => 14,
            P5::Auth(_) => 15,
        }
    }

    /// "absent ⇔ default" rules of the specification, for the fields in which
    /// absence carries no information beyond the default value.
    pub fn normalize(mut self) -> Self {
        fn dflt<T: PartialEq>(v: &mut Option<T>, d: T) {
            if v.as_ref() == Some(&d) {
                *v = None;
            }
        }
        match &mut self {
            P5::Connect(c) => {
                dflt(&mut c.session_expiry, 0); // 3.1.2.11.2
                dflt(&mut c.req_prob_info, true); // 3.1.2.11.7
                dflt(&mut c.req_resp_info, false); // 3.1.2.11.6
                dflt(&mut c.topic_alias_max, 0); // 3.1.2.11.5
            }
            P5::ConnAck(c) => {
                dflt(&mut c.receive_max, 65_535); // 3.2.2.3.3
                dflt(&mut c.retain_avail, true); // 3.2.2.3.5
                dflt(&mut c.wildcard_avail, true);
                dflt(&mut c.sub_id_avail, true);
                dflt(&mut c.shared_avail, true);
                dflt(&mut c.topic_alias_max, 0); // 3.2.2.3.8
            }
            P5::Publish(p) => {
                dflt(&mut p.pfi, false); // 3.3.2.3.2
            }
            _ => {}
        }
        self
    }
}

// ---------------------------------------------------------------------------
// properties

#[derive(Clone, Debug, PartialEq, Eq)]
pub enum PV {
    Byte(u8),
    U16(u16),
    U32(u32),
    Var(u32),
    Str(String),
    Bin(Vec<u8>),
    Pair(String, String),
}

#[derive(Clone, Debug, PartialEq, Eq)]
pub struct Prop {
    pub id: u8,
    pub v: PV,
}

#[derive(Clone, Copy, Debug, PartialEq, Eq)]
pub enum Kind {
    Byte,
    U16,
    U32,
    Var,
    Str,
    Bin,
    Pair,
}

/// MQTT 5 table 2-4: identifier -> data type
pub fn prop_kind(id: u8) -> Option<Kind> {
    Some(match id {
        0x01 => Kind::Byte,
        0x02 => Kind::U32,
        0x03 => Kind::Str,
        0x08 => Kind::Str,
        0x09 => Kind::Bin,
        0x0B => Kind::Var,
        0x11 => Kind::U32,
        0x12 => Kind::Str,
        0x13 => Kind::U16,
        0x15 => Kind::Str,
        0x16 => Kind::Bin,
        0x17 => Kind::Byte,
        0x18 => Kind::U32,
        0x19 => Kind::Byte,
        0x1A => Kind::Str,
        0x1C => Kind::Str,
        0x1F => Kind::Str,
        0x21 => Kind::U16,
        0x22 => Kind::U16,
        0x23 => Kind::U16,
        0x24 => Kind::Byte,
        0x25 => Kind::Byte,
        0x26 => Kind::Pair,
        0x27 => Kind::U32,
        0x28 => Kind::Byte,
        0x29 => Kind::Byte,
        0x2A => Kind::Byte,
        _ => return None,
    })
}

pub const ALL_PROP_IDS: [u8; 27] = [
    0x01, 0x02, 0x03, 0x08, 0x09, 0x0B, 0x11, 0x12, 0x13, 0x15, 0x16, 0x17, 0x18, 0x19, 0x1A,
    0x1C, 0x1F, 0x21, 0x22, 0x23, 0x24, 0x25, 0x26, 0x27, 0x28, 0x29, 0x2A,
];

#[derive(Clone, Copy, Debug, PartialEq, Eq, Hash)]
pub enum Ctx {
    Connect,
    ConnAck,
    Publish,
    Will,
    PubAck, // also PUBREC, PUBREL, PUBCOMP
    Subscribe,
    SubAck,
    Unsubscribe,
    UnsubAck,
    Disconnect,
    Auth,
}

/// MQTT 5 table 2-4: packets in which a property may appear
pub fn prop_legal(ctx: Ctx, id: u8) -> bool {
    use Ctx::*;
    match id {
        0x01 | 0x02 | 0x03 | 0x08 | 0x09 => matches!(ctx, Publish | Will),
        0x0B => matches!(ctx, Publish | Subscribe),
        0x11 => matches!(ctx, Connect | ConnAck | Disconnect),
        0x12 | 0x13 | 0x1A => matches!(ctx, ConnAck),
        0x15 | 0x16 => matches!(ctx, Connect | ConnAck | Auth),
        0x17 | 0x19 => matches!(ctx, Connect),
        0x18 => matches!(ctx, Will),
        0x1C => matches!(ctx, ConnAck | Disconnect),
        0x1F => matches!(ctx, ConnAck | PubAck | SubAck | UnsubAck | Disconnect | Auth),
        0x21 | 0x22 | 0x27 => matches!(ctx, Connect | ConnAck),
        0x23 => matches!(ctx, Publish),
        0x24 | 0x25 | 0x28 | 0x29 | 0x2A => matches!(ctx, ConnAck),
        0x26 => true,
        _ => false,
    }
}

fn repeatable(ctx: Ctx, id: u8) -> bool {
    id == 0x26 || (id == 0x0B && ctx == Ctx::Publish)
}

fn put_prop(out: &mut Vec<u8>, p: &Prop) {
    out.push(p.id);
    match &p.v {
        PV::Byte(v) => out.push(*v),
        PV::U16(v) => put_u16(out, *v),
        PV::U32(v) => put_u32(out, *v),
        PV::Var(v) => put_varint(out, *v),
        PV::Str(s) => put_str(out, s),
        PV::Bin(b) => put_bin(out, b),
        PV::Pair(k, v) => {
            put_str(out, k);
            put_str(out, v);
        }
    }
}

/// How a packet is laid out where the specification leaves a choice.
#[derive(Clone, Copy, Debug, PartialEq, Eq, Serialize, Deserialize, Default)]
pub struct Layout {
    /// 0 = canonical order, otherwise seed of the property permutation (user
    /// properties and subscription identifiers keep their relative order)
    pub perm_seed: u64,
    /// encode default-valued properties explicitly
    pub explicit_defaults: bool,
    /// use the short forms (PUBACK family RL 2/3, DISCONNECT/AUTH RL 0/1)
    pub short: bool,
}

fn permute(props: &mut Vec<Prop>, seed: u64) {
    if seed == 0 || props.len() < 2 {
        return;
    }
    let mut s = seed;
    let mut next = || {
        s = s.wrapping_mul(6_364_136_223_846_793_005).wrapping_add(1_442_695_040_888_963_407);
        (s >> 33) as u32
    };
    let mut keys: Vec<u32> = props.iter().map(|_| next()).collect();
    // order-preserving groups: sort the keys of each group ascending
    for gid in [0x26u8, 0x0B] {
        let idx: Vec<usize> =
            props.iter().enumerate().filter(|(_, p)| p.id == gid).map(|(i, _)| i).collect();
        let mut ks: Vec<u32> = idx.iter().map(|&i| keys[i]).collect();
        ks.sort_unstable();
        for (j, &i) in idx.iter().enumerate() {
            keys[i] = ks[j];
        }
    }
    let mut order: Vec<usize> = (0..props.len()).collect();
    order.sort_by_key(|&i| (keys[i], i));
    let old = std::mem::take(props);
    let mut old: Vec<Option<Prop>> = old.into_iter().map(Some).collect();
    for i in order {
        props.push(old[i].take().unwrap());
    }
}

fn put_props(out: &mut Vec<u8>, mut props: Vec<Prop>, l: &Layout) {
    permute(&mut props, l.perm_seed);
    let mut body = Vec::new();
    for p in &props {
        put_prop(&mut body, p);
    }
    put_varint(out, body.len() as u32);
    out.extend_from_slice(&body);
}

fn opt<T: Clone>(v: &Option<T>, id: u8, f: impl Fn(T) -> PV, out: &mut Vec<Prop>) {
    if let Some(v) = v {
        out.push(Prop { id, v: f(v.clone()) });
    }
}
fn opt_d<T: Clone>(
    v: &Option<T>,
    id: u8,
    f: impl Fn(T) -> PV,
    dflt: T,
    explicit: bool,
    out: &mut Vec<Prop>,
) {
    match v {
        Some(v) => out.push(Prop { id, v: f(v.clone()) }),
        None if explicit => out.push(Prop { id, v: f(dflt) }),
        None => {}
    }
}
fn users(u: &UserProps, out: &mut Vec<Prop>) {
    for (k, v) in u {
        out.push(Prop { id: 0x26, v: PV::Pair(k.clone(), v.clone()) });
    }
}
fn b(v: bool) -> PV {
    PV::Byte(u8::from(v))
}

pub fn connect_props(c: &Connect5, ex: bool) -> Vec<Prop> {
    let mut p = Vec::new();
    opt_d(&c.session_expiry, 0x11, PV::U32, 0, ex, &mut p);
    opt(&c.receive_max, 0x21, PV::U16, &mut p);
    opt(&c.max_packet_size, 0x27, PV::U32, &mut p);
    opt_d(&c.topic_alias_max, 0x22, PV::U16, 0, ex, &mut p);
    opt_d(&c.req_resp_info, 0x19, b, false, ex, &mut p);
    opt_d(&c.req_prob_info, 0x17, b, true, ex, &mut p);
    users(&c.user_props, &mut p);
    opt(&c.auth_method, 0x15, PV::Str, &mut p);
    opt(&c.auth_data, 0x16, PV::Bin, &mut p);
    p
}

pub fn will_props(w: &Will5) -> Vec<Prop> {
    let mut p = Vec::new();
    opt(&w.delay, 0x18, PV::U32, &mut p);
    opt(&w.pfi, 0x01, b, &mut p);
    opt(&w.expiry, 0x02, PV::U32, &mut p);
    opt(&w.content_type, 0x03, PV::Str, &mut p);
    opt(&w.response_topic, 0x08, PV::Str, &mut p);
    opt(&w.correlation, 0x09, PV::Bin, &mut p);
    users(&w.user_props, &mut p);
    p
}

pub fn connack_props(c: &ConnAck5, ex: bool) -> Vec<Prop> {
    let mut p = Vec::new();
    opt(&c.session_expiry, 0x11, PV::U32, &mut p);
    opt_d(&c.receive_max, 0x21, PV::U16, 65_535, ex, &mut p);
    opt(&c.max_qos, 0x24, PV::Byte, &mut p);
    opt_d(&c.retain_avail, 0x25, b, true, ex, &mut p);
    opt(&c.max_packet_size, 0x27, PV::U32, &mut p);
    opt(&c.assigned_client_id, 0x12, PV::Str, &mut p);
    opt_d(&c.topic_alias_max, 0x22, PV::U16, 0, ex, &mut p);
    opt(&c.reason_string, 0x1F, PV::Str, &mut p);
    users(&c.user_props, &mut p);
    opt_d(&c.wildcard_avail, 0x28, b, true, ex, &mut p);
    opt_d(&c.sub_id_avail, 0x29, b, true, ex, &mut p);
    opt_d(&c.shared_avail, 0x2A, b, true, ex, &mut p);
    opt(&c.server_keep_alive, 0x13, PV::U16, &mut p);
    opt(&c.response_info, 0x1A, PV::Str, &mut p);
    opt(&c.server_reference, 0x1C, PV::Str, &mut p);
    opt(&c.auth_method, 0x15, PV::Str, &mut p);
    opt(&c.auth_data, 0x16, PV::Bin, &mut p);
    p
}

pub fn publish_props(pb: &Publish5, ex: bool) -> Vec<Prop> {
    let mut p = Vec::new();
    opt_d(&pb.pfi, 0x01, b, false, ex, &mut p);
    opt(&pb.expiry, 0x02, PV::U32, &mut p);
    opt(&pb.topic_alias, 0x23, PV::U16, &mut p);
    opt(&pb.response_topic, 0x08, PV::Str, &mut p);
    opt(&pb.correlation, 0x09, PV::Bin, &mut p);
    users(&pb.user_props, &mut p);
    for id in &pb.sub_ids {
        p.push(Prop { id: 0x0B, v: PV::Var(*id) });
    }
    opt(&pb.content_type, 0x03, PV::Str, &mut p);
    p
}

fn ack_props(reason_string: &Option<String>, u: &UserProps) -> Vec<Prop> {
    let mut p = Vec::new();
    opt(reason_string, 0x1F, PV::Str, &mut p);
    users(u, &mut p);
    p
}

fn frame(first: u8, body: Vec<u8>) -> Vec<u8> {
    let mut out = Vec::with_capacity(body.len() + 5);
    out.push(first);
    put_varint(&mut out, body.len() as u32);
    out.extend_from_slice(&body);
    out
}

fn connect_flags(c: &Connect5) -> u8 {
    let mut f = 0u8;
    if c.username.is_some() {
        f |= 0x80;
    }
    if c.password.is_some() {
        f |= 0x40;
    }
    if let Some(w) = &c.will {
        f |= 0x04 | (w.qos << 3);
        if w.retain {
            f |= 0x20;
        }
    }
    if c.clean_start {
        f |= 0x02;
    }
    f
}

/// Fixed header flags + variable header of a PUBLISH, without payload; the
/// caller appends `payload_len` payload bytes.  Returns the bytes up to and
/// including the property section.
pub fn encode_publish_header(p: &Publish5, l: &Layout) -> Vec<u8> {
    let mut vh = Vec::new();
    put_str(&mut vh, &p.topic);
    if p.qos > 0 {
        put_u16(&mut vh, p.pid.expect("qos>0 needs a packet id"));
    } else {
        assert!(p.pid.is_none());
    }
    put_props(&mut vh, publish_props(p, l.explicit_defaults), l);
    let first = 0x30 | (u8::from(p.dup) << 3) | (p.qos << 1) | u8::from(p.retain);
    let mut out = vec![first];
    put_varint(&mut out, vh.len() as u32 + p.payload_len);
    out.extend_from_slice(&vh);
    out
}

/// Encode one packet.  For PUBLISH `payload` must hold exactly
/// `payload_len` bytes.
pub fn encode(p: &P5, payload: &[u8], l: &Layout) -> Vec<u8> {
    let ex = l.explicit_defaults;
    match p {
        P5::Connect(c) => {
            let mut bd = Vec::new();
            put_str(&mut bd, "MQTT");
            bd.push(5);
            bd.push(connect_flags(c));
            put_u16(&mut bd, c.keep_alive);
            put_props(&mut bd, connect_props(c, ex), l);
            put_str(&mut bd, &c.client_id);
            if let Some(w) = &c.will {
                put_props(&mut bd, will_props(w), l);
                put_str(&mut bd, &w.topic);
                put_bin(&mut bd, &w.payload);
            }
            if let Some(u) = &c.username {
                put_str(&mut bd, u);
            }
            if let Some(pw) = &c.password {
                put_bin(&mut bd, pw);
            }
            frame(0x10, bd)
        }
        P5::ConnAck(c) => {
            let mut bd = vec![u8::from(c.session_present), c.reason];
            put_props(&mut bd, connack_props(c, ex), l);
            frame(0x20, bd)
        }
        P5::Publish(pb) => {
            assert_eq!(payload.len() as u32, pb.payload_len);
            let mut out = encode_publish_header(pb, l);
            out.extend_from_slice(payload);
            out
        }
        P5::PubAck(a) | P5::PubRec(a) | P5::PubRel(a) | P5::PubComp(a) => {
            let first = match p {
                P5::PubAck(_) => 0x40,
                P5::PubRec(_) => 0x50,
                P5::PubRel(_) => 0x62,
                _ => 0x70,
            };
            let mut bd = Vec::new();
            put_u16(&mut bd, a.pid);
            let no_props = a.reason_string.is_none() && a.user_props.is_empty();
            if l.short && no_props && a.reason == 0 {
                // 3.4.2.1: reason code and property length may be omitted
            } else if l.short && no_props {
                bd.push(a.reason);
            } else {
                bd.push(a.reason);
                put_props(&mut bd, ack_props(&a.reason_string, &a.user_props), l);
            }
            frame(first, bd)
        }
        P5::Subscribe(s) => {
            let mut bd = Vec::new();
            put_u16(&mut bd, s.pid);
            let mut pr = Vec::new();
            opt(&s.sub_id, 0x0B, PV::Var, &mut pr);
            users(&s.user_props, &mut pr);
            put_props(&mut bd, pr, l);
            for (f, o) in &s.filters {
                put_str(&mut bd, f);
                bd.push(
                    o.qos
                        | (u8::from(o.no_local) << 2)
                        | (u8::from(o.rap) << 3)
                        | (o.retain_handling << 4),
                );
            }
            frame(0x82, bd)
        }
        P5::SubAck(s) | P5::UnsubAck(s) => {
            let mut bd = Vec::new();
            put_u16(&mut bd, s.pid);
            put_props(&mut bd, ack_props(&s.reason_string, &s.user_props), l);
            bd.extend_from_slice(&s.codes);
            frame(if matches!(p, P5::SubAck(_)) { 0x90 } else { 0xB0 }, bd)
        }
        P5::Unsubscribe(u) => {
            let mut bd = Vec::new();
            put_u16(&mut bd, u.pid);
            let mut pr = Vec::new();
            users(&u.user_props, &mut pr);
            put_props(&mut bd, pr, l);
            for f in &u.filters {
                put_str(&mut bd, f);
            }
            frame(0xA2, bd)
        }
        P5::PingReq => vec![0xC0, 0],
        P5::PingResp => vec![0xD0, 0],
        P5::Disconnect(d) => {
            let mut pr = Vec::new();
            opt(&d.session_expiry, 0x11, PV::U32, &mut pr);
            opt(&d.reason_string, 0x1F, PV::Str, &mut pr);
            users(&d.user_props, &mut pr);
            opt(&d.server_reference, 0x1C, PV::Str, &mut pr);
            let mut bd = Vec::new();
            if l.short && pr.is_empty() && d.reason == 0 {
            } else if l.short && pr.is_empty() {
                bd.push(d.reason);
            } else {
                bd.push(d.reason);
                put_props(&mut bd, pr, l);
            }
            frame(0xE0, bd)
        }
        P5::Auth(a) => {
            let mut pr = Vec::new();
            opt(&a.auth_method, 0x15, PV::Str, &mut pr);
            opt(&a.auth_data, 0x16, PV::Bin, &mut pr);
            opt(&a.reason_string, 0x1F, PV::Str, &mut pr);
            users(&a.user_props, &mut pr);
            let mut bd = Vec::new();
            if l.short && pr.is_empty() && a.reason == 0 {
            } else {
                bd.push(a.reason);
                put_props(&mut bd, pr, l);
            }
            frame(0xF0, bd)
        }
    }
}

// ---------------------------------------------------------------------------
// decoder

pub const CONNACK_REASONS: &[u8] = &[
    0, 128, 129, 130, 131, 132, 133, 134, 135, 136, 137, 138, 140, 144, 149, 151, 153, 154, 155,
    156, 157, 159,
];
pub const PUBACK_REASONS: &[u8] = &[0, 16, 128, 131, 135, 144, 145, 151, 153];
pub const PUBREL_REASONS: &[u8] = &[0, 146];
pub const SUBACK_REASONS: &[u8] = &[0, 1, 2, 128, 131, 135, 143, 145, 151, 158, 161, 162];
pub const UNSUBACK_REASONS: &[u8] = &[0, 17, 128, 131, 135, 143, 145];
pub const DISCONNECT_REASONS: &[u8] = &[
    0, 4, 128, 129, 130, 131, 135, 137, 139, 140, 141, 142, 143, 144, 147, 148, 149, 150, 151, 152,
    153, 154, 155, 156, 157, 158, 159, 160, 161, 162,
];
pub const AUTH_REASONS: &[u8] = &[0, 24, 25];

fn reason(v: u8, table: &[u8]) -> R<u8> {
    if table.contains(&v) { Ok(v) } else { Err(Reject::hard(Rej::UnknownReason)) }
}

fn pid(rd: &mut Rd<'_>) -> R<u16> {
    let v = rd.u16()?;
    if v == 0 { Err(Reject::hard(Rej::PidZero)) } else { Ok(v) }
}

/// Parse one property section under the legality table of `ctx`.
pub fn parse_props(rd: &mut Rd<'_>, ctx: Ctx) -> R<Vec<Prop>> {
    let len = rd.varint()? as usize;
    let sec = rd.take(len)?;
    let mut r = Rd::new(sec);
    let mut out: Vec<Prop> = Vec::new();
    let res = parse_props_inner(&mut r, ctx, &mut out);
    rd.gray |= r.gray;
    match res {
        Ok(()) => Ok(out),
        Err(mut e) => {
            e.intrinsic = true;
            Err(e)
        }
    }
}

fn parse_props_inner(r: &mut Rd<'_>, ctx: Ctx, out: &mut Vec<Prop>) -> R<()> {
    while !r.done() {
        let id = r.u8()?;
        let Some(kind) = prop_kind(id) else {
            return Err(Reject::hard(Rej::UnknownProp));
        };
        if !prop_legal(ctx, id) {
            return Err(Reject::hard(Rej::UnknownProp));
        }
        if !repeatable(ctx, id) && out.iter().any(|p| p.id == id) {
            return Err(Reject::hard(Rej::DupProp));
        }
        let v = match kind {
            Kind::Byte => PV::Byte(r.u8()?),
            Kind::U16 => PV::U16(r.u16()?),
            Kind::U32 => PV::U32(r.u32()?),
            Kind::Var => PV::Var(r.varint()?),
            Kind::Str => PV::Str(r.str()?),
            Kind::Bin => PV::Bin(r.bin()?),
            Kind::Pair => {
                let k = r.str()?;
                let v = r.str()?;
                PV::Pair(k, v)
            }
        };
        out.push(Prop { id, v });
    }
    Ok(())
}

struct Props(Vec<Prop>, bool);

impl Props {
    fn take(&mut self, id: u8) -> Option<PV> {
        let i = self.0.iter().position(|p| p.id == id)?;
        Some(self.0.remove(i).v)
    }
    fn u32(&mut self, id: u8) -> Option<u32> {
        match self.take(id) {
            Some(PV::U32(v)) => Some(v),
            _ => None,
        }
    }
    fn u16(&mut self, id: u8) -> Option<u16> {
        match self.take(id) {
            Some(PV::U16(v)) => Some(v),
            _ => None,
        }
    }
    fn byte(&mut self, id: u8) -> Option<u8> {
        match self.take(id) {
            Some(PV::Byte(v)) => Some(v),
            _ => None,
        }
    }
    fn boolean(&mut self, id: u8) -> R<Option<bool>> {
        match self.byte(id) {
            None => Ok(None),
            Some(0) => Ok(Some(false)),
            Some(1) => Ok(Some(true)),
            // "It is a Protocol Error ... to have a value other than 0 or 1"
            Some(_) => Err(Reject::soft(Rej::BadValue)),
        }
    }
    fn string(&mut self, id: u8) -> Option<String> {
        match self.take(id) {
            Some(PV::Str(v)) => Some(v),
            _ => None,
        }
    }
    fn bin(&mut self, id: u8) -> Option<Vec<u8>> {
        match self.take(id) {
            Some(PV::Bin(v)) => Some(v),
            _ => None,
        }
    }
    fn users(&mut self) -> UserProps {
        let mut out = Vec::new();
        while let Some(PV::Pair(k, v)) = self.take(0x26) {
            out.push((k, v));
        }
        out
    }
    fn nz16(&mut self, id: u8) -> R<Option<u16>> {
        match self.u16(id) {
            Some(0) => Err(Reject::soft(Rej::BadValue)),
            v => Ok(v),
        }
    }
    fn nz32(&mut self, id: u8) -> R<Option<u32>> {
        match self.u32(id) {
            Some(0) => Err(Reject::soft(Rej::BadValue)),
            v => Ok(v),
        }
    }
}

/// Verdict of the reference decoder for one complete frame.
#[derive(Clone, Debug, PartialEq, Eq)]
pub enum Verdict {
    /// `gray`: the frame is acceptable to this reference but contains
    /// something the specification frowns upon outside the C02 list (or that
    /// the library is known to be stricter about); either library verdict ok
    Valid { pkt: P5, gray: bool },
    Invalid(Reject),
}

/// Parse the variable header of a PUBLISH from `avail` (bytes following the
/// fixed header, possibly fewer than `rl`).  Returns the packet (with
/// `payload_len` = rl - header length) and the header length.  `Ok(None)`:
/// not enough bytes yet to decide.
pub fn decode_publish_header(
    first: u8,
    rl: u32,
    avail: &[u8],
) -> R<Option<(Publish5, usize, bool)>> {
    let qos = (first >> 1) & 3;
    if qos == 3 {
        return Err(Reject::hard(Rej::Qos3));
    }
    // the header must fit into rl: parse from a window of at most rl bytes
    let win = &avail[..avail.len().min(rl as usize)];
    let truncated = win.len() < rl as usize;
    let mut rd = Rd::new(win);
    let res: R<(Publish5, usize)> = (|| {
        let topic = rd.str()?;
        let pid_v = if qos > 0 { Some(pid(&mut rd)?) } else { None };
        let mut pr = Props(parse_props(&mut rd, Ctx::Publish)?, false);
        let pfi = pr.boolean(0x01)?;
        let expiry = pr.u32(0x02);
        let topic_alias = pr.nz16(0x23)?;
        let response_topic = pr.string(0x08);
        let correlation = pr.bin(0x09);
        let content_type = pr.string(0x03);
        let user_props = pr.users();
        let mut sub_ids = Vec::new();
        while let Some(PV::Var(v)) = pr.take(0x0B) {
            if v == 0 {
                return Err(Reject::soft(Rej::BadValue));
            }
            sub_ids.push(v);
        }
        let hdr = rd.pos;
        Ok((
            Publish5 {
                dup: first & 8 != 0,
                qos,
                retain: first & 1 != 0,
                topic,
                pid: pid_v,
                pfi,
                expiry,
                topic_alias,
                response_topic,
                correlation,
                user_props,
                sub_ids,
                content_type,
                payload_len: rl - hdr as u32,
            },
            hdr,
        ))
    })();
    match res {
        Ok((p, hdr)) => {
            let mut gray = rd.gray;
            if p.expiry == Some(0) {
                gray = true; // library models the interval as non-zero
            }
            if p.qos == 0 && p.dup {
                gray = true; // [MQTT-3.3.1-2]
            }
            if p.topic.contains(['#', '+']) {
                gray = true; // [MQTT-3.3.2-2] rejected above codec level
            }
            Ok(Some((p, hdr, gray)))
        }
        Err(e) if e.class == Rej::Overrun && truncated && !e.intrinsic => Ok(None),
        Err(e) => Err(e),
    }
}

/// Decode one complete frame: `first` byte and exactly Remaining Length bytes.
pub fn decode(first: u8, body: &[u8]) -> Verdict {
    match decode_inner(first, body) {
        Ok((pkt, gray)) => Verdict::Valid { pkt: pkt.normalize(), gray },
        Err(r) => Verdict::Invalid(r),
    }
}

fn expect_flags(first: u8, flags: u8) -> R<()> {
    if first & 0x0F == flags { Ok(()) } else { Err(Reject::soft(Rej::ReservedFlags)) }
}

fn leftover(rd: &Rd<'_>, hard: bool) -> R<()> {
    if rd.done() {
        Ok(())
    } else if hard {
        Err(Reject::hard(Rej::Leftover))
    } else {
        Err(Reject::soft(Rej::Leftover))
    }
}

fn decode_inner(first: u8, body: &[u8]) -> R<(P5, bool)> {
    let mut rd = Rd::new(body);
    let mut gray = false;
    let pkt = match first >> 4 {
        1 => {
            expect_flags(first, 0)?;
            let name = rd.bin()?;
            if name != b"MQTT" {
                return Err(Reject::soft(Rej::BadProtocol));
            }
            if rd.u8()? != 5 {
                return Err(Reject::soft(Rej::BadProtocol));
            }
            let fl = rd.u8()?;
            if fl & 1 != 0 {
                return Err(Reject::soft(Rej::ReservedFlags));
            }
            let keep_alive = rd.u16()?;
            let mut pr = Props(parse_props(&mut rd, Ctx::Connect)?, false);
            let will_flag = fl & 4 != 0;
            let will_qos = (fl >> 3) & 3;
            if will_qos == 3 {
                return Err(Reject::hard(Rej::Qos3));
            }
            if !will_flag && (will_qos != 0 || fl & 0x20 != 0) {
                gray = true; // [MQTT-3.1.2-11], [MQTT-3.1.2-13]
            }
            let client_id = rd.str()?;
            let will = if will_flag {
                let mut wp = Props(parse_props(&mut rd, Ctx::Will)?, false);
                let topic = rd.str()?;
                let payload = rd.bin()?;
                let w = Will5 {
                    qos: will_qos,
                    retain: fl & 0x20 != 0,
                    topic,
                    payload,
                    delay: wp.u32(0x18),
                    pfi: wp.boolean(0x01)?,
                    expiry: wp.u32(0x02),
                    content_type: wp.string(0x03),
                    response_topic: wp.string(0x08),
                    correlation: wp.bin(0x09),
                    user_props: wp.users(),
                };
                if w.expiry == Some(0) {
                    gray = true;
                }
                Some(w)
            } else {
                None
            };
            let username = if fl & 0x80 != 0 { Some(rd.str()?) } else { None };
            let password = if fl & 0x40 != 0 { Some(rd.bin()?) } else { None };
            leftover(&rd, false)?;
            let c = Connect5 {
                clean_start: fl & 2 != 0,
                keep_alive,
                client_id,
                will,
                username,
                password,
                session_expiry: pr.u32(0x11),
                receive_max: pr.nz16(0x21)?,
                max_packet_size: pr.nz32(0x27)?,
                topic_alias_max: pr.u16(0x22),
                req_resp_info: pr.boolean(0x19)?,
                req_prob_info: pr.boolean(0x17)?,
                user_props: pr.users(),
                auth_method: pr.string(0x15),
                auth_data: pr.bin(0x16),
            };
            P5::Connect(Box::new(c))
        }
        2 => {
            expect_flags(first, 0)?;
            let fl = rd.u8()?;
            if fl & 0xFE != 0 {
                return Err(Reject::soft(Rej::ReservedFlags));
            }
            let rc = reason(rd.u8()?, CONNACK_REASONS)?;
            let mut pr = Props(parse_props(&mut rd, Ctx::ConnAck)?, false);
            leftover(&rd, true)?;
            let max_qos = pr.byte(0x24);
            if let Some(q) = max_qos {
                if q == 3 {
                    return Err(Reject::hard(Rej::Qos3));
                }
                if q > 1 {
                    return Err(Reject::soft(Rej::BadValue));
                }
            }
            P5::ConnAck(Box::new(ConnAck5 {
                session_present: fl & 1 != 0,
                reason: rc,
                session_expiry: pr.u32(0x11),
                receive_max: pr.nz16(0x21)?,
                max_qos,
                retain_avail: pr.boolean(0x25)?,
                max_packet_size: pr.nz32(0x27)?,
                assigned_client_id: pr.string(0x12),
                topic_alias_max: pr.u16(0x22),
                reason_string: pr.string(0x1F),
                user_props: pr.users(),
                wildcard_avail: pr.boolean(0x28)?,
                sub_id_avail: pr.boolean(0x29)?,
                shared_avail: pr.boolean(0x2A)?,
                server_keep_alive: pr.u16(0x13),
                response_info: pr.string(0x1A),
                server_reference: pr.string(0x1C),
                auth_method: pr.string(0x15),
                auth_data: pr.bin(0x16),
            }))
        }
        3 => {
            match decode_publish_header(first, body.len() as u32, body)? {
                Some((p, _hdr, g)) => {
                    gray |= g;
                    P5::Publish(Box::new(p))
                }
                None => return Err(Reject::hard(Rej::Overrun)),
            }
        }
        4 | 5 | 6 | 7 => {
            let t = first >> 4;
            expect_flags(first, if t == 6 { 2 } else { 0 })?;
            let id = pid(&mut rd)?;
            let table = if t == 4 || t == 5 { PUBACK_REASONS } else { PUBREL_REASONS };
            let mut a = Ack5 { pid: id, ..Default::default() };
            if !rd.done() {
                a.reason = reason(rd.u8()?, table)?;
                if !rd.done() {
                    let mut pr = Props(parse_props(&mut rd, Ctx::PubAck)?, false);
                    a.reason_string = pr.string(0x1F);
                    a.user_props = pr.users();
                    leftover(&rd, true)?;
                }
            }
            match t {
                4 => P5::PubAck(a),
                5 => P5::PubRec(a),
                6 => P5::PubRel(a),
                _ => P5::PubComp(a),
            }
        }
        8 => {
            expect_flags(first, 2)?;
            let id = pid(&mut rd)?;
            let mut pr = Props(parse_props(&mut rd, Ctx::Subscribe)?, false);
            let sub_id = match pr.take(0x0B) {
                Some(PV::Var(0)) => return Err(Reject::soft(Rej::BadValue)),
                Some(PV::Var(v)) => Some(v),
                _ => None,
            };
            let user_props = pr.users();
            let mut filters = Vec::new();
            while !rd.done() {
                let f = rd.str()?;
                let o = rd.u8()?;
                if o & 3 == 3 {
                    return Err(Reject::hard(Rej::Qos3));
                }
                if (o >> 4) & 3 == 3 {
                    return Err(Reject::soft(Rej::BadValue));
                }
                if o & 0xC0 != 0 {
                    gray = true; // reserved bits [MQTT-3.8.3-5]
                }
                filters.push((
                    f,
                    SubOpts {
                        qos: o & 3,
                        no_local: o & 4 != 0,
                        rap: o & 8 != 0,
                        retain_handling: (o >> 4) & 3,
                    },
                ));
            }
            if filters.is_empty() {
                gray = true; // [MQTT-3.8.3-2]
            }
            P5::Subscribe(Sub5 { pid: id, sub_id, user_props, filters })
        }
        9 | 11 => {
            expect_flags(first, 0)?;
            let id = pid(&mut rd)?;
            let sub = first >> 4 == 9;
            let mut pr =
                Props(parse_props(&mut rd, if sub { Ctx::SubAck } else { Ctx::UnsubAck })?, false);
            let table = if sub { SUBACK_REASONS } else { UNSUBACK_REASONS };
            let mut codes = Vec::new();
            for c in rd.rest() {
                codes.push(reason(*c, table)?);
            }
            if codes.is_empty() {
                gray = true;
            }
            let s = SubAck5 {
                pid: id,
                reason_string: pr.string(0x1F),
                user_props: pr.users(),
                codes,
            };
            if sub { P5::SubAck(s) } else { P5::UnsubAck(s) }
        }
        10 => {
            expect_flags(first, 2)?;
            let id = pid(&mut rd)?;
            let mut pr = Props(parse_props(&mut rd, Ctx::Unsubscribe)?, false);
            let user_props = pr.users();
            let mut filters = Vec::new();
            while !rd.done() {
                filters.push(rd.str()?);
            }
            if filters.is_empty() {
                gray = true; // [MQTT-3.10.3-2]
            }
            P5::Unsubscribe(Unsub5 { pid: id, user_props, filters })
        }
        12 | 13 => {
            expect_flags(first, 0)?;
            leftover(&rd, false)?;
            if first >> 4 == 12 { P5::PingReq } else { P5::PingResp }
        }
        14 => {
            expect_flags(first, 0)?;
            let mut d = Disc5::default();
            if !rd.done() {
                d.reason = reason(rd.u8()?, DISCONNECT_REASONS)?;
                if !rd.done() {
                    let mut pr = Props(parse_props(&mut rd, Ctx::Disconnect)?, false);
                    d.session_expiry = pr.u32(0x11);
                    d.reason_string = pr.string(0x1F);
                    d.user_props = pr.users();
                    d.server_reference = pr.string(0x1C);
                    leftover(&rd, true)?;
                }
            }
            P5::Disconnect(d)
        }
        15 => {
            expect_flags(first, 0)?;
            let mut a = Auth5::default();
            if !rd.done() {
                a.reason = reason(rd.u8()?, AUTH_REASONS)?;
                if !rd.done() {
                    let mut pr = Props(parse_props(&mut rd, Ctx::Auth)?, false);
                    a.auth_method = pr.string(0x15);
                    a.auth_data = pr.bin(0x16);
                    a.reason_string = pr.string(0x1F);
                    a.user_props = pr.users();
                    leftover(&rd, true)?;
                } else {
                    gray = true; // reason code without property length: 3.15.2.2 allows
                    // omission only together with reason 0x00
                }
            }
            P5::Auth(a)
        }
        _ => return Err(Reject::soft(Rej::UnknownType)),
    };
    Ok((pkt, gray | rd.gray))
}

/// Offsets of every length field of a *valid* frame, by nesting level, for
/// structure-aware mutation: (offset, width in bytes, kind).
#[derive(Clone, Copy, Debug, PartialEq, Eq)]
pub enum LenKind {
    Remaining,
    PropSection,
    Str,
    PropStr,
}

pub fn length_fields(frame: &[u8]) -> Vec<(usize, usize, LenKind)> {
    let mut out = Vec::new();
    let Split::Frame { first, rl, hdr, complete } = split(frame) else {
        return out;
    };
    out.push((1, hdr - 1, LenKind::Remaining));
    if !complete {
        return out;
    }
    let body = &frame[hdr..hdr + rl as usize];
    let t = first >> 4;
    // walk the body tolerant-ly, recording u16 length prefixes and property
    // sections
    let mut pos = 0usize;
    let mut str_at = |pos: &mut usize, out: &mut Vec<(usize, usize, LenKind)>| -> bool {
        if *pos + 2 > body.len() {
            return false;
        }
        let n = u16::from_be_bytes([body[*pos], body[*pos + 1]]) as usize;
        out.push((hdr + *pos, 2, LenKind::Str));
        if *pos + 2 + n > body.len() {
            return false;
        }
        *pos += 2 + n;
        true
    };
    let props_at = |pos: &mut usize, out: &mut Vec<(usize, usize, LenKind)>| -> bool {
        match get_varint(&body[(*pos).min(body.len())..]) {
            VarInt::Ok(n, w) => {
                out.push((hdr + *pos, w, LenKind::PropSection));
                let start = *pos + w;
                let end = start + n as usize;
                if end > body.len() {
                    return false;
                }
                // inner string / binary lengths
                let mut p = start;
                while p < end {
                    let id = body[p];
                    p += 1;
                    match prop_kind(id) {
                        Some(Kind::Byte) => p += 1,
                        Some(Kind::U16) => p += 2,
                        Some(Kind::U32) => p += 4,
                        Some(Kind::Var) => match get_varint(&body[p.min(end)..end]) {
                            VarInt::Ok(_, w) => p += w,
                            _ => break,
                        },
                        Some(Kind::Str | Kind::Bin) => {
                            if p + 2 > end {
                                break;
                            }
                            out.push((hdr + p, 2, LenKind::PropStr));
                            p += 2 + u16::from_be_bytes([body[p], body[p + 1]]) as usize;
                        }
                        Some(Kind::Pair) => {
                            for _ in 0..2 {
                                if p + 2 > end {
                                    break;
                                }
                                out.push((hdr + p, 2, LenKind::PropStr));
                                p += 2 + u16::from_be_bytes([body[p], body[p + 1]]) as usize;
                            }
                        }
                        None => break,
                    }
                }
                *pos = end;
                true
            }
            _ => false,
        }
    };
    match t {
        1 => {
            if !str_at(&mut pos, &mut out) {
                return out;
            }
            if pos + 4 > body.len() {
                return out;
            }
            let fl = body[pos + 1];
            pos += 4;
            if !props_at(&mut pos, &mut out) || !str_at(&mut pos, &mut out) {
                return out;
            }
            if fl & 4 != 0
                && (!props_at(&mut pos, &mut out)
                    || !str_at(&mut pos, &mut out)
                    || !str_at(&mut pos, &mut out))
            {
                return out;
            }
            if fl & 0x80 != 0 && !str_at(&mut pos, &mut out) {
                return out;
            }
            if fl & 0x40 != 0 {
                let _ = str_at(&mut pos, &mut out);
            }
        }
        2 => {
            pos = 2;
            let _ = props_at(&mut pos, &mut out);
        }
        3 => {
            if !str_at(&mut pos, &mut out) {
                return out;
            }
            if (first >> 1) & 3 != 0 {
                pos += 2;
            }
            let _ = props_at(&mut pos, &mut out);
        }
        4..=7 => {
            if body.len() > 3 {
                pos = 3;
                let _ = props_at(&mut pos, &mut out);
            }
        }
        8 | 10 => {
            pos = 2;
            if !props_at(&mut pos, &mut out) {
                return out;
            }
            while pos < body.len() {
                if !str_at(&mut pos, &mut out) {
                    break;
                }
                if t == 8 {
                    pos += 1;
                }
            }
        }
        9 | 11 => {
            pos = 2;
            let _ = props_at(&mut pos, &mut out);
        }
        14 | 15 => {
            if body.len() > 1 {
                pos = 1;
                let _ = props_at(&mut pos, &mut out);
            }
        }
        _ => {}
    }
    out
}
