//! Topic names and filters, MQTT 5 section 4.7 (identical in 3.1.1).

/// 4.7.1 / 4.7.3: a filter is at least one character; `#` only as a whole
/// level and only last; `+` only as a whole level.
pub fn filter_valid(f: &str) -> bool {
    if f.is_empty() {
        return false;
    }
    let levels: Vec<&str> = f.split('/').collect();
    let last = levels.len() - 1;
    for (i, l) in levels.iter().enumerate() {
        if l.contains('#') && (*l != "#" || i != last) {
            return false;
        }
        if l.contains('+') && *l != "+" {
            return false;
        }
    }
    true
}

/// 4.7.1-4.7.3 matching of a topic name against a valid filter.
pub fn matches(filter: &str, topic: &str) -> bool {
    let f: Vec<&str> = filter.split('/').collect();
    let t: Vec<&str> = topic.split('/').collect();
    // 4.7.2: wildcard in first level never matches a topic beginning with '$'
    if topic.starts_with('$') && (f[0] == "#" || f[0] == "+") {
        return false;
    }
    let mut i = 0;
    loop {
        match (f.get(i), t.get(i)) {
            (Some(&"#"), _) => return true, // includes the parent level (t exhausted)
            (Some(&"+"), Some(_)) => {}
            (Some(fl), Some(tl)) if fl == tl => {}
            (None, None) => return true,
            _ => return false,
        }
        i += 1;
    }
}

/// Topic *names* (no wildcards, non empty)
pub fn name_valid(t: &str) -> bool {
    !t.is_empty() && !t.contains(['#', '+'])
}
