//! Byte-level primitives of the independent reference codec, written from the
//! OASIS MQTT 3.1.1 / 5.0 text (sections 1.5, 2.1, 2.2).  Shares nothing with
//! `ntex_mqtt`.

use serde::{Deserialize, Serialize};

/// Why the reference decoder refuses a frame.
#[derive(Clone, Copy, Debug, PartialEq, Eq, Hash, Serialize, Deserialize)]
pub enum Rej {
    /// an inner length / count points beyond its enclosing section
    Overrun,
    /// bytes left after the last field of a fixed-layout packet / section
    Leftover,
    /// property identifier unknown or not legal for this packet
    UnknownProp,
    /// reason / return code not defined for this packet
    UnknownReason,
    /// once-only property repeated
    DupProp,
    /// packet identifier 0
    PidZero,
    /// QoS value 3
    Qos3,
    /// ill-formed UTF-8
    Utf8,
    /// fixed header flag nibble not the mandated one
    ReservedFlags,
    /// protocol name / level
    BadProtocol,
    /// reserved bits / values the statement of C02 does not name
    BadValue,
    /// packet type 0 (or 15 in v3)
    UnknownType,
    /// variable byte integer longer than 4 bytes
    BadVarint,
}

#[derive(Clone, Copy, Debug, PartialEq, Eq, Serialize, Deserialize)]
pub struct Reject {
    pub class: Rej,
    /// true when the class is one the property statement obliges the library
    /// to reject; false = malformed per the specification text but outside
    /// the statement's list ("gray": either verdict accepted)
    pub hard: bool,
    /// overrun of an *inner* section whose bytes are all present (cannot be
    /// cured by more input)
    #[serde(default)]
    pub intrinsic: bool,
}

impl Reject {
    pub fn hard(class: Rej) -> Self {
        Reject { class, hard: true, intrinsic: false }
    }
    pub fn soft(class: Rej) -> Self {
        Reject { class, hard: false, intrinsic: false }
    }
}

pub type R<T> = Result<T, Reject>;

/// Variable Byte Integer, algorithm of MQTT 5 section 1.5.5 (non-normative
/// encoder), always minimal.
pub fn put_varint(out: &mut Vec<u8>, mut x: u32) {
    assert!(x <= 268_435_455, "varint out of range");
    loop {
        let mut b = (x % 128) as u8;
        x /= 128;
        if x > 0 {
            b |= 128;
        }
        out.push(b);
        if x == 0 {
            break;
        }
    }
}

pub fn varint_len(x: u32) -> usize {
    match x {
        0..=127 => 1,
        128..=16_383 => 2,
        16_384..=2_097_151 => 3,
        _ => 4,
    }
}

#[derive(Clone, Copy, Debug, PartialEq, Eq)]
pub enum VarInt {
    /// value, encoded length
    Ok(u32, usize),
    /// ran out of bytes before the terminating byte (and fewer than 4 seen)
    Incomplete,
    /// four continuation bytes
    Malformed,
}

/// Decoder of section 1.5.5: multiplier overflow after 4 bytes is malformed.
pub fn get_varint(b: &[u8]) -> VarInt {
    let mut mult: u32 = 1;
    let mut val: u32 = 0;
    for (i, byte) in b.iter().enumerate() {
        if i == 4 {
            return VarInt::Malformed;
        }
        val += u32::from(byte & 127) * mult;
        if byte & 128 == 0 {
            return VarInt::Ok(val, i + 1);
        }
        mult = mult.wrapping_mul(128);
    }
    if b.len() >= 4 { VarInt::Malformed } else { VarInt::Incomplete }
}

pub fn put_u16(out: &mut Vec<u8>, v: u16) {
    out.extend_from_slice(&v.to_be_bytes());
}
pub fn put_u32(out: &mut Vec<u8>, v: u32) {
    out.extend_from_slice(&v.to_be_bytes());
}
pub fn put_bin(out: &mut Vec<u8>, v: &[u8]) {
    assert!(v.len() <= 65_535, "binary data too long for the spec encoder");
    put_u16(out, v.len() as u16);
    out.extend_from_slice(v);
}
pub fn put_str(out: &mut Vec<u8>, v: &str) {
    put_bin(out, v.as_bytes());
}

/// Cursor over one enclosing section (frame body, property section ...).
pub struct Rd<'a> {
    pub b: &'a [u8],
    pub pos: usize,
    /// set when something spec-malformed-but-gray was seen (U+0000, non
    /// minimal varint, reserved bits ...)
    pub gray: bool,
}

impl<'a> Rd<'a> {
    pub fn new(b: &'a [u8]) -> Self {
        Rd { b, pos: 0, gray: false }
    }
    pub fn left(&self) -> usize {
        self.b.len() - self.pos
    }
    pub fn done(&self) -> bool {
        self.pos == self.b.len()
    }
    pub fn u8(&mut self) -> R<u8> {
        if self.left() < 1 {
            return Err(Reject::hard(Rej::Overrun));
        }
        let v = self.b[self.pos];
        self.pos += 1;
        Ok(v)
    }
    pub fn u16(&mut self) -> R<u16> {
        if self.left() < 2 {
            return Err(Reject::hard(Rej::Overrun));
        }
        let v = u16::from_be_bytes([self.b[self.pos], self.b[self.pos + 1]]);
        self.pos += 2;
        Ok(v)
    }
    pub fn u32(&mut self) -> R<u32> {
        if self.left() < 4 {
            return Err(Reject::hard(Rej::Overrun));
        }
        let v = u32::from_be_bytes(self.b[self.pos..self.pos + 4].try_into().unwrap());
        self.pos += 4;
        Ok(v)
    }
    pub fn take(&mut self, n: usize) -> R<&'a [u8]> {
        if self.left() < n {
            return Err(Reject::hard(Rej::Overrun));
        }
        let s = &self.b[self.pos..self.pos + n];
        self.pos += n;
        Ok(s)
    }
    pub fn bin(&mut self) -> R<Vec<u8>> {
        let n = self.u16()? as usize;
        Ok(self.take(n)?.to_vec())
    }
    pub fn str(&mut self) -> R<String> {
        let n = self.u16()? as usize;
        let s = self.take(n)?;
        match std::str::from_utf8(s) {
            Ok(s) => {
                if s.contains('\u{0}') {
                    // [MQTT-1.5.4-2]: malformed per the text, but valid UTF-8:
                    // outside the statement's list
                    self.gray = true;
                }
                Ok(s.to_owned())
            }
            Err(_) => Err(Reject::hard(Rej::Utf8)),
        }
    }
    pub fn varint(&mut self) -> R<u32> {
        match get_varint(&self.b[self.pos..]) {
            VarInt::Ok(v, n) => {
                if n != varint_len(v) {
                    self.gray = true; // non-minimal encoding
                }
                self.pos += n;
                Ok(v)
            }
            VarInt::Incomplete => Err(Reject::hard(Rej::Overrun)),
            VarInt::Malformed => Err(Reject::hard(Rej::BadVarint)),
        }
    }
    pub fn rest(&mut self) -> &'a [u8] {
        let s = &self.b[self.pos..];
        self.pos = self.b.len();
        s
    }
}

/// Content-independent frame splitter: first byte + Remaining Length.
#[derive(Clone, Copy, Debug, PartialEq, Eq)]
pub enum Split {
    /// fixed header not complete yet
    NeedHeader,
    /// varint of 5+ bytes
    BadVarint,
    /// header known: first byte, remaining length, header length; `complete`
    /// tells whether all `hdr + rl` bytes are present
    Frame { first: u8, rl: u32, hdr: usize, complete: bool },
}

pub fn split(b: &[u8]) -> Split {
    if b.len() < 2 {
        return Split::NeedHeader;
    }
    match get_varint(&b[1..]) {
        VarInt::Ok(rl, n) => {
            Split::Frame { first: b[0], rl, hdr: 1 + n, complete: b.len() >= 1 + n + rl as usize }
        }
        VarInt::Incomplete => Split::NeedHeader,
        VarInt::Malformed => Split::BadVarint,
    }
}

/// Deterministic, position dependent payload byte (so that misplaced payload
/// bytes are visible).
pub fn payload_byte(seed: u32, i: u32) -> u8 {
    let x = i.wrapping_mul(2_654_435_761).wrapping_add(seed.wrapping_mul(40_503));
    (x >> 13) as u8 ^ (i as u8)
}

pub fn payload(seed: u32, len: u32) -> Vec<u8> {
    (0..len).map(|i| payload_byte(seed, i)).collect()
}
