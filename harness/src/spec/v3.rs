//! Independent MQTT 3.1.1 reference codec (OASIS MQTT Version 3.1.1,
//! sections 2 and 3).

use serde::{Deserialize, Serialize};

use super::wire::*;

#[derive(Clone, Debug, PartialEq, Eq, Serialize, Deserialize, Default)]
pub struct Will3 {
    pub qos: u8,
    pub retain: bool,
    pub topic: String,
    pub message: Vec<u8>,
}

#[derive(Clone, Debug, PartialEq, Eq, Serialize, Deserialize, Default)]
pub struct Connect3 {
    pub clean_session: bool,
    pub keep_alive: u16,
    pub client_id: String,
    pub will: Option<Will3>,
    pub username: Option<String>,
    pub password: Option<Vec<u8>>,
}

#[derive(Clone, Debug, PartialEq, Eq, Serialize, Deserialize, Default)]
pub struct Publish3 {
    pub dup: bool,
    pub qos: u8,
    pub retain: bool,
    pub topic: String,
    pub pid: Option<u16>,
    pub payload_len: u32,
}

#[derive(Clone, Debug, PartialEq, Eq, Serialize, Deserialize)]
pub enum P3 {
    Connect(Box<Connect3>),
    ConnAck { session_present: bool, code: u8 },
    Publish(Publish3),
    PubAck(u16),
    PubRec(u16),
    PubRel(u16),
    PubComp(u16),
    Subscribe { pid: u16, filters: Vec<(String, u8)> },
    /// return codes 0,1,2 or 0x80
    SubAck { pid: u16, codes: Vec<u8> },
    Unsubscribe { pid: u16, filters: Vec<String> },
    UnsubAck(u16),
    PingReq,
    PingResp,
    Disconnect,
}

impl P3 {
    pub fn kind(&self) -> &'static str {
        match self {
            P3::Connect(_) => "CONNECT",
            P3::ConnAck { .. } => "CONNACK",
            P3::Publish(_) => "PUBLISH",
            P3::PubAck(_) => "PUBACK",
            P3::PubRec(_) => "PUBREC",
            P3::PubRel(_) => "PUBREL",
            P3::PubComp(_) => "PUBCOMP",
            P3::Subscribe { .. } => "SUBSCRIBE",
            P3::SubAck { .. } => "SUBACK",
            P3::Unsubscribe { .. } => "UNSUBSCRIBE",
            P3::UnsubAck(_) => "UNSUBACK",
            P3::PingReq => "PINGREQ",
            P3::PingResp => "PINGRESP",
            P3::Disconnect => "DISCONNECT",
        }
    }
    pub fn type_no(&self) -> u8 {
        match self {
            P3::Connect(_) => 1,
            P3::ConnAck { .. } => 2,
            P3::Publish(_) => 3,
            P3::PubAck(_) => 4,
            P3::PubRec(_) => 5,
            P3::PubRel(_) => 6,
            P3::PubComp(_) => 7,
            P3::Subscribe { .. } => 8,
            P3::SubAck { .. } => 9,
            P3::Unsubscribe { .. } => 10,
            P3::UnsubAck(_) => 11,
            P3::PingReq => 12,
            P3::PingResp => 13,
            P3::Disconnect => 14,
        }
    }
}

fn frame(first: u8, body: Vec<u8>) -> Vec<u8> {
    let mut out = Vec::with_capacity(body.len() + 5);
    out.push(first);
    put_varint(&mut out, body.len() as u32);
    out.extend_from_slice(&body);
    out
}

fn ack(first: u8, pid: u16) -> Vec<u8> {
    let mut bd = Vec::new();
    put_u16(&mut bd, pid);
    frame(first, bd)
}

pub fn encode_publish_header(p: &Publish3) -> Vec<u8> {
    let mut vh = Vec::new();
    put_str(&mut vh, &p.topic);
    if p.qos > 0 {
        put_u16(&mut vh, p.pid.expect("qos>0 needs a packet id"));
    } else {
        assert!(p.pid.is_none());
    }
    let first = 0x30 | (u8::from(p.dup) << 3) | (p.qos << 1) | u8::from(p.retain);
    let mut out = vec![first];
    put_varint(&mut out, vh.len() as u32 + p.payload_len);
    out.extend_from_slice(&vh);
    out
}

pub fn encode(p: &P3, payload: &[u8]) -> Vec<u8> {
    match p {
        P3::Connect(c) => {
            let mut bd = Vec::new();
            put_str(&mut bd, "MQTT");
            bd.push(4);
            let mut f = 0u8;
            if c.username.is_some() {
                f |= 0x80;
            }
            if c.password.is_some() {
                f |= 0x40;
            }
            if let Some(w) = &c.will {
                f |= 0x04 | (w.qos << 3);
                if w.retain {
                    f |= 0x20;
                }
            }
            if c.clean_session {
                f |= 0x02;
            }
            bd.push(f);
            put_u16(&mut bd, c.keep_alive);
            put_str(&mut bd, &c.client_id);
            if let Some(w) = &c.will {
                put_str(&mut bd, &w.topic);
                put_bin(&mut bd, &w.message);
            }
            if let Some(u) = &c.username {
                put_str(&mut bd, u);
            }
            if let Some(pw) = &c.password {
                put_bin(&mut bd, pw);
            }
            frame(0x10, bd)
        }
        P3::ConnAck { session_present, code } => {
            frame(0x20, vec![u8::from(*session_present), *code])
        }
        P3::Publish(pb) => {
            assert_eq!(payload.len() as u32, pb.payload_len);
            let mut out = encode_publish_header(pb);
            out.extend_from_slice(payload);
            out
        }
        P3::PubAck(id) => ack(0x40, *id),
        P3::PubRec(id) => ack(0x50, *id),
        P3::PubRel(id) => ack(0x62, *id),
        P3::PubComp(id) => ack(0x70, *id),
        P3::Subscribe { pid, filters } => {
            let mut bd = Vec::new();
            put_u16(&mut bd, *pid);
            for (f, q) in filters {
                put_str(&mut bd, f);
                bd.push(*q);
            }
            frame(0x82, bd)
        }
        P3::SubAck { pid, codes } => {
            let mut bd = Vec::new();
            put_u16(&mut bd, *pid);
            bd.extend_from_slice(codes);
            frame(0x90, bd)
        }
        P3::Unsubscribe { pid, filters } => {
            let mut bd = Vec::new();
            put_u16(&mut bd, *pid);
            for f in filters {
                put_str(&mut bd, f);
            }
            frame(0xA2, bd)
        }
        P3::UnsubAck(id) => ack(0xB0, *id),
        P3::PingReq => vec![0xC0, 0],
        P3::PingResp => vec![0xD0, 0],
        P3::Disconnect => vec![0xE0, 0],
    }
}

#[derive(Clone, Debug, PartialEq, Eq)]
pub enum Verdict {
    Valid { pkt: P3, gray: bool },
    Invalid(Reject),
}

fn pid(rd: &mut Rd<'_>) -> R<u16> {
    let v = rd.u16()?;
    if v == 0 { Err(Reject::hard(Rej::PidZero)) } else { Ok(v) }
}

pub fn decode_publish_header(
    first: u8,
    rl: u32,
    avail: &[u8],
) -> R<Option<(Publish3, usize, bool)>> {
    let qos = (first >> 1) & 3;
    if qos == 3 {
        return Err(Reject::hard(Rej::Qos3));
    }
    let win = &avail[..avail.len().min(rl as usize)];
    let truncated = win.len() < rl as usize;
    let mut rd = Rd::new(win);
    let res: R<(Publish3, usize)> = (|| {
        let topic = rd.str()?;
        let pid_v = if qos > 0 { Some(pid(&mut rd)?) } else { None };
        let hdr = rd.pos;
        Ok((
            Publish3 {
                dup: first & 8 != 0,
                qos,
                retain: first & 1 != 0,
                topic,
                pid: pid_v,
                payload_len: rl - hdr as u32,
            },
            hdr,
        ))
    })();
    match res {
        Ok((p, hdr)) => {
            let mut gray = rd.gray;
            if p.qos == 0 && p.dup {
                gray = true;
            }
            if p.topic.contains(['#', '+']) || p.topic.is_empty() {
                gray = true;
            }
            Ok(Some((p, hdr, gray)))
        }
        Err(e) if e.class == Rej::Overrun && truncated => Ok(None),
        Err(e) => Err(e),
    }
}

pub fn decode(first: u8, body: &[u8]) -> Verdict {
    match decode_inner(first, body) {
        Ok((pkt, gray)) => Verdict::Valid { pkt, gray },
        Err(r) => Verdict::Invalid(r),
    }
}

fn expect_flags(first: u8, flags: u8) -> R<()> {
    if first & 0x0F == flags { Ok(()) } else { Err(Reject::soft(Rej::ReservedFlags)) }
}

fn only_pid(first: u8, flags: u8, body: &[u8]) -> R<u16> {
    expect_flags(first, flags)?;
    let mut rd = Rd::new(body);
    let id = pid(&mut rd)?;
    if !rd.done() {
        return Err(Reject::hard(Rej::Leftover));
    }
    Ok(id)
}

fn decode_inner(first: u8, body: &[u8]) -> R<(P3, bool)> {
    let mut rd = Rd::new(body);
    let mut gray = false;
    let pkt = match first >> 4 {
        1 => {
            expect_flags(first, 0)?;
            let name = rd.bin()?;
            if name != b"MQTT" {
                return Err(Reject::soft(Rej::BadProtocol));
            }
            if rd.u8()? != 4 {
                return Err(Reject::soft(Rej::BadProtocol));
            }
            let fl = rd.u8()?;
            if fl & 1 != 0 {
                return Err(Reject::soft(Rej::ReservedFlags));
            }
            let keep_alive = rd.u16()?;
            let client_id = rd.str()?;
            let will_flag = fl & 4 != 0;
            let will_qos = (fl >> 3) & 3;
            if will_qos == 3 {
                return Err(Reject::hard(Rej::Qos3));
            }
            if !will_flag && (will_qos != 0 || fl & 0x20 != 0) {
                gray = true;
            }
            if client_id.is_empty() && fl & 2 == 0 {
                // [MQTT-3.1.3-7]: must be answered with CONNACK 0x02; the
                // library rejects at codec level.  Outside the C02 list.
                return Err(Reject::soft(Rej::BadValue));
            }
            if fl & 0x40 != 0 && fl & 0x80 == 0 {
                gray = true; // [MQTT-3.1.2-22]
            }
            let will = if will_flag {
                Some(Will3 {
                    qos: will_qos,
                    retain: fl & 0x20 != 0,
                    topic: rd.str()?,
                    message: rd.bin()?,
                })
            } else {
                None
            };
            let username = if fl & 0x80 != 0 { Some(rd.str()?) } else { None };
            let password = if fl & 0x40 != 0 { Some(rd.bin()?) } else { None };
            if !rd.done() {
                return Err(Reject::soft(Rej::Leftover));
            }
            P3::Connect(Box::new(Connect3 {
                clean_session: fl & 2 != 0,
                keep_alive,
                client_id,
                will,
                username,
                password,
            }))
        }
        2 => {
            expect_flags(first, 0)?;
            let fl = rd.u8()?;
            if fl & 0xFE != 0 {
                return Err(Reject::soft(Rej::ReservedFlags));
            }
            let code = rd.u8()?;
            if code > 5 {
                // 6-255 reserved; the library models 6 as `Reserved`
                if code == 6 {
                    gray = true;
                } else {
                    return Err(Reject::hard(Rej::UnknownReason));
                }
            }
            if !rd.done() {
                return Err(Reject::soft(Rej::Leftover));
            }
            P3::ConnAck { session_present: fl & 1 != 0, code }
        }
        3 => match decode_publish_header(first, body.len() as u32, body)? {
            Some((p, _, g)) => {
                gray |= g;
                P3::Publish(p)
            }
            None => return Err(Reject::hard(Rej::Overrun)),
        },
        4 => P3::PubAck(only_pid(first, 0, body)?),
        5 => P3::PubRec(only_pid(first, 0, body)?),
        6 => P3::PubRel(only_pid(first, 2, body)?),
        7 => P3::PubComp(only_pid(first, 0, body)?),
        11 => P3::UnsubAck(only_pid(first, 0, body)?),
        8 => {
            expect_flags(first, 2)?;
            let id = pid(&mut rd)?;
            let mut filters = Vec::new();
            while !rd.done() {
                let f = rd.str()?;
                let q = rd.u8()?;
                if q & 3 == 3 {
                    return Err(Reject::hard(Rej::Qos3));
                }
                if q & 0xFC != 0 {
                    gray = true; // reserved bits [MQTT-3-8.3-4]
                }
                filters.push((f, q & 3));
            }
            if filters.is_empty() {
                gray = true;
            }
            P3::Subscribe { pid: id, filters }
        }
        9 => {
            expect_flags(first, 0)?;
            let id = pid(&mut rd)?;
            let mut codes = Vec::new();
            for c in rd.rest() {
                if !matches!(*c, 0 | 1 | 2 | 0x80) {
                    return Err(Reject::hard(Rej::UnknownReason));
                }
                codes.push(*c);
            }
            if codes.is_empty() {
                gray = true;
            }
            P3::SubAck { pid: id, codes }
        }
        10 => {
            expect_flags(first, 2)?;
            let id = pid(&mut rd)?;
            let mut filters = Vec::new();
            while !rd.done() {
                filters.push(rd.str()?);
            }
            if filters.is_empty() {
                gray = true;
            }
            P3::Unsubscribe { pid: id, filters }
        }
        12 | 13 | 14 => {
            expect_flags(first, 0)?;
            if !rd.done() {
                return Err(Reject::soft(Rej::Leftover));
            }
            match first >> 4 {
                12 => P3::PingReq,
                13 => P3::PingResp,
                _ => P3::Disconnect,
            }
        }
        _ => return Err(Reject::soft(Rej::UnknownType)),
    };
    Ok((pkt, gray | rd.gray))
}

/// Offsets of the u16 length prefixes and of the Remaining Length of a frame.
pub fn length_fields(frame: &[u8]) -> Vec<(usize, usize)> {
    let mut out = Vec::new();
    let Split::Frame { first, rl, hdr, complete } = split(frame) else {
        return out;
    };
    out.push((1, hdr - 1));
    if !complete {
        return out;
    }
    let body = &frame[hdr..hdr + rl as usize];
    let mut pos = 0usize;
    let mut str_at = |pos: &mut usize, out: &mut Vec<(usize, usize)>| -> bool {
        if *pos + 2 > body.len() {
            return false;
        }
        let n = u16::from_be_bytes([body[*pos], body[*pos + 1]]) as usize;
        out.push((hdr + *pos, 2));
        if *pos + 2 + n > body.len() {
            return false;
        }
        *pos += 2 + n;
        true
    };
    match first >> 4 {
        1 => {
            if !str_at(&mut pos, &mut out) || pos + 4 > body.len() {
                return out;
            }
            let fl = body[pos + 1];
            pos += 4;
            if !str_at(&mut pos, &mut out) {
                return out;
            }
            if fl & 4 != 0 && (!str_at(&mut pos, &mut out) || !str_at(&mut pos, &mut out)) {
                return out;
            }
            if fl & 0x80 != 0 && !str_at(&mut pos, &mut out) {
                return out;
            }
            if fl & 0x40 != 0 {
                let _ = str_at(&mut pos, &mut out);
            }
        }
        3 => {
            let _ = str_at(&mut pos, &mut out);
        }
        8 | 10 => {
            pos = 2;
            while pos < body.len() {
                if !str_at(&mut pos, &mut out) {
                    break;
                }
                if first >> 4 == 8 {
                    pos += 1;
                }
            }
        }
        _ => {}
    }
    out
}
