//! Independent reference ("spec side"): written from the OASIS texts, shares
//! no constants or types with `ntex_mqtt`.
pub mod topic;
pub mod v3;
pub mod v5;
pub mod wire;
