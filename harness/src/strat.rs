//! proptest strategies for reference packet values (valid by construction).

use proptest::prelude::*;
use proptest::strategy::BoxedStrategy;

use crate::spec::v3::{Connect3, P3, Publish3, Will3};
use crate::spec::v5::*;

pub const BOUNDARY_LENS: &[usize] = &[0, 1, 2, 127, 128, 16_383, 16_384, 65_534, 65_535];

fn of_len(n: usize, multibyte: bool) -> String {
    if multibyte && n >= 2 {
        let mut s = String::with_capacity(n);
        s.push('é');
        s.extend(std::iter::repeat_n('x', n - 2));
        s
    } else {
        "y".repeat(n)
    }
}

/// UTF-8 strings: mostly short, sometimes unicode, sometimes a boundary length
pub fn text() -> BoxedStrategy<String> {
    prop_oneof![
        30 => "[a-zA-Z0-9 _.:-]{0,12}",
        4 => prop::sample::select(vec!["é", "日本", "𝄞", "\u{7f}", "a\u{300}", "\u{FFFD}", "\u{10FFFF}"])
            .prop_map(str::to_owned),
        3 => (prop::sample::select(&BOUNDARY_LENS[..5]), any::<bool>()).prop_map(|(n, m)| of_len(n, m)),
        1 => (prop::sample::select(&BOUNDARY_LENS[5..]), any::<bool>()).prop_map(|(n, m)| of_len(n, m)),
    ]
    .boxed()
}

/// short strings only (keeps packets with many of them cheap)
pub fn small_text() -> BoxedStrategy<String> {
    prop_oneof![
        12 => "[a-zA-Z0-9 _.:-]{0,10}",
        2 => prop::sample::select(vec!["é", "日本", "𝄞", ""]).prop_map(str::to_owned),
        1 => (prop::sample::select(&BOUNDARY_LENS[..5]), any::<bool>()).prop_map(|(n, m)| of_len(n, m)),
    ]
    .boxed()
}

pub fn topic_name() -> BoxedStrategy<String> {
    prop_oneof![
        10 => "[a-z]{1,6}(/[a-z0-9]{0,5}){0,3}",
        2 => prop::sample::select(vec!["$SYS/x", "/", "a//b", "é/日本", "t"]).prop_map(str::to_owned),
        1 => (prop::sample::select(&BOUNDARY_LENS[1..]), any::<bool>()).prop_map(|(n, m)| of_len(n, m)),
    ]
    .boxed()
}

pub fn topic_filter() -> BoxedStrategy<String> {
    prop_oneof![
        8 => "[a-z]{1,6}(/[a-z0-9]{0,5}){0,3}",
        4 => prop::sample::select(vec!["#", "+", "a/#", "+/b/#", "$SYS/#", "a/+/c", "/", "é/+"])
            .prop_map(str::to_owned),
        1 => (prop::sample::select(&BOUNDARY_LENS[1..]), any::<bool>()).prop_map(|(n, m)| of_len(n, m)),
    ]
    .boxed()
}

pub fn binary() -> BoxedStrategy<Vec<u8>> {
    prop_oneof![
        20 => prop::collection::vec(any::<u8>(), 0..12),
        3 => prop::sample::select(&BOUNDARY_LENS[..5]).prop_map(|n| vec![0xA5; n]),
        1 => prop::sample::select(&BOUNDARY_LENS[5..]).prop_map(|n| vec![0x5A; n]),
    ]
    .boxed()
}

pub fn user_props() -> BoxedStrategy<UserProps> {
    prop_oneof![
        8 => Just(Vec::new()),
        8 => prop::collection::vec((small_text(), small_text()), 1..4),
        2 => prop::collection::vec((small_text(), text()), 1..3),
        1 => prop::collection::vec((small_text(), small_text()), 4..40),
    ]
    .boxed()
}

pub fn pid() -> BoxedStrategy<u16> {
    prop_oneof![
        3 => prop::sample::select(vec![1u16, 2, 255, 256, 65_535]),
        2 => 1u16..=65_535,
    ]
    .boxed()
}

pub fn opt<T: std::fmt::Debug + Clone + 'static>(s: BoxedStrategy<T>) -> BoxedStrategy<Option<T>> {
    prop_oneof![1 => Just(None), 1 => s.prop_map(Some)].boxed()
}

fn u32_any() -> BoxedStrategy<u32> {
    prop_oneof![
        2 => prop::sample::select(vec![0u32, 1, 255, 65_535, 65_536, u32::MAX]),
        1 => any::<u32>(),
    ]
    .boxed()
}
fn u32_nz() -> BoxedStrategy<u32> {
    u32_any().prop_map(|v| v.max(1)).boxed()
}
fn u16_any() -> BoxedStrategy<u16> {
    prop_oneof![2 => prop::sample::select(vec![0u16, 1, 255, 256, 65_535]), 1 => any::<u16>()].boxed()
}
fn u16_nz() -> BoxedStrategy<u16> {
    u16_any().prop_map(|v| v.max(1)).boxed()
}

pub fn sub_id() -> BoxedStrategy<u32> {
    prop_oneof![
        3 => prop::sample::select(vec![1u32, 127, 128, 16_383, 16_384, 2_097_151, 2_097_152, 268_435_455]),
        1 => 1u32..=268_435_455,
    ]
    .boxed()
}

/// Remaining-Length targets around every width boundary
pub fn rl_target() -> BoxedStrategy<u32> {
    prop_oneof![
        10 => 0u32..200,
        6 => prop::sample::select(vec![
            126u32, 127, 128, 129, 16_382, 16_383, 16_384, 16_385,
        ]),
        2 => prop::sample::select(vec![
            2_097_150u32, 2_097_151, 2_097_152, 2_097_153, 268_435_454, 268_435_455,
        ]),
        1 => 200u32..70_000,
        1 => 70_000u32..268_435_455,
    ]
    .boxed()
}

// --- v5 -----------------------------------------------------------------------

pub fn will5() -> BoxedStrategy<Will5> {
    (
        (0u8..3, any::<bool>(), topic_name(), binary()),
        (
            opt(u32_any()),
            opt(any::<bool>().boxed()),
            opt(u32_nz()),
            opt(small_text()),
            opt(topic_name()),
            opt(binary()),
            user_props(),
        ),
    )
        .prop_map(|((qos, retain, topic, payload), (delay, pfi, expiry, ct, rt, corr, up))| Will5 {
            qos,
            retain,
            topic,
            payload,
            delay,
            pfi,
            expiry,
            content_type: ct,
            response_topic: rt,
            correlation: corr,
            user_props: up,
        })
        .boxed()
}

pub fn connect5() -> BoxedStrategy<P5> {
    (
        (any::<bool>(), u16_any(), text(), opt(will5()), opt(text()), opt(binary())),
        (
            opt(u32_any()),
            opt(u16_nz()),
            opt(u32_nz()),
            opt(u16_any()),
            opt(any::<bool>().boxed()),
            opt(any::<bool>().boxed()),
            user_props(),
            opt(small_text()),
            opt(binary()),
        ),
    )
        .prop_map(|((cs, ka, cid, will, un, pw), (se, rm, mps, tam, rri, rpi, up, am, ad))| {
            P5::Connect(Box::new(Connect5 {
                clean_start: cs,
                keep_alive: ka,
                client_id: cid,
                will,
                username: un,
                password: pw,
                session_expiry: se,
                receive_max: rm,
                max_packet_size: mps,
                topic_alias_max: tam,
                req_resp_info: rri,
                req_prob_info: rpi,
                user_props: up,
                auth_method: am,
                auth_data: ad,
            }))
            .normalize()
        })
        .boxed()
}

pub fn connack5() -> BoxedStrategy<P5> {
    let ob = || opt(any::<bool>().boxed());
    (
        (any::<bool>(), prop::sample::select(CONNACK_REASONS), opt(u32_any()), opt(u16_nz())),
        (opt((0u8..2).boxed()), ob(), opt(u32_nz()), opt(small_text()), opt(u16_any())),
        (opt(text()), user_props(), ob(), ob(), ob()),
        (opt(u16_any()), opt(small_text()), opt(small_text()), opt(small_text()), opt(binary())),
    )
        .prop_map(
            |(
                (sp, reason, se, rm),
                (mq, ra, mps, acid, tam),
                (rs, up, wa, sia, sha),
                (ska, ri, sr, am, ad),
            )| {
                P5::ConnAck(Box::new(ConnAck5 {
                    session_present: sp,
                    reason,
                    session_expiry: se,
                    receive_max: rm,
                    max_qos: mq,
                    retain_avail: ra,
                    max_packet_size: mps,
                    assigned_client_id: acid,
                    topic_alias_max: tam,
                    reason_string: rs,
                    user_props: up,
                    wildcard_avail: wa,
                    sub_id_avail: sia,
                    shared_avail: sha,
                    server_keep_alive: ska,
                    response_info: ri,
                    server_reference: sr,
                    auth_method: am,
                    auth_data: ad,
                }))
                .normalize()
            },
        )
        .boxed()
}

/// PUBLISH whose Remaining Length hits the generated target where possible
pub fn publish5() -> BoxedStrategy<P5> {
    (
        (any::<bool>(), 0u8..3, any::<bool>(), topic_name(), pid()),
        (
            opt(any::<bool>().boxed()),
            opt(u32_nz()),
            opt(u16_nz()),
            opt(topic_name()),
            opt(binary()),
            user_props(),
            prop::collection::vec(sub_id(), 0..4),
            opt(small_text()),
        ),
        rl_target(),
        any::<bool>(),
    )
        .prop_map(|((dup, qos, retain, topic, id), (pfi, ex, ta, rt, corr, up, sids, ct), rl, empty_topic)| {
            let mut p = Publish5 {
                dup: dup && qos > 0,
                qos,
                retain,
                topic: if ta.is_some() && empty_topic { String::new() } else { topic },
                pid: if qos > 0 { Some(id) } else { None },
                pfi,
                expiry: ex,
                topic_alias: ta,
                response_topic: rt,
                correlation: corr,
                user_props: up,
                sub_ids: sids,
                content_type: ct,
                payload_len: 0,
            };
            let hdr = crate::spec::v5::encode_publish_header(&p, &Layout::default());
            let vh = match crate::spec::wire::split(&hdr) {
                crate::spec::wire::Split::Frame { rl, .. } => rl,
                _ => unreachable!(),
            };
            p.payload_len = rl.saturating_sub(vh).min(268_435_455 - vh);
            P5::Publish(Box::new(p)).normalize()
        })
        .boxed()
}

fn ack5(reasons: &'static [u8]) -> BoxedStrategy<Ack5> {
    (pid(), prop::sample::select(reasons), opt(text()), user_props())
        .prop_map(|(pid, reason, reason_string, user_props)| Ack5 { pid, reason, reason_string, user_props })
        .boxed()
}

pub fn subscribe5() -> BoxedStrategy<P5> {
    (
        pid(),
        opt(sub_id()),
        user_props(),
        prop::collection::vec(
            (topic_filter(), (0u8..3, any::<bool>(), any::<bool>(), 0u8..3)),
            1..9,
        ),
    )
        .prop_map(|(pid, sub_id, user_props, f)| {
            P5::Subscribe(Sub5 {
                pid,
                sub_id,
                user_props,
                filters: f
                    .into_iter()
                    .map(|(f, (qos, nl, rap, rh))| {
                        (f, SubOpts { qos, no_local: nl, rap, retain_handling: rh })
                    })
                    .collect(),
            })
        })
        .boxed()
}

fn suback5(reasons: &'static [u8]) -> BoxedStrategy<SubAck5> {
    (
        pid(),
        opt(text()),
        user_props(),
        prop_oneof![
            6 => prop::collection::vec(prop::sample::select(reasons), 1..9),
            1 => prop::collection::vec(prop::sample::select(reasons), 9..80),
        ],
    )
        .prop_map(|(pid, reason_string, user_props, codes)| SubAck5 { pid, reason_string, user_props, codes })
        .boxed()
}

pub fn unsubscribe5() -> BoxedStrategy<P5> {
    (pid(), user_props(), prop::collection::vec(topic_filter(), 1..9))
        .prop_map(|(pid, user_props, filters)| P5::Unsubscribe(Unsub5 { pid, user_props, filters }))
        .boxed()
}

pub fn disconnect5() -> BoxedStrategy<P5> {
    (prop::sample::select(DISCONNECT_REASONS), opt(u32_any()), opt(text()), user_props(), opt(small_text()))
        .prop_map(|(reason, se, rs, up, sr)| {
            P5::Disconnect(Disc5 {
                reason,
                session_expiry: se,
                reason_string: rs,
                user_props: up,
                server_reference: sr,
            })
        })
        .boxed()
}

pub fn auth5() -> BoxedStrategy<P5> {
    (prop::sample::select(AUTH_REASONS), opt(small_text()), opt(binary()), opt(text()), user_props())
        .prop_map(|(reason, am, ad, rs, up)| {
            P5::Auth(Auth5 {
                reason,
                auth_method: am,
                auth_data: ad,
                reason_string: rs,
                user_props: up,
            })
        })
        .boxed()
}

/// all 15 kinds, PUBLISH weighted higher
pub fn p5() -> BoxedStrategy<P5> {
    prop_oneof![
        3 => connect5(),
        3 => connack5(),
        5 => publish5(),
        2 => ack5(PUBACK_REASONS).prop_map(P5::PubAck),
        2 => ack5(PUBACK_REASONS).prop_map(P5::PubRec),
        2 => ack5(PUBREL_REASONS).prop_map(P5::PubRel),
        2 => ack5(PUBREL_REASONS).prop_map(P5::PubComp),
        2 => subscribe5(),
        2 => suback5(SUBACK_REASONS).prop_map(P5::SubAck),
        2 => unsubscribe5(),
        2 => suback5(UNSUBACK_REASONS).prop_map(P5::UnsubAck),
        1 => Just(P5::PingReq),
        1 => Just(P5::PingResp),
        2 => disconnect5(),
        2 => auth5(),
    ]
    .boxed()
}

/// acknowledgement-heavy mix for the encoder-limit property (C09)
pub fn p5_acks() -> BoxedStrategy<P5> {
    prop_oneof![
        3 => ack5(PUBACK_REASONS).prop_map(P5::PubAck),
        2 => ack5(PUBACK_REASONS).prop_map(P5::PubRec),
        2 => ack5(PUBREL_REASONS).prop_map(P5::PubRel),
        2 => ack5(PUBREL_REASONS).prop_map(P5::PubComp),
        3 => suback5(SUBACK_REASONS).prop_map(P5::SubAck),
        3 => suback5(UNSUBACK_REASONS).prop_map(P5::UnsubAck),
        3 => connack5(),
        3 => disconnect5(),
        3 => auth5(),
        1 => subscribe5(),
        1 => unsubscribe5(),
        1 => connect5(),
    ]
    .boxed()
}

pub fn layout() -> BoxedStrategy<Layout> {
    (prop_oneof![1 => Just(0u64), 3 => 1u64..u64::MAX], any::<bool>(), any::<bool>())
        .prop_map(|(perm_seed, explicit_defaults, short)| Layout { perm_seed, explicit_defaults, short })
        .boxed()
}

// --- v3 -----------------------------------------------------------------------

pub fn connect3() -> BoxedStrategy<P3> {
    (
        any::<bool>(),
        u16_any(),
        text(),
        opt((0u8..3, any::<bool>(), topic_name(), binary())
            .prop_map(|(qos, retain, topic, message)| Will3 { qos, retain, topic, message })
            .boxed()),
        opt(text()),
        opt(binary()),
    )
        .prop_map(|(cs, ka, cid, will, un, pw)| {
            P3::Connect(Box::new(Connect3 {
                // [MQTT-3.1.3-7]: empty client id requires clean session
                clean_session: cs || cid.is_empty(),
                keep_alive: ka,
                client_id: cid,
                will,
                username: un,
                password: pw,
            }))
        })
        .boxed()
}

pub fn publish3() -> BoxedStrategy<P3> {
    (any::<bool>(), 0u8..3, any::<bool>(), topic_name(), pid(), rl_target())
        .prop_map(|(dup, qos, retain, topic, id, rl)| {
            let vh = 2 + topic.len() as u32 + if qos > 0 { 2 } else { 0 };
            P3::Publish(Publish3 {
                dup: dup && qos > 0,
                qos,
                retain,
                topic,
                pid: if qos > 0 { Some(id) } else { None },
                payload_len: rl.saturating_sub(vh).min(268_435_455 - vh),
            })
        })
        .boxed()
}

pub fn p3() -> BoxedStrategy<P3> {
    prop_oneof![
        3 => connect3(),
        2 => (any::<bool>(), 0u8..6).prop_map(|(session_present, code)| P3::ConnAck { session_present, code }),
        5 => publish3(),
        1 => pid().prop_map(P3::PubAck),
        1 => pid().prop_map(P3::PubRec),
        1 => pid().prop_map(P3::PubRel),
        1 => pid().prop_map(P3::PubComp),
        2 => (pid(), prop::collection::vec((topic_filter(), 0u8..3), 1..9))
            .prop_map(|(pid, filters)| P3::Subscribe { pid, filters }),
        2 => (pid(), prop::collection::vec(prop::sample::select(vec![0u8, 1, 2, 0x80]), 1..80))
            .prop_map(|(pid, codes)| P3::SubAck { pid, codes }),
        2 => (pid(), prop::collection::vec(topic_filter(), 1..9))
            .prop_map(|(pid, filters)| P3::Unsubscribe { pid, filters }),
        1 => pid().prop_map(P3::UnsubAck),
        1 => Just(P3::PingReq),
        1 => Just(P3::PingResp),
        1 => Just(P3::Disconnect),
    ]
    .boxed()
}

/// compact rendering of a packet for evidence samples (long strings elided)
pub fn brief<T: serde::Serialize>(v: &T) -> serde_json::Value {
    fn shorten(v: serde_json::Value) -> serde_json::Value {
        use serde_json::Value as V;
        match v {
            V::String(s) if s.len() > 40 => {
                V::String(format!("<{} bytes: {}...>", s.len(), s.chars().take(8).collect::<String>()))
            }
            V::Array(a) if a.len() > 24 && a.iter().all(serde_json::Value::is_number) => {
                V::String(format!("<{} bytes>", a.len()))
            }
            V::Array(a) if a.len() > 12 => {
                let n = a.len();
                let mut out: Vec<V> = a.into_iter().take(4).map(shorten).collect();
                out.push(V::String(format!("... {n} items")));
                V::Array(out)
            }
            V::Array(a) => V::Array(a.into_iter().map(shorten).collect()),
            V::Object(o) => V::Object(
                o.into_iter().filter(|(_, v)| !v.is_null()).map(|(k, v)| (k, shorten(v))).collect(),
            ),
            other => other,
        }
    }
    shorten(serde_json::to_value(v).unwrap_or(serde_json::Value::Null))
}
