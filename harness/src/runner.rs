//! Shared machinery: tiers, seeds, sharding over worker threads, statistics,
//! evidence files, replay files, known findings, exit codes.

use std::collections::{BTreeMap, HashSet};
use std::hash::{Hash, Hasher};
use std::path::PathBuf;
use std::sync::Mutex;
use std::time::Instant;

use proptest::strategy::{Strategy, ValueTree};
use proptest::test_runner::{Config, RngAlgorithm, RngSeed, TestCaseError, TestError, TestRunner};
use serde_json::{Value, json};

pub const WORKERS: usize = 16;

#[derive(Clone, Copy, Debug, PartialEq, Eq)]
pub enum Tier {
    Quick,
    Thorough,
}

impl Tier {
    pub fn name(self) -> &'static str {
        match self {
            Tier::Quick => "quick",
            Tier::Thorough => "thorough",
        }
    }
    /// pick by tier
    pub fn pick<T>(self, quick: T, thorough: T) -> T {
        match self {
            Tier::Quick => quick,
            Tier::Thorough => thorough,
        }
    }
}

#[derive(Clone, Debug)]
pub struct Ctx {
    pub id: &'static str,
    pub tier: Tier,
    pub seed: u64,
}

impl Ctx {
    /// seed for one (sub-check, shard)
    pub fn sub_seed(&self, sub: &str, shard: usize) -> u64 {
        let mut h = std::collections::hash_map::DefaultHasher::new();
        self.id.hash(&mut h);
        sub.hash(&mut h);
        self.seed.hash(&mut h);
        shard.hash(&mut h);
        h.finish()
    }
}

pub fn hash_of<T: Hash>(v: &T) -> u64 {
    let mut h = std::collections::hash_map::DefaultHasher::new();
    v.hash(&mut h);
    h.finish()
}

#[derive(Clone, Debug)]
pub struct Failure {
    /// oracle rule that fired (stable identifier, also used as known-finding key)
    pub rule: String,
    /// finer signature used to match known findings
    pub signature: String,
    /// human readable detail
    pub detail: String,
    /// the (shrunk) case, replayable
    pub case: Value,
}

impl Failure {
    pub fn new(rule: &str, signature: impl Into<String>, detail: impl Into<String>) -> Self {
        Failure {
            rule: rule.to_owned(),
            signature: signature.into(),
            detail: detail.into(),
            case: Value::Null,
        }
    }
    pub fn with_case(mut self, case: Value) -> Self {
        self.case = case;
        self
    }
}

/// What one executed case reports back.
#[derive(Clone, Debug, Default)]
pub struct CaseInfo {
    /// `Some(signature hash)` when the case is non-trivial by the property's rule
    pub nontrivial: Option<u64>,
    /// labels for the histogram
    pub labels: Vec<&'static str>,
    /// known findings hit (and excluded) while running the case
    pub known: Vec<String>,
}

impl CaseInfo {
    pub fn trivial() -> Self {
        CaseInfo::default()
    }
    pub fn nontrivial<T: Hash>(sig: &T) -> Self {
        CaseInfo { nontrivial: Some(hash_of(sig)), ..Default::default() }
    }
    pub fn label(mut self, l: &'static str) -> Self {
        self.labels.push(l);
        self
    }
}

#[derive(Default, Debug)]
pub struct Stats {
    pub evaluations: u64,
    pub nontrivial: HashSet<u64>,
    pub labels: BTreeMap<String, u64>,
    pub samples: Vec<Value>,
    pub known_hits: BTreeMap<String, u64>,
    pub failures: Vec<Failure>,
    pub inconclusive: u64,
    pub notes: Vec<String>,
    /// non-trivial cases that are distinct by construction (exhaustive
    /// enumerations never repeat a case), counted instead of hashed
    pub distinct_counted: u64,
}

impl Stats {
    pub fn distinct(&self) -> u64 {
        self.nontrivial.len() as u64 + self.distinct_counted
    }
}

pub const MAX_SAMPLES: usize = 8;

impl Stats {
    pub fn record(&mut self, info: &CaseInfo) {
        self.evaluations += 1;
        if let Some(h) = info.nontrivial {
            self.nontrivial.insert(h);
        }
        for l in &info.labels {
            *self.labels.entry((*l).to_owned()).or_default() += 1;
        }
        for k in &info.known {
            *self.known_hits.entry(k.clone()).or_default() += 1;
        }
    }
    pub fn label(&mut self, l: &str, n: u64) {
        *self.labels.entry(l.to_owned()).or_default() += n;
    }
    pub fn sample(&mut self, v: impl FnOnce() -> Value) {
        if self.samples.len() < MAX_SAMPLES {
            self.samples.push(v());
        }
    }
    /// sample with sparse selection: keeps case #0, #1, then powers of two
    pub fn sample_at(&mut self, idx: u64, v: impl FnOnce() -> Value) {
        if self.samples.len() < MAX_SAMPLES && (idx < 2 || idx.is_power_of_two()) {
            self.samples.push(v());
        }
    }
    pub fn fail(&mut self, f: Failure) {
        if self.failures.len() < 64 {
            self.failures.push(f);
        }
    }
    pub fn merge(&mut self, o: Stats) {
        self.evaluations += o.evaluations;
        self.nontrivial.extend(o.nontrivial);
        for (k, v) in o.labels {
            *self.labels.entry(k).or_default() += v;
        }
        for (k, v) in o.known_hits {
            *self.known_hits.entry(k).or_default() += v;
        }
        for s in o.samples {
            if self.samples.len() < MAX_SAMPLES * 2 {
                self.samples.push(s);
            }
        }
        self.failures.extend(o.failures);
        self.inconclusive += o.inconclusive;
        self.distinct_counted += o.distinct_counted;
        self.notes.extend(o.notes);
    }
}

/// Run `f(shard)` on `n` worker threads (big stacks), merge in shard order.
pub fn par_shards<F>(n: usize, f: F) -> Stats
where
    F: Fn(usize) -> Stats + Sync,
{
    let results: Mutex<Vec<Option<Stats>>> = Mutex::new((0..n).map(|_| None).collect());
    std::thread::scope(|s| {
        for shard in 0..n {
            let f = &f;
            let results = &results;
            std::thread::Builder::new()
                .name(format!("shard-{shard}"))
                .stack_size(64 << 20)
                .spawn_scoped(s, move || {
                    match std::panic::catch_unwind(std::panic::AssertUnwindSafe(|| f(shard))) {
                        Ok(st) => results.lock().unwrap()[shard] = Some(st),
                        Err(_) => {
                            eprintln!(
                                "harness worker {shard} panicked: {} - infrastructure failure",
                                take_panic_info().unwrap_or_default()
                            );
                            std::process::exit(2);
                        }
                    }
                })
                .expect("spawn worker");
        }
    });
    let mut total = Stats::default();
    for st in results.into_inner().unwrap().into_iter().flatten() {
        total.merge(st);
    }
    total
}

/// Drive a proptest strategy with a fixed seed: `cases` executions of `check`;
/// on the first failure proptest shrinks and the minimal value is reported by
/// `to_case`.
pub fn run_proptest<S, F, J>(
    seed: u64,
    cases: u32,
    strategy: &S,
    stats: &mut Stats,
    to_case: J,
    check: F,
) where
    S: Strategy,
    S::Value: Clone + std::fmt::Debug,
    F: Fn(&S::Value) -> Result<CaseInfo, Failure>,
    J: Fn(&S::Value) -> Value,
{
    let config = Config {
        cases,
        failure_persistence: None,
        rng_algorithm: RngAlgorithm::ChaCha,
        rng_seed: RngSeed::Fixed(seed),
        max_shrink_iters: 4000,
        max_global_rejects: 1_000_000,
        ..Config::default()
    };
    let mut runner = TestRunner::new(config);
    let failed = std::cell::Cell::new(false);
    let last_fail: std::cell::RefCell<Option<Failure>> = std::cell::RefCell::new(None);
    let stats_cell = std::cell::RefCell::new(&mut *stats);
    let result = runner.run(strategy, |v| match check(&v) {
        Ok(info) => {
            if !failed.get() {
                let mut st = stats_cell.borrow_mut();
                let idx = st.evaluations;
                st.record(&info);
                st.sample_at(idx, || to_case(&v));
            }
            Ok(())
        }
        Err(f) => {
            failed.set(true);
            let msg = f.rule.clone();
            *last_fail.borrow_mut() = Some(f);
            Err(TestCaseError::fail(msg))
        }
    });
    drop(stats_cell);
    match result {
        Ok(()) => {}
        Err(TestError::Fail(_, value)) => {
            // re-run the minimal value to get its own failure description
            let f = match check(&value) {
                Err(f) => f,
                Ok(_) => last_fail.borrow_mut().take().unwrap_or_else(|| {
                    Failure::new("flaky", "flaky", "minimal case passed on re-run")
                }),
            };
            stats.evaluations += 1;
            stats.fail(f.with_case(to_case(&value)));
        }
        Err(TestError::Abort(why)) => {
            stats.notes.push(format!("proptest aborted: {why}"));
        }
    }
}

/// Shrink-free direct generation (for callers that want raw values).
pub fn gen_values<S: Strategy>(seed: u64, n: usize, strategy: &S) -> Vec<S::Value> {
    let config = Config {
        failure_persistence: None,
        rng_algorithm: RngAlgorithm::ChaCha,
        rng_seed: RngSeed::Fixed(seed),
        ..Config::default()
    };
    let mut runner = TestRunner::new(config);
    (0..n).filter_map(|_| strategy.new_tree(&mut runner).ok().map(|t| t.current())).collect()
}

/// Simple deterministic PRNG for enumerators that need sampled choices
/// outside proptest (seeded from `Ctx::sub_seed`).
#[derive(Clone, Debug)]
pub struct SplitMix(pub u64);

impl SplitMix {
    pub fn next(&mut self) -> u64 {
        self.0 = self.0.wrapping_add(0x9E37_79B9_7F4A_7C15);
        let mut z = self.0;
        z = (z ^ (z >> 30)).wrapping_mul(0xBF58_476D_1CE4_E5B9);
        z = (z ^ (z >> 27)).wrapping_mul(0x94D0_49BB_1331_11EB);
        z ^ (z >> 31)
    }
    pub fn below(&mut self, n: u64) -> u64 {
        if n == 0 { 0 } else { self.next() % n }
    }
    pub fn chance(&mut self, num: u64, den: u64) -> bool {
        self.below(den) < num
    }
}

// ---------------------------------------------------------------------------
// known findings

#[derive(Clone, Debug, serde::Deserialize)]
pub struct KnownFinding {
    pub property: String,
    /// "open" or "fixed"
    pub status: String,
    /// exact failure signature this entry covers (open entries only suppress
    /// failures whose signature equals this string)
    pub signature: String,
    pub what: String,
    #[serde(default)]
    pub commit: Option<String>,
}

pub fn load_known(property: &str) -> Vec<KnownFinding> {
    let path = verif_root().join("known_findings.json");
    let Ok(text) = std::fs::read_to_string(&path) else {
        return Vec::new();
    };
    #[derive(serde::Deserialize)]
    struct File {
        findings: Vec<KnownFinding>,
    }
    match serde_json::from_str::<File>(&text) {
        Ok(f) => f
            .findings
            .into_iter()
            .filter(|k| k.property == property && k.status == "open")
            .collect(),
        Err(e) => {
            eprintln!("cannot parse {}: {e}", path.display());
            std::process::exit(2);
        }
    }
}

/// where evidence and replay files of this run go: VERIF_OUT (development aid: parallel runs against scratch
/// copies of the repository must not overwrite the evidence of /verif), otherwise the verif root
pub fn out_root() -> PathBuf {
    std::env::var_os("VERIF_OUT").map_or_else(verif_root, PathBuf::from)
}

pub fn verif_root() -> PathBuf {
    std::env::var_os("VERIF_ROOT").map_or_else(|| PathBuf::from("/verif"), PathBuf::from)
}

// ---------------------------------------------------------------------------
// outcome / evidence

pub struct Report {
    pub level: &'static str,
    pub rule: String,
    pub exhaustive: bool,
    pub assumptions: Vec<String>,
    pub extra: BTreeMap<String, Value>,
}

pub fn finish(ctx: &Ctx, started: Instant, mut stats: Stats, report: Report) -> i32 {
    let known = load_known(ctx.id);
    let mut violations: Vec<Failure> = Vec::new();
    let mut known_seen: BTreeMap<String, (String, u64)> = BTreeMap::new();
    let mut per_sig: BTreeMap<String, u32> = BTreeMap::new();
    let mut suppressed_dups = 0u64;
    for f in std::mem::take(&mut stats.failures) {
        // at most two witnesses per signature
        let n = per_sig.entry(f.signature.clone()).or_default();
        *n += 1;
        if *n > 2 {
            suppressed_dups += 1;
            continue;
        }
        if let Some(k) = known.iter().find(|k| k.signature == f.signature) {
            known_seen.entry(k.signature.clone()).or_insert((k.what.clone(), 0)).1 += 1;
        } else {
            violations.push(f);
        }
    }
    // findings hit (and excluded by construction) inside cases
    for (sig, n) in &stats.known_hits {
        if let Some(k) = known.iter().find(|k| &k.signature == sig) {
            known_seen.entry(sig.clone()).or_insert((k.what.clone(), 0)).1 += n;
        } else {
            violations.push(Failure::new(
                "unlisted-known",
                sig.clone(),
                format!("case excluded finding '{sig}' which is not listed as open in known_findings.json"),
            ));
        }
    }

    let mut replay_paths = Vec::new();
    for (i, f) in violations.iter().enumerate().take(16) {
        let dir = out_root().join("replays").join(ctx.id);
        let _ = std::fs::create_dir_all(&dir);
        let h = hash_of(&(f.signature.clone(), f.case.to_string()));
        let path = dir.join(format!("{}-{:016x}.json", ctx.tier.name(), h));
        let doc = json!({
            "property": ctx.id,
            "rule": f.rule,
            "signature": f.signature,
            "detail": f.detail,
            "seed": ctx.seed,
            "tier": ctx.tier.name(),
            "case": f.case,
        });
        let _ = std::fs::write(&path, serde_json::to_string_pretty(&doc).unwrap());
        if i < 16 {
            replay_paths.push((f.signature.clone(), f.detail.clone(), path));
        }
    }

    let wall = started.elapsed().as_secs_f64();
    let mut coverage = serde_json::Map::new();
    coverage.insert("evaluations".into(), json!(stats.evaluations));
    coverage.insert("distinct_nontrivial".into(), json!(stats.distinct()));
    coverage.insert("rule".into(), json!(report.rule));
    coverage.insert("samples".into(), json!(stats.samples));
    coverage.insert("exhaustive".into(), json!(report.exhaustive));
    coverage.insert("labels".into(), json!(stats.labels));
    coverage.insert("inconclusive".into(), json!(stats.inconclusive));
    coverage.insert(
        "known_findings_hit".into(),
        json!(known_seen.iter().map(|(k, (w, n))| json!({"signature": k, "what": w, "hits": n})).collect::<Vec<_>>()),
    );
    if suppressed_dups > 0 {
        stats.notes.push(format!("{suppressed_dups} further failing cases with an already reported signature not listed"));
    }
    if !stats.notes.is_empty() {
        coverage.insert("notes".into(), json!(stats.notes));
    }
    for (k, v) in report.extra {
        coverage.insert(k, v);
    }
    let evidence = json!({
        "property_id": ctx.id,
        "tier": ctx.tier.name(),
        "seed": ctx.seed,
        "level": report.level,
        "coverage": coverage,
        "assumptions": report.assumptions,
        "wall_s": (wall * 1000.0).round() / 1000.0,
        "violations": violations.len(),
    });
    let evdir = out_root().join("evidence");
    let _ = std::fs::create_dir_all(&evdir);
    let evpath = evdir.join(format!("{}.json", ctx.id));
    if let Err(e) = std::fs::write(&evpath, serde_json::to_string_pretty(&evidence).unwrap()) {
        eprintln!("cannot write evidence {}: {e}", evpath.display());
        return 2;
    }

    for (sig, (what, n)) in &known_seen {
        println!("KNOWN-FINDING: property={} {} [signature={} hits={}]", ctx.id, what, sig, n);
    }
    println!(
        "{} {}: evaluations={} distinct_nontrivial={} exhaustive={} wall={:.1}s violations={}",
        ctx.id,
        ctx.tier.name(),
        stats.evaluations,
        stats.distinct(),
        report.exhaustive,
        wall,
        violations.len()
    );
    if violations.is_empty() {
        if stats.evaluations == 0 || stats.distinct() < 2 {
            eprintln!("{}: check explored nothing non-trivial - treated as broken machinery", ctx.id);
            return 2;
        }
        0
    } else {
        for (sig, detail, path) in &replay_paths {
            println!("  failing: signature={sig} :: {detail}");
            println!("VIOLATION property={} replay={}", ctx.id, path.display());
        }
        1
    }
}

/// Run `f`, converting a panic into a `Failure` with the panic message and
/// location as signature.
pub fn catch<T>(f: impl FnOnce() -> T) -> Result<T, String> {
    match std::panic::catch_unwind(std::panic::AssertUnwindSafe(f)) {
        Ok(v) => Ok(v),
        Err(_) => Err(take_panic_info().unwrap_or_else(|| "panic (no info)".into())),
    }
}

thread_local! {
    static LAST_PANIC: std::cell::RefCell<Option<String>> = const { std::cell::RefCell::new(None) };
}

pub fn take_panic_info() -> Option<String> {
    LAST_PANIC.with(|p| p.borrow_mut().take())
}

pub fn install_panic_hook() {
    std::panic::set_hook(Box::new(|info| {
        let loc = info.location().map_or_else(String::new, |l| {
            // strip the registry / repo prefix so signatures are stable
            let f = l.file();
            let f = f.rsplit_once("/src/").map_or(f, |(a, b)| {
                let krate = a.rsplit('/').next().unwrap_or("");
                Box::leak(format!("{krate}/src/{b}").into_boxed_str())
            });
            format!("{f}:{}", l.line())
        });
        let msg = if let Some(s) = info.payload().downcast_ref::<&str>() {
            (*s).to_owned()
        } else if let Some(s) = info.payload().downcast_ref::<String>() {
            s.clone()
        } else {
            "non-string panic".to_owned()
        };
        let short: String = msg.chars().take(160).collect();
        LAST_PANIC.with(|p| *p.borrow_mut() = Some(format!("panic at {loc}: {short}")));
        if std::env::var_os("VERIF_SHOW_PANICS").is_some() {
            eprintln!("[panic] {loc}: {short}");
        }
    }));
}
