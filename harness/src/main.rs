use std::time::Instant;

use mqtt_verif::props;
use mqtt_verif::runner::{Ctx, Tier, install_panic_hook};

fn usage() -> ! {
    eprintln!("usage: verif-check <Cxx> [quick|thorough] | verif-check <Cxx> --replay <file>");
    std::process::exit(2);
}

struct StderrLog;
impl log::Log for StderrLog {
    fn enabled(&self, _: &log::Metadata<'_>) -> bool {
        true
    }
    fn log(&self, r: &log::Record<'_>) {
        eprintln!("[{} {}] {}", r.level(), r.target(), r.args());
    }
    fn flush(&self) {}
}
static LOGGER: StderrLog = StderrLog;

fn main() {
    if std::env::var_os("VERIF_TRACE").is_some() {
        let _ = log::set_logger(&LOGGER);
        log::set_max_level(log::LevelFilter::Trace);
    }
    let args: Vec<String> = std::env::args().skip(1).collect();
    if args.is_empty() {
        usage();
    }
    if args[0] == "--leak-probe" {
        // development aid: resident memory after n cases of a given shape
        let mode: u32 = args.get(1).and_then(|s| s.parse().ok()).unwrap_or(0);
        let n: usize = args.get(2).and_then(|s| s.parse().ok()).unwrap_or(20_000);
        let rss = || std::fs::read_to_string("/proc/self/statm").ok().and_then(|s| s.split_whitespace().nth(1).and_then(|x| x.parse::<u64>().ok())).unwrap_or(0) * 4;
        let before = rss();
        for chunk in 0..(n / 400).max(1) {
            let _ = mqtt_verif::bed::with_system(async move {
                let cfg5 = mqtt_verif::bed::v5::Cfg5::default();
                let app = mqtt_verif::bed::App::new();
                let sinks = std::rc::Rc::new(std::cell::RefCell::new(Vec::new()));
                let pipeline = if mode == 4 { Some(mqtt_verif::bed::v5::server_pipeline(app.clone(), &cfg5, sinks.clone()).await) } else { None };
                for _ in 0..400 {
                    match mode {
                        4 => {
                            let e = mqtt_verif::bed::v5::Eut5::attach_server(pipeline.as_ref().unwrap(), app.clone(), &cfg5);
                            e.handshake(&cfg5).await;
                            e.peer.close();
                            e.settle().await;
                            sinks.borrow_mut().clear();
                            app.log.borrow_mut().clear();
                        }
                        0 => {
                            let (p, io) = mqtt_verif::bed::Peer::pair();
                            drop((p, io));
                        }
                        1 => {
                            let (p, io) = mqtt_verif::bed::Peer::pair();
                            let io = ntex_io::Io::new(io, mqtt_verif::bed::v5::Cfg5::default().shared());
                            drop((p, io));
                        }
                        2 => {
                            let cfg = mqtt_verif::bed::any::Cfg::default();
                            let eut = mqtt_verif::bed::any::Eut::start(mqtt_verif::bed::Role::V5Server, &cfg).await;
                            eut.finish().await;
                        }
                        _ => {
                            let cfg = mqtt_verif::bed::any::Cfg::default();
                            let eut = mqtt_verif::bed::any::Eut::start(mqtt_verif::bed::Role::V5Server, &cfg).await;
                            eut.handshake(&cfg).await;
                            eut.finish().await;
                        }
                    }
                }
                if let Ok(ms) = std::env::var("LEAK_INNER_SLEEP") { ntex::time::sleep(ntex::time::Millis(ms.parse().unwrap())).await; }
            });
            if chunk % 10 == 9 && std::env::var_os("LEAK_SLEEP").is_some() {
                let _ = mqtt_verif::bed::with_system(async move { ntex::time::sleep(ntex::time::Millis(2500)).await });
            }
            if chunk % 10 == 9 {
                #[repr(C)]
                #[derive(Default, Debug)]
                struct Mallinfo2 { arena: usize, ordblks: usize, smblks: usize, hblks: usize, hblkhd: usize, usmblks: usize, fsmblks: usize, uordblks: usize, fordblks: usize, keepcost: usize }
                unsafe extern "C" { fn mallinfo2() -> Mallinfo2; fn malloc_trim(pad: usize) -> i32; }
                let mi = unsafe { mallinfo2() };
                eprintln!("mallinfo: arena {} in-use {} free {} keepcost {}", mi.arena, mi.uordblks, mi.fordblks, mi.keepcost);
                if std::env::var_os("LEAK_TRIM").is_some() { unsafe { malloc_trim(0); } }
                eprintln!("after {} cases: rss {} KB (+{})", (chunk + 1) * 400, rss(), rss() - before);
            }
        }
        std::process::exit(0);
    }
    if args[0] == "--emit-corpus" {
        // seed corpora for the libFuzzer targets: valid spec-encoded frames (decoder targets: 3-byte header = whole delivery)
        let Some(dir) = args.get(1) else { usage() };
        let dir = std::path::Path::new(dir);
        for (target, ver) in [("dec_v5", 5u8), ("dec_v3", 3), ("rt5", 5), ("sniff", 5)] {
            let d = dir.join(target);
            std::fs::create_dir_all(&d).expect("corpus dir");
            let frames = if ver == 5 { props::c02::corpus5(7, 150) } else { props::c02::corpus3(7, 150) };
            for (i, f) in frames.iter().enumerate() {
                let mut b = Vec::new();
                if target.starts_with("dec_") {
                    b.extend_from_slice(&[0, 0, 0]);
                }
                b.extend_from_slice(f);
                std::fs::write(d.join(format!("seed-{i:03}")), b).expect("corpus file");
            }
        }
        // the connection-level target: generated histories of the sink engine in the byte form of `sinkbed::decode_ops`
        {
            use proptest::prelude::*;
            let d = dir.join("sink");
            std::fs::create_dir_all(&d).expect("corpus dir");
            let hist = mqtt_verif::runner::gen_values(7, 120, &prop::collection::vec(props::c08::op_strategy(), 2..20));
            let hist2 = mqtt_verif::runner::gen_values(8, 120, &prop::collection::vec(props::c05::op_strategy(), 3..22));
            for (i, ops) in hist.iter().chain(hist2.iter()).enumerate() {
                let mut b = vec![(i % 5) as u8, (i / 5 % 4) as u8, (i / 20 % 3) as u8, (i / 7) as u8];
                b.extend_from_slice(&mqtt_verif::sinkbed::encode_ops(ops));
                std::fs::write(d.join(format!("seed-{i:03}")), b).expect("corpus file");
            }
        }
        // the dispatcher-side connection-level target: pseudo-random byte strings (its fields are decoded positionally)
        {
            let d = dir.join("disp");
            std::fs::create_dir_all(&d).expect("corpus dir");
            let mut x = 0x9E37_79B9_7F4A_7C15u64;
            for i in 0..100usize {
                let b: Vec<u8> = (0..48)
                    .map(|k| {
                        x ^= x << 13;
                        x ^= x >> 7;
                        x ^= x << 17;
                        if k == 0 { (i % 5) as u8 } else if k == 1 { (i / 5 % 4) as u8 } else { (x >> 32) as u8 }
                    })
                    .collect();
                std::fs::write(d.join(format!("seed-{i:03}")), b).expect("corpus file");
            }
        }
        std::process::exit(0);
    }
    let id = args[0].to_uppercase();
    let Some(entry) = props::REGISTRY.iter().find(|e| e.id == id) else {
        eprintln!("unknown property {id}");
        std::process::exit(2);
    };
    install_panic_hook();
    if args.get(1).map(String::as_str) == Some("--replay") {
        let Some(path) = args.get(2) else { usage() };
        std::process::exit((entry.replay)(path));
    }
    let tier = match args.get(1).map(String::as_str).or(std::env::var("VERIF_TIER").ok().as_deref()) {
        Some("thorough") => Tier::Thorough,
        Some("quick") | None => Tier::Quick,
        Some(_) => usage(),
    };
    let seed = std::env::var("VERIF_SEED").ok().and_then(|s| s.parse::<u64>().ok()).unwrap_or(0);
    let ctx = Ctx { id: entry.id, tier, seed };
    let started = Instant::now();
    // watchdog: infrastructure trouble is exit 2, never a violation
    let limit = std::env::var("VERIF_WATCHDOG_S").ok().and_then(|s| s.parse::<u64>().ok())
        .unwrap_or(if tier == Tier::Quick { 900 } else { 6 * 3600 });
    std::thread::spawn(move || {
        std::thread::sleep(std::time::Duration::from_secs(limit));
        eprintln!("watchdog: check exceeded {limit}s - inconclusive");
        std::process::exit(2);
    });
    // regression tier: committed replay files replays/<id>/reg-*.json (shrunk failures of defects repaired earlier,
    // cases that once raised a false alarm) are judged first, bypassing the generators (C02 runs its own inside the check)
    let mut regressions_failed = false;
    if entry.id != "C02" {
        let dir = mqtt_verif::runner::verif_root().join("replays").join(entry.id);
        let mut files: Vec<_> = std::fs::read_dir(&dir)
            .map(|rd| rd.filter_map(Result::ok).map(|e| e.path()).filter(|p| p.file_name().and_then(|n| n.to_str()).is_some_and(|n| n.starts_with("reg-") && n.ends_with(".json"))).collect())
            .unwrap_or_default();
        files.sort();
        let n = files.len();
        for f in files {
            let path = f.to_string_lossy().into_owned();
            match (entry.replay)(&path) {
                0 => {}
                1 => regressions_failed = true,
                _ => {
                    eprintln!("regression input {path} could not be replayed");
                    std::process::exit(2);
                }
            }
        }
        if n > 0 {
            println!("{} regression inputs: {n} replayed, failed: {regressions_failed}", entry.id);
        }
    }
    let code = (entry.run)(&ctx, started);
    std::process::exit(if regressions_failed && code == 0 { 1 } else { code });
}
