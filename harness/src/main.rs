use std::time::Instant;

use mqtt_verif::props;
use mqtt_verif::runner::{Ctx, Tier, install_panic_hook};

fn usage() -> ! {
    eprintln!("usage: verif-check <Cxx> [quick|thorough] | verif-check <Cxx> --replay <file>");
    std::process::exit(2);
}

struct StderrLog;
impl log::Log for StderrLog {
    fn enabled(&self, _: &log::Metadata<'_>) -> bool {
        true
    }
    fn log(&self, r: &log::Record<'_>) {
        eprintln!("[{} {}] {}", r.level(), r.target(), r.args());
    }
    fn flush(&self) {}
}
static LOGGER: StderrLog = StderrLog;

fn main() {
    if std::env::var_os("VERIF_TRACE").is_some() {
        let _ = log::set_logger(&LOGGER);
        log::set_max_level(log::LevelFilter::Trace);
    }
    let args: Vec<String> = std::env::args().skip(1).collect();
    if args.is_empty() {
        usage();
    }
    let id = args[0].to_uppercase();
    let Some(entry) = props::REGISTRY.iter().find(|e| e.id == id) else {
        eprintln!("unknown property {id}");
        std::process::exit(2);
    };
    install_panic_hook();
    if args.get(1).map(String::as_str) == Some("--replay") {
        let Some(path) = args.get(2) else { usage() };
        std::process::exit((entry.replay)(path));
    }
    let tier = match args.get(1).map(String::as_str).or(std::env::var("VERIF_TIER").ok().as_deref()) {
        Some("thorough") => Tier::Thorough,
        Some("quick") | None => Tier::Quick,
        Some(_) => usage(),
    };
    let seed = std::env::var("VERIF_SEED").ok().and_then(|s| s.parse::<u64>().ok()).unwrap_or(0);
    let ctx = Ctx { id: entry.id, tier, seed };
    let started = Instant::now();
    // watchdog: infrastructure trouble is exit 2, never a violation
    let limit = std::env::var("VERIF_WATCHDOG_S").ok().and_then(|s| s.parse::<u64>().ok())
        .unwrap_or(if tier == Tier::Quick { 900 } else { 6 * 3600 });
    std::thread::spawn(move || {
        std::thread::sleep(std::time::Duration::from_secs(limit));
        eprintln!("watchdog: check exceeded {limit}s - inconclusive");
        std::process::exit(2);
    });
    let code = (entry.run)(&ctx, started);
    std::process::exit(code);
}
