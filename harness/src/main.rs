use std::time::Instant;

use mqtt_verif::props;
use mqtt_verif::runner::{Ctx, Tier, install_panic_hook};

fn usage() -> ! {
    eprintln!("usage: verif-check <Cxx> [quick|thorough] | verif-check <Cxx> --replay <file>");
    std::process::exit(2);
}

struct StderrLog;
impl log::Log for StderrLog {
    fn enabled(&self, _: &log::Metadata<'_>) -> bool {
        true
    }
    fn log(&self, r: &log::Record<'_>) {
        eprintln!("[{} {}] {}", r.level(), r.target(), r.args());
    }
    fn flush(&self) {}
}
static LOGGER: StderrLog = StderrLog;

fn main() {
    if std::env::var_os("VERIF_TRACE").is_some() {
        let _ = log::set_logger(&LOGGER);
        log::set_max_level(log::LevelFilter::Trace);
    }
    let args: Vec<String> = std::env::args().skip(1).collect();
    if args.is_empty() {
        usage();
    }
    if args[0] == "--emit-corpus" {
        // seed corpora for the libFuzzer targets: valid spec-encoded frames (decoder targets: 3-byte header = whole delivery)
        let Some(dir) = args.get(1) else { usage() };
        let dir = std::path::Path::new(dir);
        for (target, ver) in [("dec_v5", 5u8), ("dec_v3", 3), ("rt5", 5), ("sniff", 5)] {
            let d = dir.join(target);
            std::fs::create_dir_all(&d).expect("corpus dir");
            let frames = if ver == 5 { props::c02::corpus5(7, 150) } else { props::c02::corpus3(7, 150) };
            for (i, f) in frames.iter().enumerate() {
                let mut b = Vec::new();
                if target.starts_with("dec_") {
                    b.extend_from_slice(&[0, 0, 0]);
                }
                b.extend_from_slice(f);
                std::fs::write(d.join(format!("seed-{i:03}")), b).expect("corpus file");
            }
        }
        std::process::exit(0);
    }
    let id = args[0].to_uppercase();
    let Some(entry) = props::REGISTRY.iter().find(|e| e.id == id) else {
        eprintln!("unknown property {id}");
        std::process::exit(2);
    };
    install_panic_hook();
    if args.get(1).map(String::as_str) == Some("--replay") {
        let Some(path) = args.get(2) else { usage() };
        std::process::exit((entry.replay)(path));
    }
    let tier = match args.get(1).map(String::as_str).or(std::env::var("VERIF_TIER").ok().as_deref()) {
        Some("thorough") => Tier::Thorough,
        Some("quick") | None => Tier::Quick,
        Some(_) => usage(),
    };
    let seed = std::env::var("VERIF_SEED").ok().and_then(|s| s.parse::<u64>().ok()).unwrap_or(0);
    let ctx = Ctx { id: entry.id, tier, seed };
    let started = Instant::now();
    // watchdog: infrastructure trouble is exit 2, never a violation
    let limit = std::env::var("VERIF_WATCHDOG_S").ok().and_then(|s| s.parse::<u64>().ok())
        .unwrap_or(if tier == Tier::Quick { 900 } else { 6 * 3600 });
    std::thread::spawn(move || {
        std::thread::sleep(std::time::Duration::from_secs(limit));
        eprintln!("watchdog: check exceeded {limit}s - inconclusive");
        std::process::exit(2);
    });
    let code = (entry.run)(&ctx, started);
    std::process::exit(code);
}
