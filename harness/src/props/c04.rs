//! C04 — responses leave in the order their requests arrived, whatever order
//! the handlers complete in.  Stateful + exhaustive small schedules.

use std::collections::BTreeMap;
use std::time::Instant;

use proptest::prelude::*;
use serde::{Deserialize, Serialize};
use serde_json::json;

use crate::bed::any::{Cfg, Eut};
use crate::bed::*;
use crate::runner::*;
use crate::spec::v5::{self as s5, P5};

#[derive(Clone, Copy, Debug, PartialEq, Eq, Hash, Serialize, Deserialize)]
pub enum Kind {
    Pub1,
    Pub2,
    /// v5: QoS 1 publish whose handler returns a negative acknowledgement
    Pub1Neg,
    /// v5 server: QoS 1 publish whose handler fails with an error mapped to a negative acknowledgement
    Pub1ErrAck,
    /// PUBREL for a QoS 2 publish completed (up to PUBREC) before the measured burst
    PubRel,
    Sub,
    Unsub,
    Ping,
    Auth,
    /// QoS 0 publish: a request whose handler produces no response (it must not hold up or swallow the responses around it)
    Pub0,
    /// client roles: PUBREL carrying the id of the nearest earlier QoS 1 publish whose handler is still running (the only
    /// PUBREL a client hands to its protocol handler); that publish is kept deferred until the PUBREL has arrived
    PubRelOf,
    /// server roles: the PUBREL of the nearest earlier `PubRel` once more, arriving while the protocol handler of the first is
    /// still running (that handler is kept deferred until the repeat has been read); both are requests, both get a PUBCOMP
    PubRelAgain,
    /// v5 server whose peer announced a Maximum Packet Size of 48: SUBSCRIBE with 64 filters, whose SUBACK cannot be made to
    /// fit.  The connection may end over it (it does, with an encode error); what it may not do is go on without the SUBACK
    SubBig,
}

/// `PubRelOf` resolved: the kinds actually sent (a `PubRelOf` without a free earlier QoS 1 publish becomes a QoS 1 publish)
/// and the index of the publish each `PubRelOf` refers to
fn resolve(kinds: &[Kind]) -> (Vec<Kind>, Vec<Option<usize>>) {
    let mut eff = kinds.to_vec();
    let mut target: Vec<Option<usize>> = vec![None; kinds.len()];
    for i in 0..kinds.len() {
        if kinds[i] == Kind::PubRelOf {
            let t = (0..i).rev().find(|j| eff[*j] == Kind::Pub1 && !target.contains(&Some(*j)));
            match t {
                Some(t) => target[i] = Some(t),
                None => eff[i] = Kind::Pub1,
            }
        }
        if kinds[i] == Kind::PubRelAgain {
            // (a `PubRelAgain` without a free earlier `PubRel` is a `PubRel` of its own)
            let t = (0..i).rev().find(|j| eff[*j] == Kind::PubRel && !target.contains(&Some(*j)));
            match t {
                Some(t) => target[i] = Some(t),
                None => eff[i] = Kind::PubRel,
            }
        }
    }
    (eff, target)
}

impl Kind {
    fn is_publish(self) -> bool {
        matches!(self, Kind::Pub1 | Kind::Pub2 | Kind::Pub1Neg | Kind::Pub1ErrAck | Kind::Pub0)
    }
}

#[derive(Clone, Debug, PartialEq, Eq, Hash, Serialize, Deserialize)]
pub struct Case {
    pub role: Role,
    pub kinds: Vec<Kind>,
    /// bit i set = handler of request i is deferred
    pub deferred: u32,
    /// sizes of the write groups (sum >= len; last group takes the rest)
    pub groups: Vec<u8>,
    pub settle_between: bool,
    /// order in which deferred gates are opened (indices into requests)
    pub open_order: Vec<u8>,
    /// after how many groups each opening (same index as open_order) happens
    pub open_after: Vec<u8>,
    /// stall the peer's receive window during groups [a, b)
    pub stall: Option<(u8, u8)>,
    /// publishes reach their handlers through the topic router (server: `Router`, client: `resource()`)
    #[serde(default)]
    pub router: bool,
}

fn fail(c: &Case, rule: &str, detail: String) -> Failure {
    Failure::new(rule, format!("C04/{}/{rule}", c.role.name()), detail)
}

/// identity of a response on the wire
fn resp_id(p: &P5) -> Option<(u8, u16)> {
    Some(match p {
        P5::PubAck(a) => (4, a.pid),
        P5::PubRec(a) => (5, a.pid),
        P5::PubComp(a) => (7, a.pid),
        P5::SubAck(a) => (9, a.pid),
        P5::UnsubAck(a) => (11, a.pid),
        P5::PingResp => (13, 0),
        P5::Auth(_) => (15, 0),
        _ => return None,
    })
}

pub async fn run_case(c: Case) -> Result<CaseInfo, Failure> {
    let mut cfg = Cfg::default();
    if c.stall.is_some() {
        cfg.v3.write_hw = 8;
        cfg.v5.write_hw = 8;
    }
    cfg.v3.router = c.router;
    cfg.v5.router = c.router;
    let big = c.kinds.contains(&Kind::SubBig);
    if big {
        cfg.v5.connect.max_packet_size = Some(48);
    }
    let eut = Eut::start(c.role, &cfg).await;
    eut.handshake(&cfg).await;
    let n_relof = { let (eff, t) = resolve(&c.kinds); if t.iter().any(Option::is_some) { eff.iter().filter(|k| matches!(k, Kind::PubRel | Kind::PubRelOf | Kind::PubRelAgain)).count() } else { 0 } };
    let res = run_case_on(c, &eut).await;
    if res.is_err() && big {
        // the response that cannot be made to fit ends the connection: from the failed encode on it is no longer healthy and
        // nothing is owed (responses behind it may or may not still be written before the teardown is through)
        eut.app().open_all();
        eut.settle().await;
        if !eut.app().stops().is_empty() || eut.done().is_some() {
            return Ok(CaseInfo::trivial().label("oversize-response-ended-the-connection"));
        }
    }
    if res.is_err() && n_relof > 0 {
        // a PUBREL for the id of a running QoS 1 publish (clients) or a PUBREL repeated while the first is being handled (servers)
        // comes from a peer that is itself at the edge of the protocol; the case is judged only if the library took every PUBREL
        // for a request (its protocol handler was called)
        let accepted = eut.app().events().iter().filter(|e| matches!(e, Ev::CtlEnter { kind: CtlKind::PubRel, .. })).count();
        if accepted < n_relof && std::env::var_os("VERIF_C04_NOMASK").is_none() {
            return Ok(CaseInfo::trivial().label("odd-pubrel-not-accepted"));
        }
    }
    res
}

async fn run_case_on(c: Case, eut: &Eut) -> Result<CaseInfo, Failure> {
    let app = eut.app().clone();
    let n = c.kinds.len();
    let (kinds, target) = resolve(&c.kinds);
    let deferred = target.iter().flatten().fold(c.deferred, |m, t| m | 1 << t);

    // pre-phase: one completed QoS 2 first leg per PUBREL
    let n_rel = kinds.iter().filter(|k| **k == Kind::PubRel).count();
    for k in 0..n_rel {
        let pid = 100 + k as u16;
        eut.peer_send(&P5::Publish(Box::new(s5::Publish5 { qos: 2, pid: Some(pid), topic: "t/a".into(), ..Default::default() })), &[]);
        eut.settle().await;
    }
    let base = {
        let (pk, tail) = eut.packets();
        if !matches!(tail, crate::bed::v5::WireTail::Clean) || pk.iter().filter(|w| matches!(w.pkt, P5::PubRec(_))).count() != n_rel {
            return Err(fail(&c, "harness-prephase", format!("pre-phase did not produce {n_rel} PUBREC: {:?}", pk.iter().map(|w| w.pkt.kind()).collect::<Vec<_>>())));
        }
        pk.len()
    };
    let pub_base = n_rel as u32;

    // expected responses and gate identities in arrival order
    let mut expected: Vec<(u8, u16)> = Vec::new();
    let mut gate: Vec<(u8, u32)> = Vec::new();
    let mut has_resp: Vec<bool> = Vec::new();
    let mut frames: Vec<Vec<u8>> = Vec::new();
    let (mut np, mut nc, mut nrel) = (0u32, 0u32, 0u16);
    let mut rel_id: Vec<u16> = vec![0; n];
    for (i, k) in kinds.iter().enumerate() {
        let pid = i as u16 + 1;
        let (pkt, exp, g) = match k {
            Kind::Pub1 => (P5::Publish(Box::new(s5::Publish5 { qos: 1, pid: Some(pid), topic: "t/a".into(), ..Default::default() })), (4, pid), (G_PUB, pub_base + np)),
            Kind::Pub1Neg | Kind::Pub1ErrAck => {
                let outcome = if *k == Kind::Pub1Neg { Outcome::NegAck(0x87) } else { Outcome::ErrAck(0x80) };
                app.pub_plans.borrow_mut().insert(pub_base + np, PubPlan { outcome, read: ReadPlan::Eager });
                (P5::Publish(Box::new(s5::Publish5 { qos: 1, pid: Some(pid), topic: "t/a".into(), ..Default::default() })), (4, pid), (G_PUB, pub_base + np))
            }
            Kind::Pub2 => (P5::Publish(Box::new(s5::Publish5 { qos: 2, pid: Some(pid), topic: "t/b".into(), ..Default::default() })), (5, pid), (G_PUB, pub_base + np)),
            Kind::PubRel => {
                let id = 100 + nrel;
                rel_id[i] = id;
                nrel += 1;
                // v5: every second PUBREL carries the (valid) reason code 0x92 and a reason string: its PUBCOMP is due all the same
                let a = if c.role.is_v5() && nrel % 2 == 0 { s5::Ack5 { pid: id, reason: 0x92, reason_string: Some("gone".into()), ..Default::default() } } else { s5::Ack5 { pid: id, ..Default::default() } };
                (P5::PubRel(a), (7, id), (G_CTL, nc))
            }
            Kind::Sub => (P5::Subscribe(s5::Sub5 { pid, filters: vec![("a/+".into(), s5::SubOpts { qos: 1, ..Default::default() })], ..Default::default() }), (9, pid), (G_CTL, nc)),
            Kind::Unsub => (P5::Unsubscribe(s5::Unsub5 { pid, filters: vec!["a/+".into()], ..Default::default() }), (11, pid), (G_CTL, nc)),
            Kind::Ping => (P5::PingReq, (13, 0), (G_CTL, nc)),
            Kind::Auth => (P5::Auth(s5::Auth5 { reason: 0x19, auth_method: Some("m".into()), ..Default::default() }), (15, 0), (G_CTL, nc)),
            Kind::Pub0 => (P5::Publish(Box::new(s5::Publish5 { qos: 0, pid: None, topic: "t/a".into(), ..Default::default() })), (0, 0), (G_PUB, pub_base + np)),
            Kind::PubRelOf => {
                let id = target[i].map_or(0, |t| t as u16 + 1);
                (P5::PubRel(s5::Ack5 { pid: id, ..Default::default() }), (7, id), (G_CTL, nc))
            }
            Kind::SubBig => (P5::Subscribe(s5::Sub5 { pid, filters: (0..64).map(|k| (format!("a/{k}"), s5::SubOpts { qos: 1, ..Default::default() })).collect(), ..Default::default() }), (9, pid), (G_CTL, nc)),
            Kind::PubRelAgain => {
                let id = target[i].map_or(0, |t| rel_id[t]);
                (P5::PubRel(s5::Ack5 { pid: id, ..Default::default() }), (7, id), (G_CTL, nc))
            }
        };
        if k.is_publish() {
            np += 1;
        } else {
            nc += 1;
        }
        if *k != Kind::Pub0 {
            expected.push(exp);
        }
        has_resp.push(*k != Kind::Pub0);
        gate.push(g);
        frames.push(eut.encode(&pkt, &[]));
        if deferred >> i & 1 == 1 {
            app.hold(g.0, g.1);
        }
    }

    let done_of = |app: &App, g: (u8, u32)| -> bool {
        app.log.borrow().iter().any(|e| match e {
            Ev::PubExit { seq, .. } => g.0 == G_PUB && *seq == g.1,
            Ev::CtlExit { seq } => g.0 == G_CTL && *seq == g.1,
            _ => false,
        })
    };
    let sent_upto = std::cell::Cell::new(0usize);
    // has the PUBREL that refers to publish `ri` (if any) reached the protocol handler?  (the k-th such PUBREL is the k-th
    // PUBREL the protocol handler sees)
    let rel_entered = |app: &App, ri: usize| -> bool {
        match (0..n).find(|j| target[*j] == Some(ri)) {
            None => true,
            // the repeat of a PUBREL waits behind the first in the endpoint's buffer: it has "arrived" once everything
            // written so far has been read
            Some(j) if kinds[j] == Kind::PubRelAgain => sent_upto.get() > j && eut.peer().unread() == 0,
            Some(j) => {
                let rank = (0..j).filter(|i| target[*i].is_some()).count();
                app.log.borrow().iter().filter(|e| matches!(e, Ev::CtlEnter { kind: CtlKind::PubRel, .. })).count() > rank
            }
        }
    };
    let mut inversions = false;
    let mut stalled = false;

    // observation: wire responses == longest arrival-order prefix of completed requests
    let observe = |eut: &Eut, arrived: usize, stalled: bool, fin: bool| -> Result<usize, Failure> {
        let (pk, tail) = eut.packets();
        if !matches!(tail, crate::bed::v5::WireTail::Clean | crate::bed::v5::WireTail::Incomplete(_)) {
            return Err(fail(&c, "wire-garbage", format!("{tail:?}")));
        }
        let got: Vec<(u8, u16)> = pk[base.min(pk.len())..].iter().filter_map(|w| resp_id(&w.pkt)).collect();
        if got.len() > expected.len() || got[..] != expected[..got.len()] {
            return Err(Failure::new(
                "order",
                format!("C04/{}/order", c.role.name()),
                format!("responses on the wire {got:?} are not a prefix of the arrival order {expected:?}"),
            ));
        }
        // responses due: those of the longest prefix of arrived requests whose handlers have completed
        let mut lead = 0;
        while lead < arrived && done_of(eut.app(), gate[lead]) {
            lead += 1;
        }
        let ready = has_resp[..lead].iter().filter(|h| **h).count();
        if got.len() > ready {
            return Err(fail(&c, "response-before-handler", format!("{} responses written {got:?} but only {ready} leading requests completed; log {:?}", got.len(), crate::props::c03::brief_log(&eut.app().events()))));
        }
        // (promptness is not part of the statement: a completed response may still be in the
        // library's hands at an intermediate point; a response that never appears is caught by the
        // final check, which adds no further traffic)
        let _ = stalled;
        if fin && got.len() != expected.len() {
            return Err(fail(&c, "response-lost", format!("final: {} of {} responses written: {got:?}; log {:?}", got.len(), expected.len(), crate::props::c03::brief_log(&eut.app().events()))));
        }
        Ok(got.len())
    };

    // group boundaries
    let mut bounds: Vec<usize> = Vec::new();
    let mut acc = 0usize;
    for g in &c.groups {
        acc += usize::from(*g).max(1);
        if acc >= n {
            break;
        }
        bounds.push(acc);
    }
    bounds.push(n);
    let mut start = 0usize;
    for (gi, &end) in bounds.iter().enumerate() {
        if let Some((a, b)) = c.stall {
            if usize::from(a) == gi {
                eut.peer().window(0);
                stalled = true;
            }
            if usize::from(b) == gi && stalled {
                eut.peer().window(1 << 30);
                stalled = false;
                eut.settle().await;
            }
        }
        let mut group = Vec::new();
        for f in &frames[start..end] {
            group.extend_from_slice(f);
        }
        eut.peer().send(&group);
        start = end;
        sent_upto.set(end);
        if c.settle_between || gi + 1 == bounds.len() {
            eut.settle().await;
            observe(&eut, end, stalled, false)?;
        }
        // gate openings scheduled after this group
        for (oi, &ri) in c.open_order.iter().enumerate() {
            let ri = usize::from(ri);
            if ri >= n || deferred >> ri & 1 == 0 {
                continue;
            }
            // a publish a PUBREL refers to stays in its handler until that PUBREL has reached the protocol handler
            if !rel_entered(&app, ri) {
                continue;
            }
            if usize::from(*c.open_after.get(oi).unwrap_or(&0)) == gi && ri < end {
                // an earlier request still pending while this one completes?
                if (0..ri).any(|j| !done_of(&app, gate[j])) {
                    inversions = true;
                }
                app.open(gate[ri].0, gate[ri].1);
                eut.settle().await;
                observe(&eut, end, stalled, false)?;
            }
        }
    }
    if stalled {
        eut.peer().window(1 << 30);
        stalled = false;
        if target.iter().any(Option::is_some) {
            eut.settle().await;
        }
    }
    // remaining gates in the generated order, then anything left
    for &ri in &c.open_order {
        let ri = usize::from(ri);
        if ri < n && deferred >> ri & 1 == 1 && !done_of(&app, gate[ri]) && rel_entered(&app, ri) {
            if (0..ri).any(|j| !done_of(&app, gate[j])) {
                inversions = true;
            }
            app.open(gate[ri].0, gate[ri].1);
            eut.settle().await;
            observe(&eut, n, stalled, false)?;
        }
    }
    app.open_all();
    eut.settle().await;
    observe(&eut, n, false, true)?;
    // control handlers are entered one at a time (servers: the library documents that control requests are processed one
    // at a time and buffers the rest; clients make no such promise and C04 does not ask for it)
    if c.role.is_server() {
        let log = app.log.borrow();
        let mut open_ctl = 0i32;
        for e in log.iter() {
            match e {
                Ev::CtlEnter { .. } => {
                    open_ctl += 1;
                    if open_ctl > 1 {
                        return Err(fail(&c, "control-not-serialised", "two protocol handler invocations overlap".into()));
                    }
                }
                Ev::CtlExit { .. } | Ev::CtlDrop { .. } => open_ctl -= 1,
                _ => {}
            }
        }
    }
    if !app.stops().is_empty() || eut.done().is_some() {
        return Err(fail(&c, "healthy-connection-ended", format!("stops {:?} done {:?}", app.stops(), eut.done())));
    }
    let had_bp = app.log.borrow().iter().any(|e| matches!(e, Ev::WrBackpressure(true)));
    eut.finish().await;

    let mut info = if inversions { CaseInfo::nontrivial(&c) } else { CaseInfo::trivial() };
    if inversions {
        info.labels.push("completion-inversion");
    }
    if c.stall.is_some() {
        info.labels.push("stall-episode");
    }
    if kinds.iter().any(|k| *k == Kind::PubRelOf) {
        info.labels.push("client-pubrel-for-running-publish");
    }
    if kinds.iter().any(|k| *k == Kind::PubRelAgain) {
        info.labels.push("pubrel-repeated-while-first-is-handled");
    }
    if had_bp {
        info.labels.push("write-backpressure-reported");
    }
    info.labels.push(c.role.name());
    Ok(info)
}

pub fn check_case(c: &Case) -> Result<CaseInfo, Failure> {
    run_isolated("C04", c.clone(), &run_case)
}

pub fn kinds_for(role: Role) -> Vec<Kind> {
    match role {
        Role::V3Server => vec![Kind::Pub1, Kind::Pub2, Kind::PubRel, Kind::Sub, Kind::Unsub, Kind::Ping, Kind::Pub0, Kind::PubRelAgain],
        Role::V5Server => vec![Kind::Pub1, Kind::Pub2, Kind::Pub1Neg, Kind::Pub1ErrAck, Kind::PubRel, Kind::Sub, Kind::Unsub, Kind::Ping, Kind::Auth, Kind::Pub0, Kind::PubRelAgain, Kind::SubBig],
        Role::V5Client => vec![Kind::Pub1, Kind::Pub1Neg, Kind::Pub0, Kind::PubRelOf],
        _ => vec![Kind::Pub1, Kind::Pub0, Kind::PubRelOf],
    }
}

fn case_strategy(role: Role) -> BoxedStrategy<Case> {
    (
        prop::collection::vec(prop::sample::select(kinds_for(role)), 2..8),
        any::<u32>(),
        prop::collection::vec(1u8..5, 1..7),
        any::<bool>(),
        Just(()).prop_perturb(|(), mut rng| {
            let mut v: Vec<u8> = (0..8).collect();
            for i in (1..v.len()).rev() {
                let j = (rng.next_u32() as usize) % (i + 1);
                v.swap(i, j);
            }
            v
        }),
        prop::collection::vec(0u8..5, 8),
        prop_oneof![3 => Just(None), 1 => (0u8..3, 1u8..5).prop_map(|(a, d)| Some((a, a + d)))],
        any::<bool>(),
    )
        .prop_map(move |(kinds, deferred, groups, settle_between, open_order, open_after, stall, router)| Case {
            role,
            kinds,
            deferred,
            groups,
            settle_between,
            open_order,
            open_after,
            stall,
            router,
        })
        .boxed()
}

fn permutations(items: &[u8]) -> Vec<Vec<u8>> {
    if items.len() <= 1 {
        return vec![items.to_vec()];
    }
    let mut out = Vec::new();
    for i in 0..items.len() {
        let mut rest = items.to_vec();
        let x = rest.remove(i);
        for mut p in permutations(&rest) {
            p.insert(0, x);
            out.push(p);
        }
    }
    out
}

/// every completion permutation x every immediate/deferred mask x {one write,
/// one write per request} for fixed kind patterns
fn exhaustive(ctx: &Ctx) -> Stats {
    let n = ctx.tier.pick(4usize, 5);
    let patterns: Vec<(Role, Vec<Kind>)> = vec![
        (Role::V3Server, vec![Kind::Pub1; n]),
        (Role::V5Server, vec![Kind::Pub1, Kind::Sub, Kind::Pub2, Kind::Ping, Kind::Unsub][..n].to_vec()),
        (Role::V5Server, vec![Kind::Sub, Kind::Unsub, Kind::Ping, Kind::Pub1, Kind::Auth][..n].to_vec()),
        (Role::V3Server, vec![Kind::Pub2, Kind::Pub1, Kind::PubRel, Kind::Sub, Kind::Ping][..n].to_vec()),
        (Role::V5Server, vec![Kind::PubRel, Kind::Pub1, Kind::PubRel, Kind::Pub2, Kind::Sub][..n].to_vec()),
        (Role::V3Client, vec![Kind::Pub1; n]),
        (Role::V5Client, vec![Kind::Pub1; n]),
        (Role::V5Server, vec![Kind::Pub1, Kind::Pub1ErrAck, Kind::Pub1Neg, Kind::Pub1ErrAck, Kind::Pub1][..n].to_vec()),
        (Role::V5Client, vec![Kind::Pub1, Kind::Pub1Neg, Kind::Pub1, Kind::Pub1Neg, Kind::Pub1][..n].to_vec()),
        (Role::V5Server, vec![Kind::Pub1, Kind::Pub0, Kind::Ping, Kind::Pub0, Kind::Pub1][..n].to_vec()),
        (Role::V3Server, vec![Kind::Pub1, Kind::Pub0, Kind::Pub1, Kind::Pub0, Kind::Sub][..n].to_vec()),
        (Role::V3Client, vec![Kind::Pub1, Kind::Pub0, Kind::Pub1, Kind::Pub0, Kind::Pub1][..n].to_vec()),
        (Role::V3Client, vec![Kind::Pub1, Kind::PubRelOf, Kind::Pub1, Kind::PubRelOf, Kind::Pub1][..n].to_vec()),
        (Role::V5Client, vec![Kind::Pub1, Kind::Pub1, Kind::PubRelOf, Kind::PubRelOf, Kind::Pub1][..n].to_vec()),
        (Role::V5Server, vec![Kind::PubRel, Kind::PubRelAgain, Kind::Ping, Kind::Pub1, Kind::Sub][..n].to_vec()),
        (Role::V3Server, vec![Kind::Pub1, Kind::PubRel, Kind::PubRelAgain, Kind::Ping, Kind::Pub1][..n].to_vec()),
        (Role::V5Server, vec![Kind::Pub1, Kind::SubBig, Kind::Ping, Kind::Pub1, Kind::Sub][..n].to_vec()),
    ];
    let mut work: Vec<Case> = Vec::new();
    for (pi, (role, kinds)) in patterns.iter().enumerate() {
        // the last two patterns (client PUBREL) also through the client's resource() routes, pattern 0 through the server's router
        let routed = pi == 0 || (pi + 5 >= patterns.len() && pi + 3 < patterns.len());
        for mask in 0u32..(1 << n) {
            let deferred: Vec<u8> = (0..n as u8).filter(|i| mask >> i & 1 == 1).collect();
            for perm in permutations(&deferred) {
                for (one_write, router) in [(true, false), (false, false), (true, true)] {
                    if router && !routed {
                        continue;
                    }
                    work.push(Case {
                        role: *role,
                        kinds: kinds.clone(),
                        deferred: mask,
                        groups: if one_write { vec![n as u8] } else { vec![1; n] },
                        settle_between: true,
                        open_order: perm.clone(),
                        open_after: vec![n as u8 + 1; perm.len()],
                        stall: None,
                        router,
                    });
                }
            }
        }
    }
    par_shards(WORKERS, |shard| {
        let mut st = Stats::default();
        let mine: Vec<Case> = work.iter().enumerate().filter(|(i, _)| i % WORKERS == shard).map(|(_, c)| c.clone()).collect();
        run_list_bed("C04", mine, &mut st, |c| json!({"case": c}), run_case);
        st
    })
}

pub fn run(ctx: &Ctx, started: Instant) -> i32 {
    let mut stats = exhaustive(ctx);
    let per_shard = ctx.tier.pick(12_000u32, 100_000);
    let rnd = par_shards(WORKERS, |shard| {
        let mut st = Stats::default();
        let role = [Role::V3Server, Role::V5Server, Role::V5Server, Role::V3Server, Role::V3Client, Role::V5Client, Role::V5Server, Role::V3Server][shard % 8];
        run_proptest_bed("C04", ctx.sub_seed("rand", shard), per_shard, &case_strategy(role), &mut st, |c| json!({"case": c}), run_case);
        st
    });
    stats.merge(rnd);
    let report = Report {
        level: "exploration",
        rule: "exhaustive: for 17 request-kind patterns of length 4 (quick) / 5 (thorough) every immediate/deferred mask x every completion permutation x {one write, one write per request} (three patterns also with the publishes going through the topic router / the client's resource() routes); \
               random: 2..7 requests from {PUBLISH QoS1, PUBLISH QoS2, PUBREL of an earlier completed first leg, SUBSCRIBE, UNSUBSCRIBE, PINGREQ, v5 AUTH, PUBLISH QoS 0 (no response), a PUBREL repeated while the first is being handled, v5 server: a SUBSCRIBE whose SUBACK cannot fit the peer's Maximum Packet Size (the connection may end, it may not go on without the SUBACK); client roles: PUBLISH QoS 0/1 and PUBREL carrying the id of a QoS 1 publish whose handler is still running} with generated write groupings, \
               gate openings interleaved with arrivals, optional stalled-peer episode with an 8-byte write watermark. Oracle at every settle point: responses on the wire (type, packet id) are a \
               prefix of the arrival order, exactly as long as the longest prefix of completed requests; at the end the full order; protocol handlers never overlap. \
               Non-trivial = at least one request completed while an earlier one was still pending; distinct = the whole case"
            .into(),
        exhaustive: true,
        assumptions: vec![
            "healthy connections only: distinct packet ids, no handler errors, conforming peer (PUBREL after PUBREC) on server roles".into(),
            "client roles never write PUBREC (known finding of C03), so the only PUBREL a client hands to its protocol handler carries the id of a publish whose handler is still running; such a case is judged only if the protocol handler was called for every such PUBREL (then PUBACK and PUBCOMP are both due, in arrival order), otherwise it counts as trivial".into(),
            "exhaustive for the listed kind patterns only".into(),
        ],
        extra: BTreeMap::new(),
    };
    finish(ctx, started, stats, report)
}

pub fn replay(path: &str) -> i32 {
    let case = super::load_case(path);
    let res = serde_json::from_value::<Case>(case["case"].clone()).map_err(|e| e.to_string()).map(|c| check_case(&c));
    super::report_replay("C04", path, res)
}
