//! C20 — idle and too-slow peers are timed out, live peers are not.  The only
//! check that needs the wall clock: every worker runs many connections
//! concurrently in one runtime, each following an arrival-time pattern on a
//! coarse grid; verdicts use tolerance zones and a driver-slip guard
//! (a case whose own timing slipped is inconclusive, never a violation).

use std::collections::BTreeMap;
use std::time::{Duration, Instant};

use serde::{Deserialize, Serialize};
use serde_json::json;

use crate::bed::any::{Cfg, Eut};
use crate::bed::*;
use crate::runner::*;
use crate::spec::v3::P3;
use crate::spec::v5::{self as s5, P5};

#[derive(Clone, Copy, Debug, PartialEq, Eq, Hash, Serialize, Deserialize)]
pub enum Source {
    /// client's CONNECT keep-alive k: effective idle timeout k + k/2
    Client(u16),
    /// v3 `idle_timeout(t)` / v5 `keep_alive(t)` set by the handshake service; client asked 10
    Override(u16),
    /// v3 `idle_timeout(0)`: disabled
    Disabled,
}

#[derive(Clone, Copy, Debug, PartialEq, Eq, Hash, Serialize, Deserialize)]
pub enum Pattern {
    /// n complete packets, `gap` deciseconds apart, then silence
    Dead { n: u8, gap: u8 },
    /// complete packets every `gap` deciseconds for three periods; each delivered whole or in two writes 0.2 s apart
    Live { gap: u8, fragmented: bool },
    /// part of a frame, then nothing (frame read rate 1 s / 16 bytes, max 4 s)
    PartialStall,
    /// 200-byte frames trickling at 40 bytes (above the rate: three frames in a row, each within the time allowed per frame)
    /// or 4 bytes (below the rate) per 0.5 s
    Trickle { above: bool },
    /// one 200-byte frame at 40 bytes per 0.5 s with a frame read rate that has no upper time limit (max_timeout 0)
    TrickleNoMax,
    /// part of the CONNECT, then nothing (connect timeout 1 s)
    ConnectStall,
    /// the CONNECT trickles in, a few bytes every 0.6 s (each gap below the connect timeout of 1 s, the whole far above it)
    ConnectTrickle,
    /// client role, keep-alive k, idle: PINGREQ expected on the wire (source Override(t) on a v5 client: k is the Server Keep
    /// Alive of the CONNACK, the client itself asked for t, 10 standing for 0)
    ClientIdle(u16),
    /// the same with the send window (1) taken by a QoS 1 publish the peer does not acknowledge
    ClientIdleWindowFull(u16),
    /// client role, keep-alive k: a streamed QoS 0 publish is started, half of its payload supplied, the rest only k + 0.5 s
    /// later (a keep-alive tick falls inside the owed payload); afterwards the connection is idle: PINGREQ expected again
    ClientStreamThenIdle(u16),
    /// idle connection; the application's publish service turns not ready by itself for 0.4 s (no inbound packet involved)
    /// and ready again; the peer stays silent: the keep-alive still expires
    DeadAfterNotReady,
    /// a publish handler busy for three periods with the receive limits reached (reading is paused) while the peer keeps
    /// sending a complete PINGREQ every `gap` deciseconds: the live peer is not timed out, everything is answered afterwards
    LiveBusy { gap: u8 },
}

#[derive(Clone, Copy, Debug, PartialEq, Eq, Hash, Serialize, Deserialize)]
pub struct Case {
    pub role: Role,
    pub source: Source,
    pub pattern: Pattern,
}

fn fail(c: &Case, rule: &str, detail: String) -> Failure {
    Failure::new(rule, format!("C20/{}/{rule}", c.role.name()), format!("{detail}; case {c:?}"))
}

const TICK: Duration = Duration::from_millis(100);

async fn sleep(d: Duration) {
    ntex::time::sleep(ntex::time::Millis(d.as_millis() as u32)).await;
}

/// sleep until `t0 + at`; returns the slip (how late the driver woke up)
async fn sleep_until(t0: Instant, at: Duration) -> Duration {
    let now = t0.elapsed();
    if at > now {
        sleep(at - now).await;
    }
    t0.elapsed().saturating_sub(at)
}

fn period(s: Source) -> Option<Duration> {
    match s {
        Source::Client(k) => Some(Duration::from_secs(u64::from(k + k / 2))),
        Source::Override(t) => Some(Duration::from_secs(u64::from(t))),
        Source::Disabled => None,
    }
}

fn ended(eut: &Eut) -> bool {
    eut.done().is_some() || !eut.app().stops().is_empty() || eut.peer().endpoint_closed()
}

enum Verdict {
    Ok(CaseInfo),
    Inconclusive(String),
    Fail(Failure),
}

async fn run_conn(c: Case) -> Verdict {
    let v5 = c.role.is_v5();
    let mut cfg = Cfg::default();
    match c.source {
        Source::Client(k) => {
            cfg.v3.connect.keep_alive = k;
            cfg.v5.connect.keep_alive = k;
        }
        Source::Override(t) => {
            cfg.v3.connect.keep_alive = 10;
            cfg.v5.connect.keep_alive = 10;
            cfg.v3.hs = crate::bed::v3::Hs3::Accept { idle_timeout: Some(t), max_send: None, session_present: false };
            cfg.v5.hs = crate::bed::v5::Hs5::Accept { keep_alive: Some(t), max_send: None };
        }
        Source::Disabled => {
            cfg.v3.connect.keep_alive = 1;
            cfg.v3.hs = crate::bed::v3::Hs3::Accept { idle_timeout: Some(0), max_send: None, session_present: false };
        }
    }
    if matches!(c.pattern, Pattern::PartialStall | Pattern::Trickle { .. } | Pattern::TrickleNoMax) {
        cfg.v3.frame_read_rate = Some((1, 4, 16));
        cfg.v5.frame_read_rate = Some((1, 4, 16));
        if c.pattern == Pattern::TrickleNoMax {
            cfg.v3.frame_read_rate = Some((1, 0, 16));
            cfg.v5.frame_read_rate = Some((1, 0, 16));
        }
        if c.pattern == (Pattern::Trickle { above: true }) {
            // at most 3 s per frame: a frame that takes 2.5 s sees at most two expiries of the 1 s timer
            cfg.v3.frame_read_rate = Some((1, 3, 16));
            cfg.v5.frame_read_rate = Some((1, 3, 16));
        }
    }
    if matches!(c.pattern, Pattern::ConnectStall | Pattern::ConnectTrickle) {
        cfg.v3.connect_timeout = 1;
        cfg.v5.connect_timeout = 1;
    }
    if let Pattern::ClientIdle(k) | Pattern::ClientIdleWindowFull(k) | Pattern::ClientStreamThenIdle(k) = c.pattern {
        cfg.v3.connect.keep_alive = k;
        cfg.v5.connect.keep_alive = k;
        if let Source::Override(t) = c.source {
            // v5 client: the server imposes its own keep-alive in CONNACK (Server Keep Alive = k); the client asked for `t`,
            // where 0 means it asked for none
            cfg.v5.connect.keep_alive = if t == 10 { 0 } else { t };
            cfg.v5.connack.server_keep_alive = Some(k);
        }
        if matches!(c.pattern, Pattern::ClientIdleWindowFull(_)) {
            cfg.v3.max_send = 1;
            cfg.v5.connack.receive_max = Some(1);
        }
    }
    if matches!(c.pattern, Pattern::LiveBusy { .. }) {
        // one packet / 64 bytes in flight: the held handler of a 100-byte publish makes the service not ready
        cfg.v3.max_receive = 1;
        cfg.v3.max_receive_size = 64;
        cfg.v5.max_receive_size = 64;
    }
    let eut = Eut::start(c.role, &cfg).await;
    let t0 = Instant::now();
    let mut max_slip = Duration::ZERO;
    let ping = eut.encode(&P5::PingReq, &[]);
    let slip_limit = Duration::from_millis(300);

    // ---- connect phase pattern
    if c.pattern == Pattern::ConnectTrickle {
        let connect = if v5 { P5::Connect(Box::new(cfg.v5.connect.clone())) } else { crate::bed::any::up(&P3::Connect(Box::new(cfg.v3.connect.clone()))) };
        let bytes = eut.encode(&connect, &[]);
        // 6 pieces 0.6 s apart: the last one would arrive at 3.0 s
        let step = bytes.len().div_ceil(6);
        let mut sent = 0usize;
        let mut end_at = None;
        for i in 0..36u32 {
            if i % 6 == 0 && sent < bytes.len() && end_at.is_none() {
                let n = step.min(bytes.len() - sent);
                eut.peer().send(&bytes[sent..sent + n]);
                sent += n;
            }
            max_slip = max_slip.max(sleep_until(t0, TICK * (i + 1)).await);
            if ended(&eut) && end_at.is_none() {
                end_at = Some(t0.elapsed());
                break;
            }
        }
        if max_slip > slip_limit {
            return Verdict::Inconclusive(format!("driver slipped {max_slip:?}"));
        }
        let handled = eut.app().events().iter().any(|e| matches!(e, Ev::Handshake | Ev::PubEnter { .. }));
        return match end_at {
            Some(t) if t >= Duration::from_millis(400) && t <= Duration::from_millis(3300) && !handled => Verdict::Ok(CaseInfo::nontrivial(&c).label("connect-timeout-trickle")),
            Some(t) => Verdict::Fail(fail(&c, "connect-timeout-early", format!("dropped after {t:?} (connect timeout 1 s), handshake ran: {handled}"))),
            None => Verdict::Fail(Failure::new("connect-timeout-missing", format!("C20/{}/connect-timeout-missing", c.role.name()), format!("a CONNECT trickling in over 3 s (a piece every 0.6 s) with connect timeout 1 s: the peer was not dropped, handshake ran: {handled}; case {c:?}"))),
        };
    }
    if c.pattern == Pattern::ConnectStall {
        let connect = if v5 { P5::Connect(Box::new(cfg.v5.connect.clone())) } else { crate::bed::any::up(&P3::Connect(Box::new(cfg.v3.connect.clone()))) };
        let bytes = eut.encode(&connect, &[]);
        eut.peer().send(&bytes[..bytes.len() / 2]);
        // dropped by connect timeout (1 s) + tolerance, not before 0.4 s
        let mut end_at = None;
        for i in 1..=35u32 {
            max_slip = max_slip.max(sleep_until(t0, TICK * i).await);
            if ended(&eut) {
                end_at = Some(t0.elapsed());
                break;
            }
        }
        if max_slip > slip_limit {
            return Verdict::Inconclusive(format!("driver slipped {max_slip:?}"));
        }
        let handled = eut.app().events().iter().any(|e| matches!(e, Ev::Handshake | Ev::PubEnter { .. }));
        return match end_at {
            Some(t) if t >= Duration::from_millis(400) && !handled => Verdict::Ok(CaseInfo::nontrivial(&c).label("connect-timeout")),
            Some(t) => Verdict::Fail(fail(&c, "connect-timeout-early", format!("dropped after {t:?} (connect timeout 1 s), handshake ran: {handled}"))),
            None => Verdict::Fail(Failure::new("connect-timeout-missing", format!("C20/{}/connect-timeout-missing", c.role.name()), format!("half a CONNECT was delivered and nothing else for 3.5 s with connect timeout 1 s: the connection is still there; case {c:?}"))),
        };
    }
    eut.handshake(&cfg).await;
    if eut.done().is_some() {
        return Verdict::Fail(fail(&c, "harness-handshake", format!("{:?}", eut.done())));
    }
    let t0 = Instant::now();
    let app = eut.app().clone();

    match c.pattern {
        Pattern::Dead { n, gap } => {
            let gap = Duration::from_millis(u64::from(gap) * 100);
            let mut last = Duration::ZERO;
            for i in 0..u32::from(n) {
                max_slip = max_slip.max(sleep_until(t0, gap * (i + 1)).await);
                if ended(&eut) {
                    return Verdict::Fail(fail(&c, "live-peer-timed-out", format!("ended during the live phase at {:?}: {:?}", t0.elapsed(), app.stops())));
                }
                eut.peer().send(&ping);
                last = t0.elapsed();
            }
            let Some(t) = period(c.source) else {
                // disabled: nothing may end the connection for 3 x the longest period used (4.5 s)
                for i in 1..=45u32 {
                    max_slip = max_slip.max(sleep_until(t0, last + TICK * i).await);
                    if ended(&eut) {
                        return Verdict::Fail(Failure::new("disabled-keep-alive-timed-out", format!("C20/{}/disabled-keep-alive-timed-out", c.role.name()), format!("idle_timeout(0) but the connection ended {:?} after the last packet: {:?}; case {c:?}", t0.elapsed() - last, app.stops())));
                    }
                }
                eut.finish().await;
                return if max_slip > slip_limit { Verdict::Inconclusive(format!("driver slipped {max_slip:?}")) } else { Verdict::Ok(CaseInfo::nontrivial(&c).label("keep-alive-disabled")) };
            };
            // dead peer: ends within [T - 0.6, T + 2.2] after the last complete packet
            let deadline = t + Duration::from_millis(2200);
            let mut end_at = None;
            let mut i = 0u32;
            while TICK * i <= deadline + Duration::from_millis(300) {
                i += 1;
                max_slip = max_slip.max(sleep_until(t0, last + TICK * i).await);
                if ended(&eut) {
                    end_at = Some(t0.elapsed() - last);
                    break;
                }
            }
            if max_slip > slip_limit {
                return Verdict::Inconclusive(format!("driver slipped {max_slip:?}"));
            }
            let Some(e) = end_at else {
                return Verdict::Fail(Failure::new("dead-peer-not-timed-out", format!("C20/{}/dead-peer-not-timed-out", c.role.name()), format!("no complete packet for {:?} with an idle period of {t:?}: the connection is still open; stops {:?}; case {c:?}", t0.elapsed() - last, app.stops())));
            };
            if e + Duration::from_millis(600) < t {
                return Verdict::Fail(Failure::new("timed-out-too-early", format!("C20/{}/timed-out-too-early", c.role.name()), format!("ended {e:?} after the last complete packet, idle period {t:?}: {:?}; case {c:?}", app.stops())));
            }
            // reason
            sleep(TICK * 2).await;
            let stops = app.stops();
            let ka = stops.iter().any(|s| matches!(s, StopKind::Protocol(d) if d.contains("KeepAlive")));
            if !ka {
                return Verdict::Fail(fail(&c, "timeout-reason", format!("the idle connection ended with {stops:?} instead of a keep-alive timeout")));
            }
            if v5 {
                let code = eut.packets().0.iter().find_map(|w| if let P5::Disconnect(d) = &w.pkt { Some(d.reason) } else { None });
                if code != Some(0x8D) {
                    return Verdict::Fail(Failure::new("timeout-disconnect-code", format!("C20/{}/timeout-disconnect-code", c.role.name()), format!("keep-alive timeout: DISCONNECT reason {code:?}, expected 0x8D; case {c:?}")));
                }
            }
            eut.finish().await;
            Verdict::Ok(CaseInfo::nontrivial(&c).label("dead-peer"))
        }
        Pattern::Live { gap, fragmented } => {
            let Some(t) = period(c.source) else { return Verdict::Inconclusive("live pattern needs a period".into()) };
            let gap = Duration::from_millis(u64::from(gap) * 100);
            let total = t * 3;
            let publish = eut.encode(&P5::Publish(Box::new(s5::Publish5 { topic: "t/a".into(), payload_len: 4, ..Default::default() })), b"live");
            let mut i = 0u32;
            while gap * (i + 1) <= total {
                i += 1;
                max_slip = max_slip.max(sleep_until(t0, gap * i).await);
                if ended(&eut) {
                    if max_slip > slip_limit {
                        return Verdict::Inconclusive(format!("driver slipped {max_slip:?}"));
                    }
                    return Verdict::Fail(Failure::new("live-peer-timed-out", format!("C20/{}/live-peer-timed-out", c.role.name()), format!("complete packets every {gap:?} (idle period {t:?}, fragmented {fragmented}) but the connection ended at {:?}: {:?}; case {c:?}", t0.elapsed(), app.stops())));
                }
                if fragmented {
                    eut.peer().send(&publish[..3]);
                    sleep(Duration::from_millis(200)).await;
                    eut.peer().send(&publish[3..]);
                } else {
                    eut.peer().send(&ping);
                }
            }
            eut.finish().await;
            if max_slip > slip_limit {
                return Verdict::Inconclusive(format!("driver slipped {max_slip:?}"));
            }
            Verdict::Ok(CaseInfo::nontrivial(&c).label(if fragmented { "live-peer-fragmented" } else { "live-peer" }))
        }
        Pattern::DeadAfterNotReady => {
            let Some(t) = period(c.source) else { return Verdict::Inconclusive("pattern needs a period".into()) };
            // idle for 0.3 s (keep-alive timer armed), not ready for 0.4 s, ready again; silence throughout
            max_slip = max_slip.max(sleep_until(t0, Duration::from_millis(300)).await);
            app.set_service_ready(false);
            max_slip = max_slip.max(sleep_until(t0, Duration::from_millis(700)).await);
            app.set_service_ready(true);
            let resumed = t0.elapsed();
            let deadline = resumed + t + Duration::from_millis(2200);
            let mut end_at = None;
            let mut i = 7u32;
            while TICK * i <= deadline + Duration::from_millis(300) {
                i += 1;
                max_slip = max_slip.max(sleep_until(t0, TICK * i).await);
                if ended(&eut) {
                    end_at = Some(t0.elapsed());
                    break;
                }
            }
            if max_slip > slip_limit {
                return Verdict::Inconclusive(format!("driver slipped {max_slip:?}"));
            }
            let Some(e) = end_at else {
                return Verdict::Fail(Failure::new("dead-peer-not-timed-out", format!("C20/{}/dead-peer-not-timed-out", c.role.name()), format!("no packet at all after the handshake, the publish service was not ready from 0.3 s to 0.7 s, idle period {t:?}: the connection is still open {:?} after the handshake; case {c:?}", t0.elapsed())));
            };
            // not before the period has passed since the handshake (minus the tolerance)
            if e + Duration::from_millis(600) < t {
                return Verdict::Fail(Failure::new("timed-out-too-early", format!("C20/{}/timed-out-too-early", c.role.name()), format!("ended {e:?} after the handshake, idle period {t:?}: {:?}; case {c:?}", app.stops())));
            }
            sleep(TICK * 2).await;
            let stops = app.stops();
            if !stops.iter().any(|s| matches!(s, StopKind::Protocol(d) if d.contains("KeepAlive"))) {
                return Verdict::Fail(fail(&c, "timeout-reason", format!("the idle connection ended with {stops:?} instead of a keep-alive timeout")));
            }
            eut.finish().await;
            Verdict::Ok(CaseInfo::nontrivial(&c).label("dead-peer-after-service-not-ready"))
        }
        Pattern::LiveBusy { gap } => {
            let Some(t) = period(c.source) else { return Verdict::Inconclusive("busy pattern needs a period".into()) };
            let gap = Duration::from_millis(u64::from(gap) * 100);
            let total = t * 3;
            app.hold(G_PUB, 0);
            let publish = eut.encode(&P5::Publish(Box::new(s5::Publish5 { topic: "t/a".into(), qos: 1, pid: Some(1), payload_len: 100, ..Default::default() })), &[5u8; 100]);
            eut.peer().send(&publish);
            let mut pings = 0usize;
            let mut i = 0u32;
            while gap * (i + 1) <= total {
                i += 1;
                max_slip = max_slip.max(sleep_until(t0, gap * i).await);
                if ended(&eut) {
                    if max_slip > slip_limit {
                        return Verdict::Inconclusive(format!("driver slipped {max_slip:?}"));
                    }
                    return Verdict::Fail(Failure::new("live-peer-timed-out", format!("C20/{}/live-peer-timed-out", c.role.name()), format!("a publish handler is busy (reading paused by the receive limits) and the peer sends a complete PINGREQ every {gap:?} (idle period {t:?}) but the connection ended after {:?}: {:?}; case {c:?}", t0.elapsed(), app.stops())));
                }
                eut.peer().send(&ping);
                pings += 1;
            }
            // the handler finishes: everything the peer sent is answered
            app.open_all();
            sleep(TICK * 3).await;
            if max_slip > slip_limit {
                return Verdict::Inconclusive(format!("driver slipped {max_slip:?}"));
            }
            let (pk, _) = eut.packets();
            let acks = pk.iter().filter(|w| matches!(&w.pkt, P5::PubAck(a) if a.pid == 1)).count();
            let pongs = pk.iter().filter(|w| matches!(w.pkt, P5::PingResp)).count();
            if ended(&eut) || acks != 1 || pongs != pings {
                return Verdict::Fail(fail(&c, "busy-handler-traffic-lost", format!("after the busy handler finished: ended {}, {acks} PUBACK, {pongs} PINGRESP for {pings} PINGREQ; stops {:?}", ended(&eut), app.stops())));
            }
            eut.finish().await;
            Verdict::Ok(CaseInfo::nontrivial(&c).label("live-peer-busy-handler"))
        }
        Pattern::PartialStall | Pattern::Trickle { .. } | Pattern::TrickleNoMax => {
            let payload = vec![7u8; 200];
            let mut frame = eut.encode(&P5::Publish(Box::new(s5::Publish5 { topic: "t/a".into(), payload_len: 200, ..Default::default() })), &payload);
            if c.pattern == (Pattern::Trickle { above: true }) {
                // three such frames one after the other: the time allowance is per frame, not per connection
                let again = frame.clone();
                frame.extend_from_slice(&again);
                frame.extend_from_slice(&again);
            }
            let (step, stall) = match c.pattern {
                Pattern::PartialStall => (10usize, true),
                Pattern::Trickle { above: true } | Pattern::TrickleNoMax => (40, false),
                _ => (4, false),
            };
            let mut sent = 0usize;
            let mut end_at = None;
            let mut done_at: Option<u32> = None;
            for i in 0..70u32 {
                if sent < frame.len() && (!stall || i == 0) {
                    let n = step.min(frame.len() - sent);
                    eut.peer().send(&frame[sent..sent + n]);
                    sent += n;
                }
                max_slip = max_slip.max(sleep_until(t0, Duration::from_millis(500) * (i + 1)).await);
                if ended(&eut) {
                    end_at = Some(t0.elapsed());
                    break;
                }
                // after the last byte the connection idles for 2 s (4 ticks): nothing may fire on the empty buffer
                if sent >= frame.len() && done_at.is_none() {
                    done_at = Some(i);
                }
                if done_at.is_some_and(|d| i >= d + 4) && i > 8 {
                    break;
                }
                if t0.elapsed() > Duration::from_millis(if frame.len() > 400 { 11_000 } else { 7500 }) {
                    break;
                }
            }
            if max_slip > slip_limit {
                return Verdict::Inconclusive(format!("driver slipped {max_slip:?}"));
            }
            let stops = app.stops();
            let read_timeout = stops.iter().any(|s| matches!(s, StopKind::Protocol(d) if d.contains("ReadTimeout")));
            match c.pattern {
                Pattern::TrickleNoMax => {
                    if end_at.is_some() || app.pub_enters().len() != 1 {
                        return Verdict::Fail(Failure::new("fast-enough-peer-timed-out", format!("C20/{}/fast-enough-peer-timed-out", c.role.name()), format!("a frame delivered at 80 bytes/s (required: 16 bytes/s, no upper time limit) ended the connection at {end_at:?} / was handled {} times: {stops:?}; case {c:?}", app.pub_enters().len())));
                    }
                    eut.finish().await;
                    Verdict::Ok(CaseInfo::nontrivial(&c).label("trickle-above-rate-no-time-limit"))
                }
                Pattern::Trickle { above: true } => {
                    // 80 bytes per second against a rate of 16 per second: each frame completes in ~2.5 s, no read timeout
                    if end_at.is_some() || app.pub_enters().len() != 3 {
                        return Verdict::Fail(Failure::new("fast-enough-peer-timed-out", format!("C20/{}/fast-enough-peer-timed-out", c.role.name()), format!("three frames delivered one after the other at 80 bytes/s, 2.5 s each (required: 16 bytes/s, at most 3 s per frame) ended the connection at {end_at:?} / were handled {} times: {stops:?}; case {c:?}", app.pub_enters().len())));
                    }
                    eut.finish().await;
                    Verdict::Ok(CaseInfo::nontrivial(&c).label("trickle-above-rate"))
                }
                _ => {
                    // stalled, or 8 bytes/s against 16: read timeout within timeout 1 s (+ tolerance), at the latest when max timeout 4 s is over
                    let limit = if stall { Duration::from_millis(3200) } else { Duration::from_millis(6500) };
                    match end_at {
                        Some(t) if t <= limit && read_timeout => {
                            eut.finish().await;
                            Verdict::Ok(CaseInfo::nontrivial(&c).label(if stall { "partial-frame-stalled" } else { "trickle-below-rate" }))
                        }
                        Some(t) => Verdict::Fail(fail(&c, "read-timeout", format!("too slow a frame ended the connection after {t:?} with {stops:?} (expected a read timeout within {limit:?})"))),
                        None => Verdict::Fail(Failure::new("slow-peer-not-timed-out", format!("C20/{}/slow-peer-not-timed-out", c.role.name()), format!("a frame delivered too slowly (stalled: {stall}) did not end the connection within {:?}; case {c:?}", t0.elapsed()))),
                    }
                }
            }
        }
        Pattern::ClientIdle(k) | Pattern::ClientIdleWindowFull(k) | Pattern::ClientStreamThenIdle(k) => {
            let mut held = None;
            if matches!(c.pattern, Pattern::ClientStreamThenIdle(_)) {
                // a streamed publish that takes longer than one keep-alive period
                let (_, handle) = eut.stream_start(0, "s/stream".into(), 10, None);
                let Ok(h) = handle else { return Verdict::Fail(fail(&c, "harness-stream", format!("{handle:?}"))) };
                let r1 = eut.stream_chunk(h, vec![1; 5]).await;
                sleep(Duration::from_millis(u64::from(k) * 1000 + 500)).await;
                let r2 = eut.stream_chunk(h, vec![2; 5]).await;
                eut.settle().await;
                if r1.is_err() || r2.is_err() || ended(&eut) {
                    return Verdict::Fail(fail(&c, "client-stream", format!("a streamed publish of 10 bytes in two chunks {:?} apart: chunk results {r1:?} {r2:?}, ended {}: {:?}", Duration::from_millis(u64::from(k) * 1000 + 500), ended(&eut), app.stops())));
                }
            }
            // the idle phase starts now
            let t0 = Instant::now();
            if matches!(c.pattern, Pattern::ClientIdleWindowFull(_)) {
                // the only slot of the send window stays taken: the peer never acknowledges this publish
                let mut f = eut.send(crate::bed::v5::SendSpec { kind: crate::bed::v5::SendKind::Qos1, topic: "s/0".into(), payload: vec![1], pid: None, user_prop: None });
                let waker = crate::props::c16::futures_noop_waker();
                let mut cx = std::task::Context::from_waker(&waker);
                let _ = f.as_mut().poll(&mut cx);
                held = Some(f);
            }
            // at least one PINGREQ in every window of k + 1.2 s while idle and open; observe 3 windows
            let window = Duration::from_secs(u64::from(k)) + Duration::from_millis(1200);
            let mut last_ping = Duration::ZERO;
            let mut seen = 0usize;
            let total = window * 3;
            let mut i = 0u32;
            while TICK * i < total {
                i += 1;
                max_slip = max_slip.max(sleep_until(t0, TICK * i).await);
                let n = eut.packets().0.iter().filter(|w| matches!(w.pkt, P5::PingReq)).count();
                if n > seen {
                    // the scripted server answers
                    for _ in seen..n {
                        eut.peer_send(&P5::PingResp, &[]);
                    }
                    seen = n;
                    last_ping = t0.elapsed();
                }
                if ended(&eut) {
                    return Verdict::Fail(fail(&c, "client-ended", format!("the idle client connection ended at {:?}: {:?}", t0.elapsed(), app.stops())));
                }
                if t0.elapsed() - last_ping > window {
                    if max_slip > slip_limit {
                        return Verdict::Inconclusive(format!("driver slipped {max_slip:?}"));
                    }
                    return Verdict::Fail(Failure::new("client-ping-missing", format!("C20/{}/client-ping-missing", c.role.name()), format!("client keep-alive {k} s: no PINGREQ for {:?} ({} so far); case {c:?}", t0.elapsed() - last_ping, seen)));
                }
            }
            eut.finish().await;
            if max_slip > slip_limit {
                return Verdict::Inconclusive(format!("driver slipped {max_slip:?}"));
            }
            drop(held);
            Verdict::Ok(CaseInfo::nontrivial(&c).label(match c.pattern {
                Pattern::ClientIdleWindowFull(_) => "client-keep-alive-window-full",
                Pattern::ClientStreamThenIdle(_) => "client-keep-alive-after-long-stream",
                _ => "client-keep-alive",
            }))
        }
        Pattern::ConnectStall | Pattern::ConnectTrickle => unreachable!(),
    }
}

pub fn all_cases(thorough: bool) -> Vec<Case> {
    let mut out = Vec::new();
    for role in [Role::V3Server, Role::V5Server] {
        let mut sources = vec![Source::Client(1), Source::Client(2), Source::Override(1), Source::Override(2)];
        if thorough {
            sources.extend([Source::Client(3), Source::Override(3)]);
        }
        for source in &sources {
            let t = period(*source).unwrap().as_millis() as u64 / 100; // deciseconds
            // dead peer: stop at every phase of the grid (0.5 s steps) of one period, after 0..2 packets
            for n in 0..3u8 {
                for gap in [5u8, (t as u8).saturating_sub(5).max(5)] {
                    out.push(Case { role, source: *source, pattern: Pattern::Dead { n, gap } });
                }
            }
            // live peer: gap <= T - 1.0 s (at least 0.5 s)
            if t >= 15 {
                for gap in [5u8, (t as u8) - 10] {
                    for fragmented in [false, true] {
                        out.push(Case { role, source: *source, pattern: Pattern::Live { gap, fragmented } });
                    }
                }
                out.push(Case { role, source: *source, pattern: Pattern::LiveBusy { gap: 5 } });
                out.push(Case { role, source: *source, pattern: Pattern::DeadAfterNotReady });
            }
        }
        out.push(Case { role, source: Source::Client(10), pattern: Pattern::PartialStall });
        out.push(Case { role, source: Source::Client(10), pattern: Pattern::Trickle { above: true } });
        out.push(Case { role, source: Source::Client(10), pattern: Pattern::TrickleNoMax });
        out.push(Case { role, source: Source::Client(10), pattern: Pattern::Trickle { above: false } });
        out.push(Case { role, source: Source::Client(10), pattern: Pattern::ConnectStall });
        out.push(Case { role, source: Source::Client(10), pattern: Pattern::ConnectTrickle });
        if role == Role::V3Server {
            out.push(Case { role, source: Source::Disabled, pattern: Pattern::Dead { n: 1, gap: 5 } });
            out.push(Case { role, source: Source::Disabled, pattern: Pattern::Dead { n: 0, gap: 5 } });
        }
    }
    for role in [Role::V3Client, Role::V5Client] {
        for k in [1u16, 2] {
            out.push(Case { role, source: Source::Client(k), pattern: Pattern::ClientIdle(k) });
            out.push(Case { role, source: Source::Client(k), pattern: Pattern::ClientIdleWindowFull(k) });
            out.push(Case { role, source: Source::Client(k), pattern: Pattern::ClientStreamThenIdle(k) });
        }
    }
    // v5 client under a Server Keep Alive of 1 s: it asked for none (Override(10) stands for keep-alive 0) or for 5 s
    for t in [10u16, 5] {
        out.push(Case { role: Role::V5Client, source: Source::Override(t), pattern: Pattern::ClientIdle(1) });
    }
    out
}

pub fn run(ctx: &Ctx, started: Instant) -> i32 {
    let thorough = ctx.tier == Tier::Thorough;
    let mut cases = all_cases(thorough);
    // several repetitions at different phases of the library's 1 s timer wheel
    let reps = ctx.tier.pick(2usize, 6);
    let base = cases.clone();
    for _ in 1..reps {
        cases.extend(base.iter().copied());
    }
    let total = cases.len();
    let seed = ctx.seed;
    // one round: all given connections concurrently, spread over the workers; returns the cases without a verdict
    let round = |cases: Vec<Case>, workers: usize, stats: &mut Stats| -> Vec<Case> {
        let again = std::sync::Mutex::new(Vec::new());
        let st = par_shards(WORKERS, |shard| {
            let mut st = Stats::default();
            if shard >= workers {
                return st;
            }
            let mine: Vec<(usize, Case)> = cases.iter().copied().enumerate().filter(|(i, _)| i % workers == shard).collect();
            if mine.is_empty() {
                return st;
            }
            let res = with_system(async move {
                let mut handles = Vec::new();
                for (i, c) in mine {
                    // stagger the starts so that connections sit at different phases of the timer wheel
                    let offset = Duration::from_millis(((i as u64).wrapping_mul(137).wrapping_add(seed * 53)) % 1000);
                    handles.push((c, ntex::rt::spawn(async move {
                        sleep(offset).await;
                        run_conn(c).await
                    })));
                }
                let mut out = Vec::new();
                for (c, h) in handles {
                    out.push((c, h.await));
                }
                out
            });
            match res {
                Ok(list) => {
                    for (c, r) in list {
                        match r {
                            Ok(Verdict::Ok(info)) => {
                                st.record(&info);
                                st.sample(|| json!({"case": c}));
                            }
                            Ok(Verdict::Inconclusive(why)) => {
                                st.label("driver-slipped-retried", 1);
                                st.notes.push(format!("no verdict ({why}): {c:?}"));
                                again.lock().unwrap().push(c);
                            }
                            Ok(Verdict::Fail(f)) => {
                                st.evaluations += 1;
                                st.fail(f.with_case(json!({"case": c})));
                            }
                            Err(e) => {
                                st.evaluations += 1;
                                st.fail(Failure::new("panic", "C20/panic".to_owned(), format!("connection task failed: {e:?}")).with_case(json!({"case": c})));
                            }
                        }
                    }
                }
                Err(e) => st.notes.push(format!("runtime error: {e}")),
            }
            st
        });
        stats.merge(st);
        again.into_inner().unwrap()
    };
    let mut stats = Stats::default();
    // a case whose driver slipped is run again, with fewer connections at once
    let mut left = round(cases, WORKERS, &mut stats);
    for workers in [4usize, 2, 2] {
        if left.is_empty() {
            break;
        }
        left = round(left, workers, &mut stats);
    }
    let inconclusive = left.len() as u64;
    stats.evaluations += inconclusive;
    stats.label("inconclusive", inconclusive);
    let report = Report {
        level: "exploration",
        rule: format!(
            "{total} connections in real time (several repetitions at staggered phases of the 1 s timer wheel), all concurrent: keep-alive source {{client value 1/2 (thorough 3) s -> idle period k + k/2; handshake override idle_timeout / keep_alive 1/2 (3) s; v3 idle_timeout(0) = disabled}} x \
             {{dead peer: 0..2 complete packets 0.5 s or T-0.5 s apart, then silence -> ended within [T-0.6 s, T+2.2 s] after the last complete packet with a keep-alive timeout (v5: DISCONNECT 0x8D); live peer: a complete packet every 0.5 s or T-1.0 s for three periods, whole or in two writes 0.2 s apart -> never ended; the same peer while a publish handler is busy for the three periods with the receive limits reached (reading paused) -> never ended, everything answered afterwards; dead peer whose server-side publish service is not ready by itself for 0.4 s in between -> still ended by the keep-alive}}; \
             frame read rate 1 s / 16 bytes / max 4 s: partial frame then stall and 8 bytes/s trickle -> read timeout, 80 bytes/s -> frame handled, no timeout; half a CONNECT against connect timeout 1 s -> dropped within 3.5 s, no handshake; a CONNECT trickling in over 3 s, a piece every 0.6 s -> dropped as well (the timeout covers the whole CONNECT); disabled keep-alive -> still open after 4.5 s; \
             client role keep-alive 1/2 s idle (also with the send window of 1 taken by an unacknowledged publish) -> a PINGREQ in every window of k+1.2 s. A case whose driver woke up more than 0.3 s late is run again with fewer connections at once (up to three more rounds; {inconclusive} left without a verdict this run). Non-trivial = every pattern (each has a decisive gap or partial frame); distinct = (role, source, pattern)"
        ),
        exhaustive: false,
        assumptions: vec![
            "wall-clock check: tolerance zones of 0.6 s before and 2.2 s after the nominal period absorb the 1 s timer granularity and scheduling".into(),
            "busy handlers (reading paused) are not combined with the timers here".into(),
        ],
        extra: BTreeMap::new(),
    };
    // too many inconclusive cases: the machine was overloaded, nothing can be said
    if inconclusive * 4 > total as u64 && stats.failures.is_empty() {
        eprintln!("C20: {inconclusive} of {total} cases still without a verdict after three more rounds (driver slipped): machine overloaded");
        return 2;
    }
    finish(ctx, started, stats, report)
}

pub fn replay(path: &str) -> i32 {
    let case = super::load_case(path);
    let res = serde_json::from_value::<Case>(case["case"].clone()).map_err(|e| e.to_string()).map(|c| {
        match with_system(async move { run_conn(c).await }) {
            Ok(Verdict::Ok(info)) => Ok(info),
            Ok(Verdict::Inconclusive(w)) => Ok(CaseInfo::trivial().label(Box::leak(format!("inconclusive: {w}").into_boxed_str()))),
            Ok(Verdict::Fail(f)) => Err(f),
            Err(e) => Err(Failure::new("panic", "C20/panic".to_owned(), e)),
        }
    });
    super::report_replay("C20", path, res)
}
