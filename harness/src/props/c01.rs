//! C01 — packets survive the wire: encode/decode round trip in the MQTT byte
//! layout.  Oracles: (1) library round trip, (2) independent spec decoder
//! reads the library's bytes, (3) library reads the spec encoder's bytes in
//! any legal layout, (4) variable byte integers.

use std::collections::BTreeMap;
use std::time::Instant;

use ntex_bytes::{Bytes, BytesMut};
use ntex_mqtt::{v3::codec as c3, v5::codec as c5, verif_hooks};
use proptest::prelude::*;
use serde::{Deserialize, Serialize};
use serde_json::{Value, json};

use crate::conv::*;
use crate::strat;
use crate::libio::*;
use crate::runner::*;
use crate::spec::v3::{self as s3, P3};
use crate::spec::v5::{self as s5, Layout, P5};
use crate::spec::wire::{self, Split};

/// payloads up to this size are materialised; above, PUBLISH is encoded and
/// decoded header-only (the library's streaming form)
const FULL_PAYLOAD_MAX: u32 = 70_000;

#[derive(Clone, Debug, Serialize, Deserialize)]
pub struct Case5 {
    pub pkt: P5,
    pub layout: Layout,
    pub payload_seed: u32,
}

#[derive(Clone, Debug, Serialize, Deserialize)]
pub struct Case3 {
    pub pkt: P3,
    pub payload_seed: u32,
}

fn len_class(n: usize) -> &'static str {
    match n {
        0 => "0",
        1 => "1",
        2..=126 => "s",
        127 => "127",
        128 => "128",
        129..=16_382 => "m",
        16_383 => "16383",
        16_384 => "16384",
        16_385..=65_533 => "l",
        65_534 => "65534",
        _ => "65535",
    }
}

/// presence bitmask + length classes of a value, as a string
pub fn shape(v: &Value, out: &mut String, boundary: &mut bool) {
    match v {
        Value::Null => out.push('-'),
        Value::Bool(_) => out.push('b'),
        Value::Number(_) => out.push('n'),
        Value::String(s) => {
            let c = len_class(s.len());
            if c.len() > 1 {
                *boundary = true;
            }
            out.push('"');
            out.push_str(c);
        }
        Value::Array(a) => {
            let c = len_class(a.len());
            if c.len() > 1 && a.iter().all(Value::is_number) {
                *boundary = true;
            }
            out.push('[');
            out.push_str(c);
            if !a.iter().all(Value::is_number) {
                // multiset of element shapes (sorted)
                let mut parts: Vec<String> = a
                    .iter()
                    .map(|e| {
                        let mut s = String::new();
                        shape(e, &mut s, boundary);
                        s
                    })
                    .collect();
                parts.sort();
                parts.dedup();
                for p in parts {
                    out.push_str(&p);
                }
            }
            out.push(']');
        }
        Value::Object(o) => {
            out.push('{');
            for (k, v) in o {
                out.push_str(&k[..k.len().min(3)]);
                shape(v, out, boundary);
            }
            out.push('}');
        }
    }
}

/// does `v` carry an optional field / list entry that the all-absent value
/// `d` of the same kind does not
fn optional_present(v: &Value, d: &Value) -> bool {
    match (v, d) {
        (Value::Object(vo), Value::Object(dob)) => vo.iter().any(|(k, vv)| match dob.get(k) {
            Some(Value::Null) => !vv.is_null(),
            Some(Value::Array(a)) if a.is_empty() => vv.as_array().is_some_and(|x| !x.is_empty()),
            Some(dv @ Value::Object(_)) => optional_present(vv, dv),
            _ => false,
        }),
        _ => false,
    }
}

fn default_like5(p: &P5) -> P5 {
    use crate::spec::v5::*;
    match p {
        P5::Connect(_) => P5::Connect(Box::default()),
        P5::ConnAck(_) => P5::ConnAck(Box::default()),
        P5::Publish(_) => P5::Publish(Box::default()),
        P5::PubAck(_) => P5::PubAck(Ack5::default()),
        P5::PubRec(_) => P5::PubRec(Ack5::default()),
        P5::PubRel(_) => P5::PubRel(Ack5::default()),
        P5::PubComp(_) => P5::PubComp(Ack5::default()),
        P5::Subscribe(_) => P5::Subscribe(Sub5::default()),
        P5::SubAck(_) => P5::SubAck(SubAck5::default()),
        P5::Unsubscribe(_) => P5::Unsubscribe(Unsub5::default()),
        P5::UnsubAck(_) => P5::UnsubAck(SubAck5::default()),
        P5::PingReq => P5::PingReq,
        P5::PingResp => P5::PingResp,
        P5::Disconnect(_) => P5::Disconnect(Disc5::default()),
        P5::Auth(_) => P5::Auth(Auth5::default()),
    }
}

fn info_for(version: u8, kind: &str, pkt_json: &Value, optional: bool, rl: u32, layout_class: u8) -> CaseInfo {
    let mut sig = String::new();
    let mut boundary = false;
    shape(pkt_json, &mut sig, &mut boundary);
    let rl_w = wire::varint_len(rl.min(268_435_455));
    let nt = optional || boundary || rl_w >= 2;
    let mut info = if nt {
        CaseInfo::nontrivial(&(version, kind, &sig, rl_w, layout_class))
    } else {
        CaseInfo::trivial()
    };
    info.labels.push(match rl_w {
        1 => "rl-1-byte",
        2 => "rl-2-bytes",
        3 => "rl-3-bytes",
        _ => "rl-4-bytes",
    });
    if boundary {
        info.labels.push("boundary-length");
    }
    if optional {
        info.labels.push("optional-present");
    }
    info
}

fn fail5(kind: &str, rule: &str, detail: String) -> Failure {
    Failure::new(rule, format!("C01/v5/{kind}/{rule}"), detail)
}
fn fail3(kind: &str, rule: &str, detail: String) -> Failure {
    Failure::new(rule, format!("C01/v3/{kind}/{rule}"), detail)
}

fn hex(b: &[u8]) -> String {
    let n = b.len().min(48);
    let mut s: String = b[..n].iter().map(|x| format!("{x:02x}")).collect();
    if b.len() > n {
        s.push_str(&format!("..(+{} bytes)", b.len() - n));
    }
    s
}

pub fn check_case5(c: &Case5) -> Result<CaseInfo, Failure> {
    let kind = c.pkt.kind();
    let lib = to_lib5(&c.pkt).map_err(|e| fail5(kind, "harness-unrepresentable", e))?;
    let (payload, header_only) = match &c.pkt {
        P5::Publish(p) if p.payload_len <= FULL_PAYLOAD_MAX => {
            (Some(wire::payload(c.payload_seed, p.payload_len)), false)
        }
        P5::Publish(_) => (None, true),
        _ => (None, false),
    };
    let plen = match &c.pkt {
        P5::Publish(p) => p.payload_len,
        _ => 0,
    };

    // --- oracle 1a: library encodes
    let codec = c5::Codec::new();
    let bytes = catch(|| encode5(&codec, &lib, payload.as_ref().map(|p| Bytes::copy_from_slice(p))))
        .map_err(|p| fail5(kind, "encode-panic", p))?
        .map_err(|(e, _)| fail5(kind, "encode-error", format!("valid packet refused by encoder: {e:?}")))?;

    // --- oracle 2: the bytes are the specification's layout
    let (first, rl, hdr) = match wire::split(&bytes) {
        Split::Frame { first, rl, hdr, .. } => (first, rl, hdr),
        other => {
            return Err(fail5(kind, "layout-frame", format!("no frame header in {}: {other:?}", hex(&bytes))));
        }
    };
    let expect_len = if header_only { bytes.len() as u64 + u64::from(plen) } else { bytes.len() as u64 };
    if hdr as u64 + u64::from(rl) != expect_len {
        return Err(fail5(
            kind,
            "layout-remaining-length",
            format!("Remaining Length {rl} + header {hdr} != bytes produced {expect_len} ({})", hex(&bytes)),
        ));
    }
    match &c.pkt {
        P5::Publish(want) => {
            match s5::decode_publish_header(first, rl, &bytes[hdr..]) {
                Ok(Some((got, hlen, _))) => {
                    let got = P5::Publish(Box::new(got)).normalize();
                    if got != c.pkt {
                        return Err(fail5(kind, "layout-fields", format!("spec decoder reads {:?}, value was {:?}; bytes {}", strat::brief(&got), strat::brief(want), hex(&bytes))));
                    }
                    if !header_only && &bytes[hdr + hlen..] != payload.as_deref().unwrap_or(&[]) {
                        return Err(fail5(kind, "layout-payload", "payload bytes on the wire differ from the payload given".into()));
                    }
                    if header_only && bytes.len() != hdr + hlen {
                        return Err(fail5(kind, "layout-payload", "header-only encode produced payload bytes".into()));
                    }
                }
                Ok(None) => return Err(fail5(kind, "layout-fields", format!("spec decoder: header incomplete in {}", hex(&bytes)))),
                Err(r) => return Err(fail5(kind, "layout-invalid", format!("spec decoder rejects the library's bytes: {r:?}; {}", hex(&bytes)))),
            }
        }
        _ => match s5::decode(first, &bytes[hdr..]) {
            s5::Verdict::Valid { pkt: got, .. } => {
                if got != c.pkt {
                    return Err(fail5(kind, "layout-fields", format!("spec decoder reads {:?}, value was {:?}; bytes {}", strat::brief(&got), strat::brief(&c.pkt), hex(&bytes))));
                }
            }
            s5::Verdict::Invalid(r) => {
                return Err(fail5(kind, "layout-invalid", format!("spec decoder rejects the library's bytes: {r:?}; {}", hex(&bytes))));
            }
        },
    }

    // --- oracle 1b: library decodes its own bytes
    lib_reads5(kind, &c.pkt, &lib, &bytes, payload.as_deref(), header_only, rl, "roundtrip")?;

    // --- oracle 3: library decodes the spec encoder's bytes (foreign layout)
    // explicit defaults add bytes: keep the foreign frame within the maximum Remaining Length
    let mut layout = c.layout;
    if rl > 268_435_455 - 16 {
        layout.explicit_defaults = false;
    }
    let foreign = if header_only {
        match &c.pkt {
            P5::Publish(p) => s5::encode_publish_header(p, &layout),
            _ => unreachable!(),
        }
    } else {
        s5::encode(&c.pkt, payload.as_deref().unwrap_or(&[]), &layout)
    };
    let frl = match wire::split(&foreign) {
        Split::Frame { rl, .. } => rl,
        _ => unreachable!("spec encoder produced no frame"),
    };
    lib_reads5(kind, &c.pkt, &lib, &foreign, payload.as_deref(), header_only, frl, "foreign")?;

    let lc = u8::from(c.layout.perm_seed != 0) | (u8::from(c.layout.explicit_defaults) << 1) | (u8::from(c.layout.short) << 2);
    let vj = serde_json::to_value(&c.pkt).unwrap();
    let dj = serde_json::to_value(default_like5(&c.pkt)).unwrap();
    let optional = match (&vj, &dj) {
        (Value::Object(a), Value::Object(b)) => {
            a.values().zip(b.values()).any(|(v, d)| optional_present(v, d))
        }
        _ => false,
    };
    Ok(info_for(5, kind, &vj, optional, rl, lc))
}

#[allow(clippy::too_many_arguments)]
fn lib_reads5(
    kind: &str,
    want: &P5,
    want_lib: &Lib5,
    bytes: &[u8],
    payload: Option<&[u8]>,
    header_only: bool,
    rl: u32,
    what: &str,
) -> Result<(), Failure> {
    let codec = c5::Codec::new();
    if header_only {
        let mut buf = BytesMut::from(bytes);
        let item = catch(|| codec.step(&mut buf))
            .map_err(|p| fail5(kind, &format!("{what}-decode-panic"), p))?
            .map_err(|e| fail5(kind, &format!("{what}-decode-error"), format!("{e:?} on {}", hex(bytes))))?;
        match item {
            Some(Item::Publish(p, first, size)) => {
                let got = from_lib5_publish(&p);
                if &got != want || !first.is_empty() || size != rl || !buf.is_empty() {
                    return Err(fail5(kind, &format!("{what}-fields"), format!("header-only decode gives {:?} size {size} (RL {rl}), left {}", strat::brief(&got), buf.len())));
                }
                Ok(())
            }
            other => Err(fail5(kind, &format!("{what}-fields"), format!("header-only decode gives {other:?}"))),
        }
    } else {
        let res = catch(|| decode_one(&codec, bytes))
            .map_err(|p| fail5(kind, &format!("{what}-decode-panic"), p))?
            .map_err(|e| fail5(kind, &format!("{what}-decode-error"), format!("{e:?} on {}", hex(bytes))))?;
        let Some((whole, consumed)) = res else {
            return Err(fail5(kind, &format!("{what}-incomplete"), format!("decoder wants more data for a complete frame {}", hex(bytes))));
        };
        if consumed != bytes.len() {
            return Err(fail5(kind, &format!("{what}-consumed"), format!("consumed {consumed} of {} bytes", bytes.len())));
        }
        let (got, got_lib_eq, size) = match &whole {
            Whole::Packet(p, s) => (from_lib5(p), matches!(want_lib, Lib5::Packet(w) if w == p), *s),
            Whole::Publish(p, pl, s) => {
                if Some(pl.as_slice()) != payload {
                    return Err(fail5(kind, &format!("{what}-payload"), format!("payload differs: {} vs {}", hex(pl), hex(payload.unwrap_or(&[])))));
                }
                (from_lib5_publish(p), matches!(want_lib, Lib5::Publish(w) if w == p), *s)
            }
        };
        if &got != want || !got_lib_eq {
            return Err(fail5(kind, &format!("{what}-fields"), format!("decoded {:?}, expected {:?}; bytes {}", strat::brief(&got), strat::brief(want), hex(bytes))));
        }
        if size != rl {
            return Err(fail5(kind, &format!("{what}-size"), format!("reported size {size}, Remaining Length {rl}")));
        }
        Ok(())
    }
}

pub fn check_case3(c: &Case3) -> Result<CaseInfo, Failure> {
    let kind = c.pkt.kind();
    let lib = to_lib3(&c.pkt).map_err(|e| fail3(kind, "harness-unrepresentable", e))?;
    let (payload, header_only, plen) = match &c.pkt {
        P3::Publish(p) if p.payload_len <= FULL_PAYLOAD_MAX => {
            (Some(wire::payload(c.payload_seed, p.payload_len)), false, p.payload_len)
        }
        P3::Publish(p) => (None, true, p.payload_len),
        _ => (None, false, 0),
    };
    let codec = c3::Codec::new();
    let bytes = catch(|| encode3(&codec, &lib, payload.as_ref().map(|p| Bytes::copy_from_slice(p))))
        .map_err(|p| fail3(kind, "encode-panic", p))?
        .map_err(|(e, _)| fail3(kind, "encode-error", format!("valid packet refused by encoder: {e:?}")))?;
    let (first, rl, hdr) = match wire::split(&bytes) {
        Split::Frame { first, rl, hdr, .. } => (first, rl, hdr),
        other => return Err(fail3(kind, "layout-frame", format!("no frame header in {}: {other:?}", hex(&bytes)))),
    };
    let expect_len = if header_only { bytes.len() as u64 + u64::from(plen) } else { bytes.len() as u64 };
    if hdr as u64 + u64::from(rl) != expect_len {
        return Err(fail3(kind, "layout-remaining-length", format!("Remaining Length {rl} + header {hdr} != bytes produced {expect_len}")));
    }
    // spec reads the library's bytes; and the library's bytes equal the spec
    // encoder's (v3 leaves no layout freedom)
    let spec_bytes = match &c.pkt {
        P3::Publish(p) if header_only => s3::encode_publish_header(p),
        _ => s3::encode(&c.pkt, payload.as_deref().unwrap_or(&[])),
    };
    if spec_bytes != bytes {
        return Err(fail3(kind, "layout-bytes", format!("library bytes {} differ from the specification's layout {}", hex(&bytes), hex(&spec_bytes))));
    }
    match &c.pkt {
        P3::Publish(want) => match s3::decode_publish_header(first, rl, &bytes[hdr..]) {
            Ok(Some((got, _, _))) if &got == want => {}
            other => return Err(fail3(kind, "layout-fields", format!("spec decoder reads {other:?}"))),
        },
        _ => match s3::decode(first, &bytes[hdr..]) {
            s3::Verdict::Valid { pkt, .. } if pkt == c.pkt => {}
            other => return Err(fail3(kind, "layout-fields", format!("spec decoder reads {other:?}, value {:?}", strat::brief(&c.pkt)))),
        },
    }
    // library round trip
    let dec = c3::Codec::new();
    if header_only {
        let mut buf = BytesMut::from(&bytes[..]);
        let item = catch(|| dec.step(&mut buf))
            .map_err(|p| fail3(kind, "roundtrip-decode-panic", p))?
            .map_err(|e| fail3(kind, "roundtrip-decode-error", format!("{e:?}")))?;
        match item {
            Some(Item::Publish(p, first, size)) if first.is_empty() && size == rl && buf.is_empty() && P3::Publish(publish3_from_lib(&p)) == c.pkt => {}
            other => return Err(fail3(kind, "roundtrip-fields", format!("header-only decode gives {other:?}"))),
        }
    } else {
        let res = catch(|| decode_one(&dec, &bytes))
            .map_err(|p| fail3(kind, "roundtrip-decode-panic", p))?
            .map_err(|e| fail3(kind, "roundtrip-decode-error", format!("{e:?} on {}", hex(&bytes))))?;
        let Some((whole, consumed)) = res else {
            return Err(fail3(kind, "roundtrip-incomplete", "decoder wants more data for a complete frame".into()));
        };
        if consumed != bytes.len() {
            return Err(fail3(kind, "roundtrip-consumed", format!("consumed {consumed} of {}", bytes.len())));
        }
        let (got, eq, size) = match &whole {
            Whole::Packet(p, s) => (from_lib3(p), matches!(&lib, Lib3::Packet(w) if w == p), *s),
            Whole::Publish(p, pl, s) => {
                if Some(pl.as_slice()) != payload.as_deref() {
                    return Err(fail3(kind, "roundtrip-payload", "payload differs".into()));
                }
                (P3::Publish(publish3_from_lib(p)), matches!(&lib, Lib3::Publish(w) if w == p), *s)
            }
        };
        if got != c.pkt || !eq {
            return Err(fail3(kind, "roundtrip-fields", format!("decoded {:?}, expected {:?}", strat::brief(&got), strat::brief(&c.pkt))));
        }
        if size != rl {
            return Err(fail3(kind, "roundtrip-size", format!("reported size {size}, Remaining Length {rl}")));
        }
    }
    let optional = matches!(&c.pkt, P3::Connect(c) if c.will.is_some() || c.username.is_some() || c.password.is_some());
    Ok(info_for(3, kind, &serde_json::to_value(&c.pkt).unwrap(), optional, rl, 0))
}

// --- variable byte integers ------------------------------------------------------

fn check_varint(n: u32) -> Result<(), Failure> {
    let mut want = Vec::new();
    wire::put_varint(&mut want, n);
    let got = verif_hooks::write_variable_length(n);
    if got != want {
        return Err(Failure::new("varint-encode", "C01/varint/encode", format!("{n}: library {got:02x?}, spec {want:02x?}"))
            .with_case(json!({"kind": "varint", "n": n})));
    }
    match verif_hooks::decode_variable_length(&want) {
        Ok(Some((v, l))) if v == n && l == want.len() => {}
        other => {
            return Err(Failure::new("varint-decode", "C01/varint/decode", format!("{n}: decode of {want:02x?} gives {other:?}"))
                .with_case(json!({"kind": "varint", "n": n})));
        }
    }
    // with trailing bytes: same value, same consumed length
    let mut ext = want.clone();
    ext.extend_from_slice(&[0xFF, 0x00]);
    match verif_hooks::decode_variable_length(&ext) {
        Ok(Some((v, l))) if v == n && l == want.len() => {}
        other => {
            return Err(Failure::new("varint-decode", "C01/varint/decode-trailing", format!("{n}: decode of {ext:02x?} gives {other:?}"))
                .with_case(json!({"kind": "varint", "n": n})));
        }
    }
    // every proper prefix is "need more data"
    for k in 0..want.len() {
        if k == 0 {
            continue;
        }
        match verif_hooks::decode_variable_length(&want[..k]) {
            Ok(None) => {}
            other => {
                return Err(Failure::new("varint-decode", "C01/varint/prefix", format!("{n}: prefix {:02x?} gives {other:?}", &want[..k]))
                    .with_case(json!({"kind": "varint", "n": n})));
            }
        }
    }
    Ok(())
}

fn varints(ctx: &Ctx) -> Stats {
    let exhaustive_to: u64 = ctx.tier.pick(1 << 17, 1 << 28);
    let mut stats = par_shards(WORKERS, |shard| {
        let mut st = Stats::default();
        let mut n = shard as u64;
        while n < exhaustive_to {
            st.evaluations += 1;
            if n >= 128 {
                st.distinct_counted += 1;
            }
            if let Err(f) = check_varint(n as u32) {
                st.fail(f);
                break;
            }
            n += WORKERS as u64;
        }
        // boundaries and samples above the exhaustive range
        let mut rng = SplitMix(ctx.sub_seed("varint", shard));
        if shard == 0 {
            for b in [127u32, 128, 16_383, 16_384, 2_097_151, 2_097_152, 268_435_455] {
                for d in -2i64..=2 {
                    let v = i64::from(b) + d;
                    if (0..=268_435_455).contains(&v) {
                        st.evaluations += 1;
                        st.nontrivial.insert(hash_of(&("varint", v)));
                        if let Err(f) = check_varint(v as u32) {
                            st.fail(f);
                        }
                    }
                }
            }
            // five-byte encodings are malformed
            for enc in [[0x80u8, 0x80, 0x80, 0x80, 0x01], [0xFF, 0xFF, 0xFF, 0xFF, 0x7F], [0x80, 0x80, 0x80, 0x80, 0x00]] {
                st.evaluations += 1;
                st.nontrivial.insert(hash_of(&("varint5", enc)));
                if !matches!(verif_hooks::decode_variable_length(&enc), Err(_)) {
                    st.fail(Failure::new("varint-decode", "C01/varint/five-bytes", format!("{enc:02x?} accepted"))
                        .with_case(json!({"kind": "varint5", "bytes": enc})));
                }
            }
        }
        if exhaustive_to < (1 << 28) {
            for _ in 0..(1 << 16) {
                let v = rng.below(268_435_456) as u32;
                st.evaluations += 1;
                st.nontrivial.insert(hash_of(&("varint", i64::from(v))));
                if let Err(f) = check_varint(v) {
                    st.fail(f);
                    break;
                }
            }
        }
        st
    });
    stats.sample(|| json!({"varint": 16_384, "spec_bytes": "80 80 01"}));
    stats
}

/// v5 packets of every kind that carries properties, with one user property whose value length is swept so that
/// the property block crosses the 127/128 and 16383/16384 (thorough: 2097151/2097152) varint boundaries
fn prop_boundary_sweep(ctx: &Ctx) -> Stats {
    let mut ranges: Vec<std::ops::Range<usize>> = vec![90..135, 16_340..16_392];
    if ctx.tier == Tier::Thorough {
        ranges.push(2_097_100..2_097_160);
    }
    let kinds = 14u8;
    par_shards(WORKERS, |shard| {
        let mut st = Stats::default();
        let mut idx = 0usize;
        for r in &ranges {
            for n in r.clone() {
                for kind in 0..kinds {
                    idx += 1;
                    if idx % WORKERS != shard {
                        continue;
                    }
                    // a string is at most 65535 bytes: larger blocks are built from several user properties
                    let mut ups: s5::UserProps = Vec::new();
                    let mut left = n;
                    while left > 60_000 {
                        ups.push(("k".into(), "w".repeat(60_000)));
                        left -= 60_000;
                    }
                    ups.push(("k".into(), "v".repeat(left)));
                    let pkt = match kind {
                        0 => P5::Connect(Box::new(s5::Connect5 { client_id: "c".into(), clean_start: true, user_props: ups, ..Default::default() })),
                        1 => P5::Connect(Box::new(s5::Connect5 { client_id: "c".into(), clean_start: true, will: Some(s5::Will5 { topic: "w".into(), user_props: ups, ..Default::default() }), ..Default::default() })),
                        2 => P5::ConnAck(Box::new(s5::ConnAck5 { user_props: ups, ..Default::default() })),
                        3 => P5::Publish(Box::new(s5::Publish5 { topic: "t".into(), qos: 1, pid: Some(7), payload_len: 3, user_props: ups, ..Default::default() })),
                        4 => P5::PubAck(s5::Ack5 { pid: 7, reason: 0x10, user_props: ups, ..Default::default() }),
                        5 => P5::PubRec(s5::Ack5 { pid: 7, user_props: ups, ..Default::default() }),
                        6 => P5::PubRel(s5::Ack5 { pid: 7, user_props: ups, ..Default::default() }),
                        7 => P5::PubComp(s5::Ack5 { pid: 7, user_props: ups, ..Default::default() }),
                        8 => P5::Subscribe(s5::Sub5 { pid: 7, user_props: ups, filters: vec![("a".into(), s5::SubOpts::default())], ..Default::default() }),
                        9 => P5::SubAck(s5::SubAck5 { pid: 7, codes: vec![0], user_props: ups, ..Default::default() }),
                        10 => P5::Unsubscribe(s5::Unsub5 { pid: 7, user_props: ups, filters: vec!["a".into()] }),
                        11 => P5::UnsubAck(s5::SubAck5 { pid: 7, codes: vec![0], user_props: ups, ..Default::default() }),
                        12 => P5::Disconnect(s5::Disc5 { reason: 0x81, user_props: ups, ..Default::default() }),
                        _ => P5::Auth(s5::Auth5 { reason: 0x18, auth_method: Some("m".into()), user_props: ups, ..Default::default() }),
                    };
                    let case = Case5 { pkt: pkt.normalize(), layout: Layout::default(), payload_seed: n as u32 };
                    st.evaluations += 1;
                    match check_case5(&case) {
                        Ok(mut info) => {
                            info.nontrivial = Some(hash_of(&("prop-boundary", kind, n)));
                            info.labels.push("property-block-near-varint-boundary");
                            st.record(&info);
                            st.evaluations -= 1;
                        }
                        Err(f) => {
                            let f = Failure { signature: format!("{}/property-block-boundary", f.signature), ..f };
                            st.fail(f.with_case(json!({"kind": "v5", "brief": format!("kind {kind}, user property value of {n} bytes"), "case": case})));
                        }
                    }
                }
            }
        }
        st
    })
}

fn case5_strategy() -> impl Strategy<Value = Case5> {
    (strat::p5(), strat::layout(), any::<u32>()).prop_map(|(pkt, layout, payload_seed)| Case5 { pkt, layout, payload_seed })
}
fn case3_strategy() -> impl Strategy<Value = Case3> {
    (strat::p3(), any::<u32>()).prop_map(|(pkt, payload_seed)| Case3 { pkt, payload_seed })
}

pub fn run(ctx: &Ctx, started: Instant) -> i32 {
    let per_shard = ctx.tier.pick(10_000u32, 125_000);
    let mut stats = par_shards(WORKERS, |shard| {
        let mut st = Stats::default();
        run_proptest(
            ctx.sub_seed("v5", shard),
            per_shard,
            &case5_strategy(),
            &mut st,
            |c| json!({"kind": "v5", "brief": strat::brief(&c.pkt), "layout": c.layout, "case": c}),
            check_case5,
        );
        // keep replayable cases small in the evidence: samples carry the brief form only
        for s in &mut st.samples {
            if let Some(o) = s.as_object_mut() {
                o.remove("case");
            }
        }
        run_proptest(
            ctx.sub_seed("v3", shard),
            per_shard,
            &case3_strategy(),
            &mut st,
            |c| json!({"kind": "v3", "brief": strat::brief(&c.pkt), "case": c}),
            check_case3,
        );
        for s in &mut st.samples {
            if let Some(o) = s.as_object_mut() {
                o.remove("case");
            }
        }
        st
    });
    stats.merge(varints(ctx));
    stats.merge(prop_boundary_sweep(ctx));
    let report = Report {
        level: "exploration",
        rule: "proptest-generated packet values of all 14 v3 and 15 v5 kinds (every optional field/property independently \
               present, all reason codes, boundary string lengths, PUBLISH Remaining Length aimed at every 1/2/3/4-byte boundary; \
               huge payloads header-only) through: library encode -> independent spec decoder; library encode -> library decode; \
               spec encoder with random property order / explicit defaults / short forms -> library decode; a sweep of every property-carrying v5 kind with a user property sized so that the property block crosses the 127/128 and 16383/16384 (thorough: 2097151/2097152) boundaries; plus variable byte \
               integers (quick: all n < 2^17, boundaries, samples; thorough: all 2^28). Non-trivial = some optional present, or a \
               boundary-class length, or RL >= 2 bytes; distinct = (version, kind, presence/length-class shape, RL width, layout class)"
            .into(),
        exhaustive: false,
        assumptions: vec![
            "reference codec harness/src/spec/{v3,v5,wire}.rs transcribes the OASIS texts (it is self-tested by the foreign-layout oracle: spec encode -> library decode -> equality)".into(),
            "values the specification forbids or the library's types cannot hold are not generated: packet id 0, subscription id 0 or > 268435455, message expiry 0, v3 empty client id without clean session, strings > 65535 bytes, U+0000".into(),
        ],
        extra: BTreeMap::new(),
    };
    finish(ctx, started, stats, report)
}

pub fn replay(path: &str) -> i32 {
    let case = super::load_case(path);
    let res = match case["kind"].as_str() {
        Some("v5") => serde_json::from_value::<Case5>(case["case"].clone()).map_err(|e| e.to_string()).map(|c| check_case5(&c)),
        Some("v3") => serde_json::from_value::<Case3>(case["case"].clone()).map_err(|e| e.to_string()).map(|c| check_case3(&c)),
        Some("varint") => Ok(check_varint(case["n"].as_u64().unwrap_or(0) as u32).map(|()| CaseInfo::trivial())),
        other => Err(format!("unknown replay kind {other:?}")),
    };
    super::report_replay("C01", path, res)
}
