//! C10 — decoding is independent of fragmentation; streamed payloads arrive
//! intact.  Codec level: valid streams under exhaustive / structural / random
//! cut sets and min-chunk settings, judged by `decoding::judge` (single
//! announcement, pieces add up, exactly one final piece, min-chunk rule, no
//! leak into the next packet).  Connection level: see `bed` based part.

use std::collections::BTreeMap;
use std::time::Instant;

use proptest::prelude::*;
use serde::{Deserialize, Serialize};
use serde_json::json;

use crate::decoding::*;
use crate::props::c02::{BytesCase, from_hex, to_hex};
use crate::runner::*;
use crate::spec::v3::{self as s3, P3, Publish3};
use crate::spec::v5::{self as s5, Layout, P5, Publish5};
use crate::spec::wire::{self, Split};
use crate::strat;

const MIN_CHUNKS: [u32; 5] = [0, 1, 4, 1024, 32_768];

#[derive(Clone, Debug, Serialize, Deserialize)]
pub enum Frag {
    Whole,
    ByteAtATime,
    /// cuts at every structural offset, shifted by -1 / 0 / +1
    Structural(i8),
    Random(u64, u8),
    /// explicit cut set (exhaustive enumeration)
    Explicit(Vec<usize>),
}

#[derive(Clone, Debug)]
pub struct StreamCase {
    pub ver: u8,
    pub bytes: Vec<u8>,
    /// [start, end of fixed header, end of variable header, end) of every PUBLISH
    pub publishes: Vec<[usize; 4]>,
    pub structural: Vec<usize>,
    pub min_chunk: u32,
    pub frag: Frag,
    pub payload_classes: Vec<&'static str>,
}

fn payload_class(len: u32, min: u32) -> &'static str {
    if len == 0 {
        "0"
    } else if len == 1 {
        "1"
    } else if min > 1 && len + 1 == min {
        "min-1"
    } else if min > 0 && len == min {
        "min"
    } else if min > 0 && len == min + 1 {
        "min+1"
    } else if min > 0 && len == 2 * min {
        "2min"
    } else {
        match len {
            127 => "127",
            128 => "128",
            16_383 => "16383",
            16_384 => "16384",
            65_536 => "65536",
            300_000.. => "300K",
            _ => "other",
        }
    }
}

fn cuts_of(c: &StreamCase) -> Vec<usize> {
    let n = c.bytes.len();
    let mut v: Vec<usize> = match &c.frag {
        Frag::Whole => Vec::new(),
        Frag::ByteAtATime => (1..n).collect(),
        Frag::Structural(d) => c
            .structural
            .iter()
            .map(|o| (*o as i64 + i64::from(*d)).clamp(1, n as i64 - 1) as usize)
            .collect(),
        Frag::Random(seed, k) => {
            let mut r = SplitMix(*seed);
            (0..*k).map(|_| 1 + r.below(n.max(2) as u64 - 1) as usize).collect()
        }
        Frag::Explicit(v) => v.clone(),
    };
    v.retain(|x| *x > 0 && *x < n);
    v.sort_unstable();
    v.dedup();
    v
}

fn cut_classes(c: &StreamCase, cuts: &[usize]) -> (bool, Vec<&'static str>) {
    let mut cls = Vec::new();
    let mut inside = false;
    for p in &c.publishes {
        let has_payload = p[3] > p[2];
        for &x in cuts {
            if x > p[0] && x < p[3] {
                if has_payload {
                    inside = true;
                }
                cls.push(if x < p[1] {
                    "cut-fixed-header"
                } else if x < p[2] {
                    "cut-var-header"
                } else if x == p[2] {
                    "cut-at-payload-start"
                } else {
                    "cut-in-payload"
                });
            }
        }
    }
    cls.sort_unstable();
    cls.dedup();
    (inside, cls)
}

pub fn check_stream(c: &StreamCase) -> Result<CaseInfo, Failure> {
    let cuts = cuts_of(c);
    let cfg = DecCfg { max_size: 0, min_chunk: c.min_chunk };
    let res = if c.ver == 5 {
        decode_and_judge::<V5>(&c.bytes, &cuts, cfg, false)
    } else {
        decode_and_judge::<V3>(&c.bytes, &cuts, cfg, false)
    };
    let j = res.map_err(|mut f| {
        f.signature = format!("C10/{}", f.signature);
        f
    })?;
    // a valid stream must be decoded completely
    if j.reject.is_some() || j.last != "need-header" && !c.bytes.is_empty() {
        return Err(Failure::new(
            "valid-stream-not-decoded",
            format!("C10/v{}/valid-stream-not-decoded", c.ver),
            format!("valid stream ended with verdict {:?} (reject {:?}) after {} frames", j.last, j.reject, j.frames_ok),
        ));
    }
    let (inside, cls) = cut_classes(c, &cuts);
    let mc = match c.min_chunk {
        0 => "min0",
        1 => "min1",
        4 => "min4",
        1024 => "min1024",
        _ => "min32768",
    };
    let mut info = if inside {
        CaseInfo::nontrivial(&(c.ver, mc, &cls, &c.payload_classes))
    } else {
        CaseInfo::trivial()
    };
    info.labels = cls;
    info.labels.push(mc);
    Ok(info)
}

fn to_case(c: &StreamCase) -> serde_json::Value {
    serde_json::to_value(BytesCase {
        ver: c.ver,
        hex: to_hex(&c.bytes),
        cuts: cuts_of(c),
        cfg: DecCfg { max_size: 0, min_chunk: c.min_chunk },
        note: format!("{:?}", c.frag).chars().take(40).collect(),
    })
    .unwrap()
}

// --- stream generation ----------------------------------------------------------------

#[derive(Clone, Debug)]
enum Elem {
    Publish { qos: u8, topic: String, pid: u16, payload: u32, seed: u32, props: bool },
    Small(u8),
}

fn payload_size(min: u32) -> BoxedStrategy<u32> {
    let m = min.max(2);
    prop_oneof![
        6 => prop::sample::select(vec![0u32, 1, 2, 3, 5, 17]),
        4 => prop::sample::select(vec![m - 1, m, m + 1, 2 * m]),
        3 => prop::sample::select(vec![127u32, 128, 16_383, 16_384]),
        1 => prop::sample::select(vec![65_536u32, 300 * 1024]),
        2 => 0u32..3000,
    ]
    .boxed()
}

fn elem(min: u32) -> BoxedStrategy<Elem> {
    prop_oneof![
        3 => (0u8..3, strat::topic_name(), strat::pid(), payload_size(min), any::<u32>(), any::<bool>())
            .prop_map(|(qos, topic, pid, payload, seed, props)| {
                let topic = if topic.len() > 300 { "long/topic".to_owned() } else { topic };
                Elem::Publish { qos, topic, pid, payload, seed, props }
            }),
        1 => (0u8..5).prop_map(Elem::Small),
    ]
    .boxed()
}

fn build(ver: u8, elems: &[Elem], min_chunk: u32, frag: Frag) -> StreamCase {
    let mut bytes = Vec::new();
    let mut publishes = Vec::new();
    let mut structural = Vec::new();
    let mut classes = Vec::new();
    let mut all = elems.to_vec();
    // the stream always ends with a small non-PUBLISH packet (leak detector)
    all.push(Elem::Small(0));
    for e in &all {
        let start = bytes.len();
        structural.push(start);
        match e {
            Elem::Publish { qos, topic, pid, payload, seed, props } => {
                let pl = wire::payload(*seed, *payload);
                let frame = if ver == 5 {
                    let p = Publish5 {
                        qos: *qos,
                        topic: topic.clone(),
                        pid: (*qos > 0).then_some(*pid),
                        payload_len: *payload,
                        user_props: if *props { vec![("k".into(), "v".into())] } else { vec![] },
                        content_type: props.then(|| "text/plain".to_owned()),
                        ..Default::default()
                    };
                    s5::encode(&P5::Publish(Box::new(p)), &pl, &Layout::default())
                } else {
                    let p = Publish3 { qos: *qos, topic: topic.clone(), pid: (*qos > 0).then_some(*pid), payload_len: *payload, ..Default::default() };
                    s3::encode(&P3::Publish(p), &pl)
                };
                if let Split::Frame { hdr, rl, .. } = wire::split(&frame) {
                    let vh_end = hdr + rl as usize - *payload as usize;
                    publishes.push([start, start + hdr, start + vh_end, start + frame.len()]);
                    structural.extend_from_slice(&[start + 1, start + hdr, start + hdr + 2, start + vh_end]);
                }
                classes.push(payload_class(*payload, min_chunk));
                bytes.extend_from_slice(&frame);
            }
            Elem::Small(k) => {
                let frame = if ver == 5 {
                    match k {
                        0 => s5::encode(&P5::PingReq, &[], &Layout::default()),
                        1 => s5::encode(&P5::PubAck(s5::Ack5 { pid: 9, ..Default::default() }), &[], &Layout::default()),
                        2 => s5::encode(&P5::PubRel(s5::Ack5 { pid: 3, ..Default::default() }), &[], &Layout { short: true, ..Default::default() }),
                        3 => s5::encode(&P5::Disconnect(s5::Disc5::default()), &[], &Layout { short: true, ..Default::default() }),
                        _ => s5::encode(&P5::Subscribe(s5::Sub5 { pid: 4, filters: vec![("a/#".into(), s5::SubOpts::default())], ..Default::default() }), &[], &Layout::default()),
                    }
                } else {
                    match k {
                        0 => s3::encode(&P3::PingReq, &[]),
                        1 => s3::encode(&P3::PubAck(9), &[]),
                        2 => s3::encode(&P3::PubRel(3), &[]),
                        3 => s3::encode(&P3::Disconnect, &[]),
                        _ => s3::encode(&P3::Subscribe { pid: 4, filters: vec![("a/#".into(), 1)] }, &[]),
                    }
                };
                bytes.extend_from_slice(&frame);
            }
        }
    }
    structural.push(bytes.len() - 1);
    StreamCase { ver, bytes, publishes, structural, min_chunk, frag, payload_classes: classes }
}

fn stream_strategy() -> impl Strategy<Value = StreamCase> {
    (prop::sample::select(vec![3u8, 5]), prop::sample::select(MIN_CHUNKS.to_vec()))
        .prop_flat_map(|(ver, min)| {
            (
                Just(ver),
                Just(min),
                prop::collection::vec(elem(min), 1..6),
                prop_oneof![
                    1 => Just(Frag::Whole),
                    2 => Just(Frag::ByteAtATime),
                    3 => (-1i8..=1).prop_map(Frag::Structural),
                    4 => (any::<u64>(), 1u8..12).prop_map(|(s, k)| Frag::Random(s, k)),
                ],
            )
        })
        .prop_map(|(ver, min, mut elems, frag)| {
            // at least one PUBLISH
            if !elems.iter().any(|e| matches!(e, Elem::Publish { .. })) {
                elems.insert(0, Elem::Publish { qos: 1, topic: "t".into(), pid: 1, payload: min.max(1) + 1, seed: 1, props: false });
            }
            // byte-at-a-time over several hundred KiB is wasteful: keep one big payload per stream
            let mut big = 0;
            for e in &mut elems {
                if let Elem::Publish { payload, .. } = e {
                    if *payload > 20_000 {
                        big += 1;
                        if big > 1 {
                            *payload = 5;
                        }
                    }
                }
            }
            build(ver, &elems, min, frag)
        })
}

/// every cut set of a few short streams, under every min-chunk setting
fn exhaustive_cut_sets(ctx: &Ctx) -> Stats {
    let max_len = ctx.tier.pick(14usize, 17);
    let mut seeds: Vec<(u8, Vec<Elem>)> = Vec::new();
    for ver in [3u8, 5] {
        for (qos, payload, props) in [(0u8, 3u32, false), (1, 4, false), (2, 0, false), (0, 5, false), (1, 1, true), (0, 6, false)] {
            seeds.push((ver, vec![Elem::Publish { qos, topic: "a".into(), pid: 2, payload, seed: 5, props }]));
        }
        seeds.push((ver, vec![Elem::Publish { qos: 0, topic: "a".into(), pid: 1, payload: 2, seed: 1, props: false }, Elem::Publish { qos: 0, topic: "b".into(), pid: 1, payload: 1, seed: 2, props: false }]));
    }
    let work: Vec<(u8, Vec<Elem>, u32)> = seeds
        .into_iter()
        .flat_map(|(v, e)| MIN_CHUNKS.iter().take(3).map(move |m| (v, e.clone(), *m)))
        .collect();
    par_shards(WORKERS, |shard| {
        let mut st = Stats::default();
        for (i, (ver, elems, min)) in work.iter().enumerate() {
            if i % WORKERS != shard {
                continue;
            }
            let base = build(*ver, elems, *min, Frag::Whole);
            let n = base.bytes.len();
            if n > max_len {
                continue;
            }
            for mask in 0u32..(1 << (n - 1)) {
                let cuts: Vec<usize> = (1..n).filter(|k| mask >> (k - 1) & 1 == 1).collect();
                let c = StreamCase { frag: Frag::Explicit(cuts), ..base.clone() };
                match check_stream(&c) {
                    Ok(info) => {
                        st.evaluations += 1;
                        if info.nontrivial.is_some() {
                            st.distinct_counted += 1;
                        }
                        for l in &info.labels {
                            st.label(l, 1);
                        }
                    }
                    Err(f) => {
                        st.evaluations += 1;
                        st.fail(f.with_case(to_case(&c)));
                    }
                }
            }
            st.sample(|| json!({"exhaustive_cut_sets_of": to_hex(&base.bytes), "ver": ver, "min_chunk": min, "cut_sets": 1u32 << (n - 1)}));
        }
        st
    })
}

pub fn run(ctx: &Ctx, started: Instant) -> i32 {
    let mut stats = exhaustive_cut_sets(ctx);
    let cases = ctx.tier.pick(2_000u32, 50_000);
    let rnd = par_shards(WORKERS, |shard| {
        let mut st = Stats::default();
        run_proptest(ctx.sub_seed("streams", shard), cases, &stream_strategy(), &mut st, |c| {
            let mut v = to_case(c);
            if let Some(o) = v.as_object_mut() {
                let h = o["hex"].as_str().unwrap_or("").to_owned();
                if h.len() > 160 {
                    o.insert("hex_prefix".into(), json!(format!("{}..({} bytes)", &h[..160], h.len() / 2)));
                }
            }
            v
        }, check_stream);
        // evidence samples: drop the full hex of long streams
        for s in &mut st.samples {
            if let Some(o) = s.as_object_mut() {
                if o.contains_key("hex_prefix") {
                    o.remove("hex");
                }
                if let Some(c) = o.get_mut("cuts").and_then(|c| c.as_array_mut()) {
                    if c.len() > 16 {
                        let n = c.len();
                        c.truncate(8);
                        c.push(json!(format!("... {n} cuts")));
                    }
                }
            }
        }
        st
    });
    stats.merge(rnd);
    crate::props::c10_conn::run_into(ctx, &mut stats);
    let report = Report {
        level: "exploration",
        rule: "codec level: streams of 1..6 valid spec-encoded packets (>=1 PUBLISH with payload size from {0,1,min-1,min,min+1,2*min,127,128,16383,16384,65536,300KiB,random}, \
               position dependent payload bytes, always followed by a small non-PUBLISH packet) x min_chunk_size {0,1,4,1024,32768} x fragmentation {whole, byte-at-a-time, every \
               structural offset -1/0/+1, random cut sets}; all 2^(n-1) cut sets of short streams (<=14 bytes quick, <=17 thorough); oracle: single announcement with declared size, \
               pieces concatenate to exactly the payload sent, exactly one final piece, no non-empty non-final piece below min_chunk_size, next packet decodes unchanged. \
               Non-trivial = at least one cut strictly inside a PUBLISH with payload; distinct = (version, min-chunk class, cut-position classes, payload classes); enumerated cut sets count once each"
            .into(),
        exhaustive: true,
        assumptions: vec![
            "exhaustive only for the listed short streams; other fragmentations are sampled".into(),
            "the decoder may withhold payload bytes (library waits for the whole remainder when min_chunk_size is 0): only the final accounting is judged".into(),
        ],
        extra: BTreeMap::new(),
    };
    finish(ctx, started, stats, report)
}

pub fn replay(path: &str) -> i32 {
    let case = super::load_case(path);
    if case.get("kind").and_then(|k| k.as_str()) == Some("conn") {
        return crate::props::c10_conn::replay(path, &case);
    }
    let res = serde_json::from_value::<BytesCase>(case).map_err(|e| e.to_string()).map(|c| {
        let input = from_hex(&c.hex);
        let r = if c.ver == 5 {
            decode_and_judge::<V5>(&input, &c.cuts, c.cfg, false)
        } else {
            decode_and_judge::<V3>(&input, &c.cuts, c.cfg, false)
        };
        r.map(|_| CaseInfo::trivial()).map_err(|mut f| {
            f.signature = format!("C10/{}", f.signature);
            f
        })
    });
    super::report_replay("C10", path, res)
}
