//! C13 — blocked senders are always released (no lost wake-ups).  Same op set
//! as C05, weighted towards cancellation of parked futures and back-pressure
//! toggles; liveness is judged at deterministic quiescence.

use std::collections::BTreeMap;
use std::time::Instant;

use proptest::prelude::*;
use serde::{Deserialize, Serialize};
use serde_json::json;

use crate::bed::v5::{SendKind, SendRes};
use crate::bed::*;
use crate::runner::*;
use crate::sinkbed::*;

#[derive(Clone, Debug, PartialEq, Eq, Hash, Serialize, Deserialize)]
pub struct Case {
    pub role: Role,
    pub limit: u16,
    pub ops: Vec<Op>,
    /// server roles: sink futures created (and polled once) while the handshake service is still running; true = dropped at once
    #[serde(default)]
    pub pre: Vec<(SendKind, bool)>,
    /// v5: the peer answers every second QoS 2 publish with a negative PUBREC
    #[serde(default)]
    pub neg: bool,
    /// the control service stays inside "write back-pressure enabled" notifications until the final phase
    #[serde(default)]
    pub hold_bp: bool,
    /// the receive limits admit one inbound packet at a time, and `Hold` operations keep inbound handlers suspended: while
    /// one is suspended the publish service is not ready and the dispatcher reads nothing (back-pressure may lift meanwhile)
    #[serde(default)]
    pub busy_reader: bool,
}

fn fail(c: &Case, rule: &str, detail: String) -> Failure {
    Failure::new(rule, format!("C13/{}/{rule}", c.role.name()), detail)
}

pub async fn run_case(c: Case) -> Result<CaseInfo, Failure> {
    let busy_reader = c.busy_reader;
    let mut w = World::start_pre(
        c.role,
        c.limit,
        LimitHow::Config,
        64,
        None,
        &|cfg| {
            if busy_reader {
                cfg.v3.max_receive = 1;
                let sz = std::env::var("VERIF_RS").ok().and_then(|v| v.parse().ok()).unwrap_or(1usize);
                cfg.v3.max_receive_size = sz;
                cfg.v5.max_receive_size = sz;
            }
        },
        &c.pre,
    )
    .await
    .map_err(|f| fail(&c, "harness-handshake", f.detail))?;
    w.neg_pubrec = c.neg;
    if c.hold_bp {
        w.eut.app().hold_backpressure.set(true);
    }
    let mut cancelled_parked = false;
    let mut lifted_full = false;
    let mut batch_with_waiters = false;
    let mut stream_paused = false;
    let mut trace: Vec<u8> = Vec::new();
    let mut inbound_while_stalled = false;
    let mut held = false;
    for op in &c.ops {
        if w.ended() {
            break;
        }
        // inbound traffic makes the endpoint write responses (they share the write buffer with the sends); a response that
        // falls due inside a streamed payload would end the connection (C08's subject): not generated here
        if let Op::Inbound(_) = op {
            let owed = w.streams.iter().any(|s| s.handle.is_some() && (s.accepted.len() as u32) < s.declared) || w.partial_pub_out;
            if owed {
                continue;
            }
        }
        // suspended inbound handlers (busy_reader histories): their responses come later, so no stream may be started or be
        // in progress while one is held (a response falling due inside a payload is C08's subject)
        match op {
            Op::Hold(_) if !c.busy_reader => continue,
            Op::Hold(true) if w.streams.iter().any(|s| s.handle.is_some() && (s.accepted.len() as u32) < s.declared) || w.partial_pub_out => continue,
            Op::Hold(true) => held = true,
            Op::Hold(false) => held = false,
            Op::StreamStart { .. } if held => continue,
            _ => {}
        }
        // at most one streamed publish per history (a second one is refused while the first owes payload)
        if matches!(op, Op::StreamStart { .. }) && !w.streams.is_empty() {
            continue;
        }
        // an inbound packet delivered while the peer is stalled may be handled only after the stall is lifted (the
        // dispatcher pauses under write back-pressure): its response would fall due inside a stream started meanwhile
        match op {
            Op::Inbound(_) if w.stalled => inbound_while_stalled = true,
            Op::Window(true) => inbound_while_stalled = false,
            Op::StreamStart { .. } if inbound_while_stalled => continue,
            _ => {}
        }
        if c.role.is_server() && matches!(op, Op::Send { kind: SendKind::Subscribe | SendKind::Unsubscribe, .. } | Op::Create { kind: SendKind::Subscribe | SendKind::Unsubscribe, .. }) {
            continue;
        }
        let parked = w.slots.iter().filter(|s| s.fut.is_some() && s.first_polled.is_some()).count();
        match op {
            Op::DropFut(_) if parked > 0 => cancelled_parked = true,
            Op::Window(true) if w.stalled && w.outstanding_all() >= w.limit => lifted_full = true,
            Op::Ack { n, .. } if *n > 1 && parked > 0 => batch_with_waiters = true,
            _ => {}
        }
        trace.push(match op {
            Op::Create { .. } => 1,
            Op::Send { .. } => 2,
            Op::Poll(_) => 3,
            Op::DropFut(_) => 4,
            Op::Ack { batch, .. } => 5 + u8::from(*batch),
            Op::Window(o) => 7 + u8::from(*o),
            Op::StreamStart { qos, .. } => 10 + qos % 2,
            Op::Chunk { .. } => 12,
            Op::Inbound(k) => 13 + k % 4,
            _ => 0,
        });
        w.apply(*op).await.map_err(|f| fail(&c, &f.rule, f.detail))?;
        if w.stalled && w.slots.iter().any(|s| s.chunk_of.is_some() && s.fut.is_some()) {
            stream_paused = true;
        }
    }
    if w.ended() {
        // a connection that ended is C07's subject; C13 only speaks about live connections
        w.eut.finish().await;
        return Ok(CaseInfo::trivial().label("ended-early"));
    }
    // ---- final phase: lift the stall, acknowledge everything, poll the survivors, until nothing changes
    w.apply(Op::Window(true)).await.map_err(|f| fail(&c, &f.rule, f.detail))?;
    // suspended inbound handlers finish (the back-pressure above was lifted while the publish service was not ready)
    w.apply(Op::Hold(false)).await.map_err(|f| fail(&c, &f.rule, f.detail))?;
    // a control service that was still busy with "back-pressure enabled" notifications returns only now, after the lift
    w.eut.app().release_backpressure();
    w.apply(Op::Settle).await.map_err(|f| fail(&c, &f.rule, f.detail))?;
    w.poll_all();
    w.finish_streams().await.map_err(|f| fail(&c, &f.rule, f.detail))?;
    // QoS 2 receipts still held by the application are released so that their exchanges can complete
    while w.receipts.iter().any(|r| r.2) {
        w.apply(Op::Release(0)).await.map_err(|f| fail(&c, &f.rule, f.detail))?;
    }
    let mut rounds = 0;
    loop {
        rounds += 1;
        let before = (w.requests.len(), w.acks.len(), w.slots.iter().filter(|s| s.fut.is_some()).count(), w.slots.len());
        w.apply(Op::Settle).await.map_err(|f| fail(&c, &f.rule, f.detail))?;
        let pending = w.unanswered.len() as u8;
        if pending > 0 {
            w.apply(Op::Ack { n: pending, batch: rounds % 2 == 0 }).await.map_err(|f| fail(&c, &f.rule, f.detail))?;
        }
        w.poll_all();
        w.finish_streams().await.map_err(|f| fail(&c, &f.rule, f.detail))?;
        w.apply(Op::Settle).await.map_err(|f| fail(&c, &f.rule, f.detail))?;
        while w.receipts.iter().any(|r| r.2) {
            w.apply(Op::Release(0)).await.map_err(|f| fail(&c, &f.rule, f.detail))?;
        }
        let after = (w.requests.len(), w.acks.len(), w.slots.iter().filter(|s| s.fut.is_some()).count(), w.slots.len());
        if after == before || rounds > 80 {
            break;
        }
        if w.ended() {
            break;
        }
    }
    if w.ended() {
        return Err(fail(&c, "healthy-connection-ended", format!("connection ended although the peer acknowledged correctly: stops {:?}; futures {:?}", w.eut.app().stops(), w.results_summary())));
    }
    // quiescent: nothing else can wake a parked future now
    let outstanding = w.outstanding_all();
    let backpressure = {
        let log = w.eut.app().log.borrow();
        log.iter().rev().find_map(|e| if let Ev::WrBackpressure(b) = e { Some(*b) } else { None }).unwrap_or(false)
    };
    let stuck: Vec<usize> = w.slots.iter().enumerate().filter(|(_, s)| s.fut.is_some()).map(|(i, _)| i).collect();
    // a chunk may wait only for back-pressure once the PUBLISH header of its stream is on the wire
    let header_out = matches!(w.eut.packets().1, crate::bed::v5::WireTail::Incomplete(_));
    if let Some(i) = stuck.iter().find(|i| w.slots[**i].chunk_of.is_some()).filter(|_| !backpressure && header_out) {
        return Err(Failure::new(
            "stream-stuck",
            format!("C13/{}/stream-stuck", c.role.name()),
            format!("at quiescence the payload chunk future #{i} of a streamed publish is still pending although back-pressure is off ({outstanding} of {} slots in use); futures {:?}; streams {:?}", w.limit, w.results_summary(), w.streams.iter().map(|s| (s.declared, s.accepted.len())).collect::<Vec<_>>()),
        ));
    }
    if !stuck.is_empty() && outstanding < w.limit && !backpressure {
        let woke_dropped = w.slots.iter().any(|s| s.dropped);
        return Err(Failure::new(
            "sender-stuck",
            format!("C13/{}/sender-stuck", c.role.name()),
            format!(
                "at quiescence {} sink future(s) are still pending although {outstanding} of {} slots are in use and back-pressure is off (a parked future had been dropped: {woke_dropped}); futures {:?}",
                stuck.len(),
                w.limit,
                w.results_summary()
            ),
        ));
    }
    // (a PUBREL - released by the application or written by the library for a cancelled QoS 2 send - may fall due while a
    // streamed payload is owed and is refused then, like any other packet inside a payload; that is C08's subject:
    // histories with both a stream and a QoS 2 send are not judged by this rule)
    let pubrel_during_stream = !w.streams.is_empty() && w.slots.iter().any(|s| s.kind == SendKind::Qos2);
    // the peer's window has been open since the final phase began and everything written has been taken off the transport:
    // a library that still reports write back-pressure (no "disabled" notification after the last "enabled") keeps its
    // senders parked for good
    if backpressure && !stuck.is_empty() && !w.stalled {
        return Err(Failure::new(
            "sender-stuck",
            format!("C13/{}/sender-stuck/back-pressure-never-lifted", c.role.name()),
            format!(
                "at quiescence the transport is drained and the peer reads, yet the last back-pressure notification says enabled and {} future(s) are still parked; notifications {:?}; futures {:?}",
                stuck.len(),
                w.eut.app().log.borrow().iter().filter_map(|e| if let Ev::WrBackpressure(b) = e { Some(*b) } else { None }).collect::<Vec<_>>(),
                w.results_summary()
            ),
        ));
    }
    // the peer has acknowledged every packet it received and every receipt has been released: nothing further can
    // free a slot, so a sender still parked now is parked for good - whatever the window looks like (a slot held by an
    // exchange whose send future was cancelled must not be lost)
    if let Some(i) = stuck.iter().find(|i| w.slots[**i].chunk_of.is_none()).filter(|_| !backpressure && w.unanswered.is_empty() && !header_out && !pubrel_during_stream) {
        return Err(Failure::new(
            "sender-stuck",
            format!("C13/{}/sender-stuck/peer-acknowledged-everything", c.role.name()),
            format!(
                "at quiescence the peer has acknowledged every packet it received, yet future #{i} ({:?}) is still pending: {outstanding} of {} slots are held by exchanges nobody will complete (cancelled futures: {:?}); futures {:?}",
                w.slots[*i].kind,
                w.limit,
                w.slots.iter().enumerate().filter(|(_, s)| s.dropped).map(|(k, s)| (k, s.kind)).collect::<Vec<_>>(),
                w.results_summary()
            ),
        ));
    }
    for (i, s) in w.slots.iter().enumerate() {
        // payload chunk futures fail legitimately (stream future cancelled, chunk after the end): not the subject here
        if s.dropped || s.chunk_of.is_some() {
            continue;
        }
        match &s.result {
            Some(SendRes::Err(crate::bed::v5::SendErr::StreamingCancelled)) if s.stream_of.is_some() => {}
            // refused because a streamed publish owed payload at that moment: legitimate
            Some(SendRes::Err(crate::bed::v5::SendErr::Encode(e))) if e.contains("ExpectPayload") => {}
            Some(SendRes::Err(e)) => {
                return Err(fail(&c, "send-failed", format!("future #{i} ({:?}) failed with {e:?} although the peer acknowledged everything", s.kind)));
            }
            Some(SendRes::Ready(false)) => return Err(fail(&c, "send-failed", format!("ready() future #{i} reported a dead connection"))),
            _ => {}
        }
    }
    // with nothing pending and nothing outstanding the whole window must be usable: `limit` fresh senders all reach the wire
    if stuck.is_empty() && outstanding == 0 && !backpressure && !header_out && !w.ended() {
        let before = w.requests.iter().filter(|r| r.t == 3).count();
        for _ in 0..w.limit {
            w.force_send(SendKind::Qos1);
        }
        w.apply(Op::Settle).await.map_err(|f| fail(&c, &f.rule, f.detail))?;
        let after = w.requests.iter().filter(|r| r.t == 3).count();
        if after - before != w.limit && !w.ended() {
            return Err(Failure::new(
                "sender-stuck",
                format!("C13/{}/sender-stuck", c.role.name()),
                format!("at quiescence nothing is outstanding, yet only {} of {} fresh QoS 1 senders reached the wire (credit() = {:?}): a slot of the send window was lost; futures {:?}", after - before, w.limit, w.eut.credit(), w.results_summary()),
            ));
        }
        let n = w.unanswered.len() as u8;
        if n > 0 {
            w.apply(Op::Ack { n, batch: true }).await.map_err(|f| fail(&c, &f.rule, f.detail))?;
        }
        w.poll_all();
    }
    w.eut.finish().await;
    let nt = cancelled_parked || lifted_full || batch_with_waiters || stream_paused;
    let mut info = if nt { CaseInfo::nontrivial(&(c.role, c.limit, &trace)) } else { CaseInfo::trivial() };
    if cancelled_parked {
        info.labels.push("cancelled-parked-waiter");
    }
    if lifted_full {
        info.labels.push("backpressure-lifted-window-full");
    }
    if batch_with_waiters {
        info.labels.push("ack-batch-with-waiters");
    }
    if stream_paused {
        info.labels.push("stream-paused-by-backpressure");
    }
    if w.streams.iter().any(|s| s.declared > 0 && s.accepted.len() as u32 == s.declared) {
        info.labels.push("stream-completed");
    }
    info.labels.push(c.role.name());
    Ok(info)
}

/// the kinds of C05 plus QoS 1 through the non-blocking API (`publish_ack_cb`)
fn send_kind() -> BoxedStrategy<SendKind> {
    prop_oneof![5 => Just(SendKind::Qos1), 2 => Just(SendKind::Qos2), 1 => Just(SendKind::Subscribe), 1 => Just(SendKind::Unsubscribe), 1 => Just(SendKind::Ready), 2 => Just(SendKind::NoBlock)].boxed()
}

fn op_strategy() -> BoxedStrategy<Op> {
    prop_oneof![
        6 => (send_kind(), any::<bool>()).prop_map(|(kind, again)| Op::Send { kind, again, own_id: 0 }),
        1 => (send_kind(), any::<bool>()).prop_map(|(kind, again)| Op::Create { kind, again, own_id: 0 }),
        4 => any::<u8>().prop_map(Op::Poll),
        4 => any::<u8>().prop_map(Op::DropFut),
        4 => (1u8..4, any::<bool>()).prop_map(|(n, batch)| Op::Ack { n, batch }),
        3 => any::<bool>().prop_map(Op::Window),
        1 => (0u8..4).prop_map(Op::Yield),
        1 => Just(Op::Settle),
        1 => any::<u8>().prop_map(Op::Release),
        2 => Just(Op::Send { kind: SendKind::Qos0, again: false, own_id: 0 }),
        2 => (0u8..4).prop_map(Op::Inbound),
        1 => any::<bool>().prop_map(Op::Hold),
        1 => (0u8..2).prop_map(|qos| Op::StreamStart { qos, declared: 200, bad: 0 }),
        3 => prop::sample::select(vec![1u8, 2, 2, 3, 5]).prop_map(|len| Op::Chunk { stream: 0, len }),
    ]
    .boxed()
}

fn case_strategy(role: Role) -> BoxedStrategy<Case> {
    // one history in four (server roles) starts with futures created while the handshake service is still running
    let pre = prop_oneof![3 => Just(Vec::new()), 1 => prop::collection::vec((send_kind(), any::<bool>()), 1..5)];
    (1u16..4, prop::collection::vec(op_strategy(), 3..26), pre, prop::bool::weighted(0.3), prop::bool::weighted(0.25), prop::bool::weighted(0.3)).prop_map(move |(limit, ops, pre, neg, hold_bp, busy_reader)| Case { role, limit, ops, neg: neg && role.is_v5(), hold_bp, busy_reader, pre: if role.is_server() { pre.into_iter().map(|(k, d)| (if matches!(k, SendKind::Subscribe | SendKind::Unsubscribe) { SendKind::Qos1 } else { k }, d)).collect() } else { Vec::new() } }).boxed()
}

pub fn check_case(c: &Case) -> Result<CaseInfo, Failure> {
    run_isolated("C13", c.clone(), &run_case)
}

/// deterministic histories: write back-pressure builds up and is lifted while the publish service is not ready
/// (receive limits reached by a suspended inbound handler), in every order of the three events
fn fixed_cases() -> Vec<Case> {
    let q0 = Op::Send { kind: SendKind::Qos0, again: false, own_id: 0 };
    let q1 = Op::Send { kind: SendKind::Qos1, again: false, own_id: 0 };
    let rd = Op::Send { kind: SendKind::Ready, again: false, own_id: 0 };
    let mut out = Vec::new();
    for role in Role::ALL {
        for limit in [1u16, 3] {
            for n in [8usize, 14] {
                for tail in [vec![q1], vec![rd, q1], vec![q1, rd]] {
                    for hold_bp in [false, true] {
                        // suspended handler first, then the stall
                        let mut ops = vec![Op::Hold(true), Op::Inbound(0), Op::Window(false)];
                        ops.extend(std::iter::repeat_n(q0, n));
                        // (the library notices the back-pressure and tells the control service; the senders after that park on it)
                        ops.push(Op::Settle);
                        ops.extend(tail.iter().copied());
                        ops.push(Op::Window(true));
                        ops.push(Op::Settle);
                        out.push(Case { role, limit, ops: ops.clone(), pre: Vec::new(), neg: false, hold_bp, busy_reader: true });
                        // the stall first, the inbound packet while it lasts
                        let mut ops = vec![Op::Hold(true), Op::Window(false)];
                        ops.extend(std::iter::repeat_n(q0, n));
                        ops.push(Op::Inbound(0));
                        ops.extend(tail.iter().copied());
                        ops.push(Op::Window(true));
                        ops.push(Op::Settle);
                        out.push(Case { role, limit, ops, pre: Vec::new(), neg: false, hold_bp, busy_reader: true });
                    }
                }
            }
        }
    }
    out
}

pub fn run(ctx: &Ctx, started: Instant) -> i32 {
    let per_shard = ctx.tier.pick(6_000u32, 100_000);
    let fixed = fixed_cases();
    let stats = par_shards(WORKERS, |shard| {
        let mut st = Stats::default();
        let mine: Vec<Case> = fixed.iter().enumerate().filter(|(i, _)| i % WORKERS == shard).map(|(_, c)| c.clone()).collect();
        run_list_bed("C13", mine, &mut st, |c| json!({"case": c}), run_case);
        run_proptest_bed("C13", ctx.sub_seed("rand", shard), per_shard, &case_strategy(Role::ALL[shard % 4]), &mut st, |c| json!({"case": c}), run_case);
        st
    });
    let report = Report {
        level: "exploration",
        rule: "192 deterministic histories (write back-pressure builds up and is lifted while a suspended inbound handler keeps the publish service not ready, both orders, with ready() / QoS 1 senders parked) and proptest histories of 3..25 ops for send limits 1..3: create(+poll) sink futures (QoS1, QoS2, subscribe, unsubscribe, ready(); some 'send again on completion'), QoS 0 sends (build back-pressure without taking a slot), inbound PUBLISH / PINGREQ / SUBSCRIBE whose responses share the write buffer, at most one streamed publish of 200 bytes (QoS 0/1) with chunks of 1/3/half/all owed bytes, poll in any order, drop arbitrary owned futures (parked, woken-but-unpolled), \
               correct peer acknowledgements singly or batched, peer window stall/release at any step (64-byte write watermark). Final phase: lift the stall, release held QoS 2 receipts, acknowledge everything on the wire, poll every survivor, repeat until \
               nothing changes. Final phase also supplies every owed payload byte. Oracle: at that quiescence no surviving future is pending while fewer than `limit` packets are outstanding and back-pressure is off; no payload chunk future is pending while back-pressure is off and its PUBLISH header is out; no surviving future failed; the connection is alive. \
               Non-trivial = a parked waiter was cancelled, back-pressure was lifted on a full window, an ack batch >1 arrived with waiters parked, or a payload chunk was paused by back-pressure; distinct = (role, limit, op-kind trace)"
            .into(),
        exhaustive: false,
        assumptions: vec!["liveness is decidable here because the harness owns transport and schedule: at quiescence nothing else can wake a parked future".into()],
        extra: BTreeMap::new(),
    };
    finish(ctx, started, stats, report)
}

pub fn replay(path: &str) -> i32 {
    let case = super::load_case(path);
    let res = serde_json::from_value::<Case>(case["case"].clone()).map_err(|e| e.to_string()).map(|c| check_case(&c));
    super::report_replay("C13", path, res)
}
