//! C17 — MQTT 5 topic aliases always resolve to the right topic.  Model:
//! per-connection map alias -> topic; two concurrent connections of one server
//! factory; plain handler and router; client role with ClientRouter / unrouted.

use std::collections::BTreeMap;
use std::rc::Rc;
use std::time::Instant;

use proptest::prelude::*;
use serde::{Deserialize, Serialize};
use serde_json::json;

use crate::bed::v5::{Cfg5, Eut5, enc_pub, server_pipeline};
use crate::bed::*;
use crate::runner::*;
use crate::spec::v5 as s5;

const TOPICS: [&str; 3] = ["t/a", "t/b", "u/c"];

#[derive(Clone, Copy, Debug, PartialEq, Eq, Hash, Serialize, Deserialize)]
pub enum Form {
    TopicOnly,
    /// topic + alias: bind or rebind
    Bind,
    /// alias only
    Use,
}

#[derive(Clone, Copy, Debug, PartialEq, Eq, Hash, Serialize, Deserialize)]
pub struct Pub {
    /// connection 0 or 1 (server role)
    pub conn: u8,
    pub form: Form,
    pub topic: u8,
    /// 0,1 -> alias 1,2 ; 2 -> max ; 3 -> max+1
    pub alias: u8,
    pub qos: u8,
}

#[derive(Clone, Debug, PartialEq, Eq, Hash, Serialize, Deserialize)]
pub struct Case {
    pub server: bool,
    pub router: bool,
    pub alias_max: u16,
    pub pubs: Vec<Pub>,
    /// server: the handshake service writes this Topic Alias Maximum into the CONNACK (it is then the advertised one,
    /// whatever the configured value); client: the peer's CONNACK carries this value (it limits the other direction only)
    #[serde(default)]
    pub other_max: Option<u16>,
}

impl Case {
    /// the Topic Alias Maximum the endpoint advertised for the publishes it receives
    fn advertised(&self) -> u16 {
        if self.server { self.other_max.unwrap_or(self.alias_max) } else { self.alias_max }
    }
}

fn fail(c: &Case, rule: &str, detail: String) -> Failure {
    Failure::new(rule, format!("C17/{}/{rule}", if c.server { "v5-server" } else { "v5-client" }), detail)
}

fn alias_of(p: &Pub, max: u16) -> u16 {
    match p.alias {
        0 => 1,
        1 => 2,
        2 => max.max(1),
        _ => max.saturating_add(1).max(1),
    }
}

fn route_for(c: &Case, topic: &str) -> u8 {
    if !c.router {
        return if c.server { 0 } else { 255 };
    }
    match topic {
        "t/a" => 1,
        "t/b" => 2,
        _ => {
            if c.server {
                0
            } else {
                255
            }
        }
    }
}

pub async fn run_case(c: Case) -> Result<CaseInfo, Failure> {
    let mut cfg = Cfg5 { router: c.router, max_topic_alias: c.alias_max, ..Default::default() };
    cfg.connect.topic_alias_max = if c.alias_max == 0 { None } else { Some(c.alias_max) };
    if let Some(o) = c.other_max {
        if c.server {
            cfg.hs_with = Some(crate::bed::v5::Override5 { max_qos: None, receive_max: None, topic_alias_max: Some(o), max_packet_size: None, session_expiry: None });
        } else {
            cfg.connack.topic_alias_max = (o != 0).then_some(o);
        }
    }
    let adv = c.advertised();
    let app = App::new();
    let mut conns: Vec<Eut5> = Vec::new();
    if c.server {
        let sinks = Rc::new(std::cell::RefCell::new(Vec::new()));
        let pipeline = server_pipeline(app.clone(), &cfg, sinks).await;
        for _ in 0..2 {
            let e = Eut5::attach_server(&pipeline, app.clone(), &cfg);
            e.handshake(&cfg).await;
            conns.push(e);
        }
    } else {
        let e = Eut5::start_client(&cfg).await;
        e.handshake(&cfg).await;
        conns.push(e);
    }
    let app = if c.server { app } else { conns[0].app.clone() };
    let nconn = conns.len();
    let mut maps: Vec<BTreeMap<u16, String>> = vec![BTreeMap::new(); nconn];
    let mut dead = vec![false; nconn];
    let mut expect: Vec<(u8, String, u8, u16)> = Vec::new(); // (conn, topic, route, tag)
    let mut labels: Vec<&'static str> = Vec::new();
    let mut trace: Vec<(u8, u8, u8)> = Vec::new();
    let mut both = [false, false];

    for (i, p) in c.pubs.iter().enumerate() {
        let ci = usize::from(p.conn) % nconn;
        if dead[ci] {
            continue;
        }
        both[ci.min(1)] = true;
        let alias = alias_of(p, adv);
        let topic = TOPICS[usize::from(p.topic) % 3];
        let tag = i as u16 + 1;
        let mut pb = s5::Publish5 { qos: p.qos % 2, pid: (p.qos % 2 == 1).then_some(tag), payload_len: 2, ..Default::default() };
        // model
        let verdict: Result<String, &'static str> = match p.form {
            Form::TopicOnly => {
                pb.topic = topic.to_owned();
                Ok(topic.to_owned())
            }
            Form::Bind => {
                pb.topic = topic.to_owned();
                pb.topic_alias = Some(alias);
                if alias > adv && !maps[ci].contains_key(&alias) {
                    Err("alias above the advertised maximum")
                } else {
                    if maps[ci].get(&alias).is_some_and(|t| t != topic) {
                        labels.push("rebind");
                    }
                    maps[ci].insert(alias, topic.to_owned());
                    Ok(topic.to_owned())
                }
            }
            Form::Use => {
                pb.topic_alias = Some(alias);
                match maps[ci].get(&alias) {
                    Some(t) => {
                        labels.push("alias-only-resolved");
                        Ok(t.clone())
                    }
                    None => Err("alias never bound"),
                }
            }
        };
        trace.push((ci as u8, p.form as u8, u8::from(verdict.is_ok())));
        let payload = [ci as u8, i as u8];
        let before_enters = app.pub_enters().len();
        conns[ci].peer.send(&enc_pub(&pb, &payload));
        conns[ci].settle().await;
        let enters = app.pub_enters();
        match verdict {
            Ok(t) => {
                if enters.len() != before_enters + 1 {
                    return Err(fail(&c, "not-delivered", format!("publish #{i} ({:?}, alias {alias}, topic {topic}) on connection {ci} did not reach the handler; stops {:?}", p.form, app.stops())));
                }
                let (_, seen) = enters.last().unwrap();
                if seen.topic != t {
                    return Err(fail(&c, "wrong-topic", format!("publish #{i} ({:?}, alias {alias}) on connection {ci}: handler saw topic {:?}, model resolves {t:?}", p.form, seen.topic)));
                }
                let want_route = route_for(&c, &t);
                if seen.route != want_route {
                    return Err(fail(&c, "wrong-route", format!("publish #{i}: resolved topic {t:?} handled by route {} (expected {want_route})", seen.route)));
                }
                expect.push((ci as u8, t, want_route, tag));
            }
            Err(why) => {
                labels.push(if why.contains("maximum") { "exceed-maximum" } else { "use-unbound" });
                if enters.len() != before_enters {
                    return Err(Failure::new(
                        "invalid-alias-delivered",
                        format!("C17/{}/invalid-alias-delivered/{}", if c.server { "v5-server" } else { "v5-client" }, if why.contains("maximum") { "above-maximum" } else { "unbound" }),
                        format!("publish #{i} ({why}: alias {alias}, advertised maximum {}) reached the handler with topic {:?}", adv, enters.last().map(|e| e.1.topic.clone())),
                    ));
                }
                // the connection ends with a protocol error
                let e = &conns[ci];
                let ended = e.done.is_done() || e.sink().is_some_and(|s| !s.is_open());
                let proto = app.stops().iter().any(|s| matches!(s, StopKind::Protocol(_)));
                if !ended || (!proto && (c.server || !c.router)) {
                    return Err(fail(&c, "invalid-alias-not-refused", format!("publish #{i} ({why}) did not end connection {ci} with a protocol error: ended {ended}, stops {:?}", app.stops())));
                }
                dead[ci] = true;
            }
        }
    }
    // bindings never leak: covered by the per-connection model above (a use on B of an alias bound on A is 'never bound')
    for e in &conns {
        e.app.open_all();
        e.settle().await;
        e.peer.close();
        e.settle().await;
    }
    let nt = labels.contains(&"alias-only-resolved") || labels.contains(&"rebind") || (both[0] && both[1]);
    let mut info = if nt { CaseInfo::nontrivial(&(c.server, c.router, c.alias_max, c.other_max, &trace)) } else { CaseInfo::trivial() };
    labels.sort_unstable();
    labels.dedup();
    info.labels = labels;
    if both[0] && both[1] {
        info.labels.push("two-connections");
    }
    info.labels.push(if c.server { "v5-server" } else { "v5-client" });
    Ok(info)
}

/// A PUBLISH that is dropped because the connection is already closed (handle_qos_after_disconnect) still binds its
/// alias: a later alias-only PUBLISH that is handled must resolve to it.
pub async fn run_after_close(rebind: bool) -> Result<CaseInfo, Failure> {
    let ff = |rule: &str, detail: String| Failure::new(rule, format!("C17/v5-server/{rule}"), detail);
    let mut cfg = Cfg5 { max_topic_alias: 4, handle_qos_after_disconnect: Some(0), ..Default::default() };
    cfg.connect.topic_alias_max = Some(4);
    let eut = Eut5::start_server(&cfg).await;
    eut.handshake(&cfg).await;
    let app = eut.app.clone();
    // the handler of the first publish closes the connection as soon as it is entered: the publishes pipelined behind
    // it are decoded on a connection that is already closed
    let sink = eut.sink();
    *app.on_pub_enter.borrow_mut() = Some(Rc::new(move |seq: u32| {
        if seq == 0 {
            if let Some(s) = &sink {
                s.force_close();
            }
        }
    }));
    // one write: QoS 0 bind alias 1 -> t/a (handled, gated); QoS 1 with topic t/b and alias 1 or 2 (dropped after the close);
    // QoS 0 alias-only (handled after the close)
    let alias2 = if rebind { 1 } else { 2 };
    let mut bytes = enc_pub(&s5::Publish5 { topic: "t/a".into(), topic_alias: Some(1), payload_len: 1, ..Default::default() }, &[1]);
    bytes.extend(enc_pub(&s5::Publish5 { topic: "t/b".into(), topic_alias: Some(alias2), qos: 1, pid: Some(7), payload_len: 1, ..Default::default() }, &[2]));
    bytes.extend(enc_pub(&s5::Publish5 { topic: String::new(), topic_alias: Some(alias2), payload_len: 1, ..Default::default() }, &[3]));
    eut.peer.send(&bytes);
    eut.settle().await;
    app.open_all();
    eut.settle().await;
    let enters = app.pub_enters();
    let topics: Vec<String> = enters.iter().map(|(_, s)| s.topic.clone()).collect();
    // the QoS 1 publish is dropped (only QoS 0 is handled after the close); if the alias-only one is handled it is t/b
    let handled_alias_only = enters.iter().skip(1).find(|(_, s)| s.qos == 0);
    let mut info = CaseInfo::trivial();
    if let Some((_, seen)) = handled_alias_only {
        if seen.topic != "t/b" {
            return Err(Failure::new(
                "wrong-topic-after-close",
                "C17/v5-server/wrong-topic-after-close".to_owned(),
                format!("alias {alias2} was (re)bound to t/b by a PUBLISH that was dropped after the application closed the connection; the alias-only PUBLISH handled afterwards saw {:?}; handlers saw {topics:?}", seen.topic),
            ));
        }
        info = CaseInfo::nontrivial(&("after-close", rebind)).label("alias-only-resolved-after-close");
    } else if app.stops().iter().any(|s| matches!(s, StopKind::Protocol(p) if p.contains("alias"))) {
        return Err(ff("wrong-topic-after-close", format!("alias {alias2} bound by a dropped PUBLISH was reported unknown: {:?}; handlers saw {topics:?}", app.stops())));
    }
    eut.peer.close();
    eut.settle().await;
    Ok(info)
}

fn pub_strategy() -> BoxedStrategy<Pub> {
    (0u8..2, prop_oneof![1 => Just(Form::TopicOnly), 3 => Just(Form::Bind), 3 => Just(Form::Use)], 0u8..3, 0u8..4, 0u8..2)
        .prop_map(|(conn, form, topic, alias, qos)| Pub { conn, form, topic, alias, qos })
        .boxed()
}

fn case_strategy(server: bool) -> BoxedStrategy<Case> {
    (
        any::<bool>(),
        prop::sample::select(if server { vec![0u16, 2, 16] } else { vec![0u16, 2, 16, 32] }),
        prop::collection::vec(pub_strategy(), 1..11),
        prop::sample::select(vec![None, None, None, Some(0u16), Some(1), Some(8), Some(40), Some(48)]),
    )
        .prop_map(move |(router, alias_max, pubs, other_max)| Case { server, router, alias_max, pubs, other_max })
        .boxed()
}

fn exhaustive(ctx: &Ctx) -> Stats {
    // every history of <= n publishes on one connection over (form x topic{0,1} x alias{1, max, max+1})
    let n = ctx.tier.pick(3usize, 4);
    let mut alphabet: Vec<Pub> = Vec::new();
    for form in [Form::TopicOnly, Form::Bind, Form::Use] {
        for topic in 0..2u8 {
            for alias in [0u8, 2, 3] {
                if form == Form::TopicOnly && alias != 0 {
                    continue;
                }
                if form == Form::Use && topic != 0 {
                    continue;
                }
                alphabet.push(Pub { conn: 0, form, topic, alias, qos: 0 });
            }
        }
    }
    let a = alphabet.len();
    par_shards(WORKERS, |shard| {
        let mut st = Stats::default();
        let mut work = Vec::new();
        for len in 1..=n {
            let total = a.pow(len as u32);
            let mut idx = shard;
            while idx < total {
                let mut x = idx;
                let pubs: Vec<Pub> = (0..len).map(|_| { let p = alphabet[x % a]; x /= a; p }).collect();
                for (server, router, alias_max, other_max) in [(true, false, 2u16, None), (true, true, 16, None), (false, false, 2, None), (false, true, 32, None), (true, false, 2, Some(3u16)), (false, false, 2, Some(1u16))] {
                    work.push(Case { server, router, alias_max, pubs: pubs.clone(), other_max });
                }
                idx += WORKERS;
            }
        }
        run_list_bed("C17", work, &mut st, |c| json!({"case": c}), run_case);
        st
    })
}

pub fn check_case(c: &Case) -> Result<CaseInfo, Failure> {
    run_isolated("C17", c.clone(), &run_case)
}

pub fn run(ctx: &Ctx, started: Instant) -> i32 {
    let mut stats = exhaustive(ctx);
    {
        let mut st = Stats::default();
        run_list_bed("C17", vec![false, true], &mut st, |r| json!({"after_close": r}), run_after_close);
        stats.merge(st);
    }
    let per_shard = ctx.tier.pick(8_000u32, 60_000);
    let rnd = par_shards(WORKERS, |shard| {
        let mut st = Stats::default();
        run_proptest_bed("C17", ctx.sub_seed("rand", shard), per_shard, &case_strategy(shard % 2 == 0), &mut st, |c| json!({"case": c}), run_case);
        st
    });
    stats.merge(rnd);
    let report = Report {
        level: "exploration",
        rule: "exhaustive: every history of <=3 (thorough <=4) publishes on one connection over {topic only, bind, use} x topics {t/a,t/b} x aliases {1, max, max+1} for server (plain, max 2; router, max 16) and client \
               (unrouted, CONNECT max 2; ClientRouter, max 32); random: 1..10 publishes over 3 topics x aliases {1,2,max,max+1} x QoS 0/1 interleaved on two connections of one server factory, Topic Alias Maximum {0,2,16} \
               (client {0,2,16,32}), with and without router, with the configured / CONNECT value advertised or (server) a different value written into the CONNACK by the handshake service, (client) a different value in the peer's CONNACK; plus: alias bound or rebound by a PUBLISH that is dropped after the application closed the connection (handle_qos_after_disconnect), then used. Model: per-connection alias map; handler must see the resolved topic and the route the resolved topic selects; unbound / above-maximum aliases end the \
               connection with a protocol error and never reach a handler. Non-trivial = an alias-only publish after a binding, a rebind, or traffic on both connections; distinct = (role, router, max, per-publish (conn, form, ok))"
            .into(),
        exhaustive: true,
        assumptions: vec!["payload bytes tag the connection; handlers are shared by both connections of the factory".into()],
        extra: BTreeMap::new(),
    };
    finish(ctx, started, stats, report)
}

pub fn replay(path: &str) -> i32 {
    let case = super::load_case(path);
    if let Some(r) = case["after_close"].as_bool() {
        return super::report_replay("C17", path, Ok(run_isolated("C17", r, &run_after_close)));
    }
    let res = serde_json::from_value::<Case>(case["case"].clone()).map_err(|e| e.to_string()).map(|c| check_case(&c));
    super::report_replay("C17", path, res)
}
