//! C06 — acknowledgements reach the right sender, or the connection fails
//! cleanly.  Histories of sends (automatic and caller-chosen packet ids,
//! locally failing sends) against correct and deviating acknowledgement
//! scripts; deviation matrix; packet id wrap-around run.

use std::collections::BTreeMap;
use std::time::Instant;

use proptest::prelude::*;
use serde::{Deserialize, Serialize};
use serde_json::json;

use crate::bed::v5::{SendErr, SendKind, SendRes};
use crate::bed::*;
use crate::runner::*;
use crate::sinkbed::*;
use crate::spec::v5::P5;

#[derive(Clone, Debug, PartialEq, Eq, Hash, Serialize, Deserialize)]
pub struct Case {
    pub role: Role,
    pub limit: u16,
    pub ops: Vec<Op>,
    /// v5: the peer announces a Maximum Packet Size of 64 bytes (sends above it fail locally)
    #[serde(default)]
    pub peer_max: bool,
}

fn fail(c: &Case, rule: &str, detail: String) -> Failure {
    Failure::new(rule, format!("C06/{}/{rule}", c.role.name()), detail)
}

/// does the result of a successful send equal the acknowledgement the peer sent?
fn value_matches(v5: bool, res: &SendRes, ack: &P5) -> bool {
    match (res, ack) {
        (SendRes::PubAck(got), P5::PubAck(sent)) => (!v5 && (got.pid == 0 || got.pid == sent.pid)) || got == sent,
        (SendRes::Receipt(_, got), P5::PubRec(sent)) => !v5 || got == sent,
        (SendRes::SubAck(got), P5::SubAck(sent)) => {
            if v5 {
                got == sent
            } else {
                got.codes == sent.codes
            }
        }
        (SendRes::UnsubAck(got), P5::UnsubAck(sent)) => !v5 || got == sent,
        (SendRes::Released, P5::PubComp(_)) => true,
        _ => false,
    }
}

/// oracle (a): every successful result is backed by a non-deviating acknowledgement of the right
/// type with the id of that send's request, delivered before the future resolved
fn check_ok_results(c: &Case, w: &World) -> Result<(), Failure> {
    let v5 = c.role.is_v5();
    for (i, s) in w.slots.iter().enumerate() {
        let Some(res) = &s.result else { continue };
        let want_t = match res {
            SendRes::PubAck(_) => 4,
            SendRes::Receipt(..) => 5,
            SendRes::SubAck(_) => 9,
            SendRes::UnsubAck(_) => 11,
            SendRes::Released => 7,
            _ => continue,
        };
        // request of this future on the wire
        let req = if let Some(send_slot) = s.release_of {
            let id = w.requests.iter().find(|r| r.t == 3 && r.tag == Some(send_slot)).map(|r| r.id);
            w.requests.iter().find(|r| r.t == 6 && Some(r.id) == id)
        } else {
            w.requests.iter().find(|r| r.tag == Some(i) && r.t != 6)
        };
        let Some(req) = req else {
            return Err(fail(c, "ok-without-request", format!("future #{i} ({:?}) resolved {res:?} but its packet never reached the wire", s.kind)));
        };
        let ack = w.acks.iter().find(|a| a.dev.is_none() && a.t == want_t && a.id == req.id && a.for_req.as_ref().is_some_and(|q| q.pos == req.pos) && Some(a.step) <= s.resolved);
        let Some(ack) = ack else {
            let deviating: Vec<String> = w.acks.iter().filter(|a| a.dev.is_some()).map(|a| format!("{:?} type {} id {}", a.dev, a.t, a.id)).collect();
            return Err(Failure::new(
                "ok-without-matching-ack",
                format!("C06/{}/ok-without-matching-ack", c.role.name()),
                format!("future #{i} ({:?}, packet id {}) completed successfully ({res:?}) although the peer never sent a matching acknowledgement of type {want_t}; deviating acks {deviating:?}", s.kind, req.id),
            ));
        };
        if !value_matches(v5, res, &ack.pkt) {
            return Err(fail(c, "ack-contents", format!("future #{i} returned {res:?}, the peer's acknowledgement was {:?}", ack.pkt)));
        }
    }
    Ok(())
}

/// oracle (b): ids of concurrently outstanding requests are non-zero and pairwise distinct
fn check_ids(c: &Case, w: &World) -> Result<(), Failure> {
    for (k, r) in w.requests.iter().enumerate() {
        if r.t == 6 {
            continue;
        }
        if r.id == 0 {
            return Err(fail(c, "packet-id-zero", format!("request #{k} on the wire has packet id 0")));
        }
        // finished when its final acknowledgement was sent by the peer (position in ack log)
        for r2 in w.requests[..k].iter().filter(|q| q.t != 6 && q.id == r.id) {
            // r2 must have been finally acknowledged before r appeared on the wire
            let fin = w.acks.iter().any(|a| {
                a.dev.is_none()
                    && a.id == r2.id
                    && match (r2.t, r2.qos) {
                        (3, 1) => a.t == 4 && a.for_req.as_ref().is_some_and(|q| q.pos == r2.pos),
                        (3, _) => (a.t == 7 && a.for_req.as_ref().is_some_and(|q| q.pos > r2.pos && q.pos < r.pos)) || (a.t == 5 && a.reason >= 0x80),
                        (8, _) => a.t == 9 && a.for_req.as_ref().is_some_and(|q| q.pos == r2.pos),
                        _ => a.t == 11 && a.for_req.as_ref().is_some_and(|q| q.pos == r2.pos),
                    }
            });
            if !fin {
                return Err(Failure::new(
                    "packet-id-reused-while-outstanding",
                    format!("C06/{}/packet-id-reused-while-outstanding", c.role.name()),
                    format!("packet id {} appears again on the wire (request #{k}) while an earlier exchange with it is unfinished", r.id),
                ));
            }
        }
    }
    Ok(())
}

pub async fn run_case(c: Case) -> Result<CaseInfo, Failure> {
    let mut w = World::start_with(c.role, c.limit, LimitHow::Config, 0, c.peer_max.then_some(64)).await.map_err(|f| fail(&c, "harness-handshake", f.detail))?;
    w.flavor = true;
    let mut local_failure = false;
    let mut two_outstanding_at_ack = false;
    let mut trace: Vec<u8> = Vec::new();
    for op in &c.ops {
        if w.ended() {
            break;
        }
        if c.role.is_server() && matches!(op, Op::Send { kind: SendKind::Subscribe | SendKind::Unsubscribe, .. } | Op::SendBad { kind: SendKind::Subscribe | SendKind::Unsubscribe, .. }) {
            continue;
        }
        // traffic of the peer's own: a QoS 2 PUBLISH that carries the packet id of the newest outbound publish (16), later its
        // PUBREL (7); one such exchange at a time; servers only (clients answer QoS 2 with PUBACK, known finding of C03)
        if let Op::Inbound(k) = op {
            if !c.role.is_server() || (*k == 7 && w.inbound_qos2 == 0) || (*k == 16 && w.inbound_qos2 != 0) || !matches!(*k, 7 | 16) {
                continue;
            }
        }
        // streamed sends appear only as locally failing starts (over-long topic, packet id in use)
        if let Op::StreamStart { qos, bad, .. } = op {
            // (with a full window the start would park and run later, when the id may be free again)
            let id_in_use = *bad == 2 && qos % 2 == 1 && w.unanswered.iter().any(|qi| w.requests[*qi].t != 6) && w.eut.credit().is_some_and(|c| c > 0);
            if *bad != 1 && !id_in_use {
                continue;
            }
        }
        let acks_before = w.acks.len();
        trace.push(match op {
            Op::Send { kind, own_id, .. } => 10 + *kind as u8 + if *own_id != 0 { 50 } else { 0 },
            Op::SendBad { .. } => 2,
            Op::StreamStart { qos, bad, .. } => 130 + qos % 2 + 2 * bad,
            Op::Chunk { .. } => 140,
            Op::StreamDrop(_) => 141,
            Op::Poll(_) => 3,
            Op::Ack { batch, .. } => 5 + u8::from(*batch),
            Op::AckDev(d) => match d {
                Dev::WrongType(t) => 100 + t,
                Dev::WrongId => 120,
                Dev::Duplicate => 121,
                Dev::Reorder => 122,
            },
            _ => 0,
        });
        w.apply(*op).await.map_err(|f| fail(&c, &f.rule, f.detail))?;
        if let Op::Inbound(7) = op {
            w.inbound_qos2 = 0;
        }
        // requests that were on the wire and unanswered when the peer wrote this acknowledgement
        if w.acks.len() > acks_before && w.acks.len() - acks_before + w.unanswered.len() >= 2 {
            two_outstanding_at_ack = true;
        }
        w.poll_all();
        if w.slots.iter().any(|s| matches!(&s.result, Some(SendRes::Err(SendErr::Encode(_) | SendErr::PacketIdInUse(_))))) || w.streams.iter().any(|s| s.start_err.is_some()) {
            local_failure = true;
        }
        check_ok_results(&c, &w)?;
        check_ids(&c, &w)?;
    }
    w.apply(Op::Settle).await.map_err(|f| fail(&c, &f.rule, f.detail))?;
    w.poll_all();
    check_ok_results(&c, &w)?;
    check_ids(&c, &w)?;

    if w.deviated {
        // (c) clean failure: exactly one Stop(Protocol), every pending future resolves Disconnected
        w.apply(Op::Settle).await.map_err(|f| fail(&c, &f.rule, f.detail))?;
        w.poll_all();
        let stops = w.eut.app().stops();
        if stops.len() != 1 || !matches!(stops[0], StopKind::Protocol(_)) {
            let dev: Vec<String> = w.acks.iter().filter(|a| a.dev.is_some()).map(|a| format!("{:?}->type {} id {}", a.dev, a.t, a.id)).collect();
            return Err(Failure::new(
                "deviation-not-protocol-error",
                format!("C06/{}/deviation-not-protocol-error", c.role.name()),
                format!("after the deviating acknowledgement {dev:?} the control service saw {stops:?}; futures {:?}", w.results_summary()),
            ));
        }
        if let Some((i, _)) = w.slots.iter().enumerate().find(|(_, s)| s.fut.is_some()) {
            return Err(fail(&c, "pending-after-failure", format!("future #{i} is still pending after the connection failed; futures {:?}", w.results_summary())));
        }
        w.eut.finish().await;
    } else {
        // (d) converse: a correct peer completes everything that reached the wire
        while w.receipts.iter().any(|r| r.2) {
            w.apply(Op::Release(0)).await.map_err(|f| fail(&c, &f.rule, f.detail))?;
        }
        let mut rounds = 0;
        loop {
            rounds += 1;
            let before = (w.requests.len(), w.acks.len(), w.slots.iter().filter(|s| s.fut.is_some()).count());
            w.apply(Op::Settle).await.map_err(|f| fail(&c, &f.rule, f.detail))?;
            let n = w.unanswered.len() as u8;
            if n > 0 {
                w.apply(Op::Ack { n, batch: rounds % 2 == 1 }).await.map_err(|f| fail(&c, &f.rule, f.detail))?;
            }
            w.poll_all();
            while w.receipts.iter().any(|r| r.2) {
                w.apply(Op::Release(0)).await.map_err(|f| fail(&c, &f.rule, f.detail))?;
            }
            let after = (w.requests.len(), w.acks.len(), w.slots.iter().filter(|s| s.fut.is_some()).count());
            if before == after || rounds > 60 || w.ended() {
                break;
            }
        }
        check_ok_results(&c, &w)?;
        if w.ended() {
            return Err(Failure::new(
                "correct-peer-connection-ended",
                format!("C06/{}/correct-peer-connection-ended", c.role.name()),
                format!("the peer acknowledged everything correctly and in order but the connection ended: {:?}; local failure before: {local_failure}; futures {:?}", w.eut.app().stops(), w.results_summary()),
            ));
        }
        for (i, s) in w.slots.iter().enumerate() {
            let on_wire = w.requests.iter().any(|r| r.tag == Some(i) && r.t != 6);
            if on_wire && !s.dropped {
                match &s.result {
                    Some(SendRes::PubAck(_) | SendRes::Receipt(..) | SendRes::SubAck(_) | SendRes::UnsubAck(_)) => {}
                    other => {
                        return Err(fail(&c, "acknowledged-send-not-ok", format!("future #{i} ({:?}) reached the wire and was acknowledged but ended as {other:?}; futures {:?}", s.kind, w.results_summary())));
                    }
                }
            }
        }
        if let Some((i, s)) = w.slots.iter().enumerate().find(|(_, s)| s.chunk_of.is_none() && matches!(&s.result, Some(SendRes::Err(SendErr::Encode(e))) if e.contains("ExpectPayload"))) {
            return Err(Failure::new(
                "send-refused-after-local-failure",
                format!("C06/{}/send-refused-after-local-failure", c.role.name()),
                format!("send #{i} ({:?}) was refused with ExpectPayload although no streamed publish was ever started successfully (streams: {:?}); futures {:?}", s.kind, w.streams.iter().map(|s| (s.qos, s.start_err.clone())).collect::<Vec<_>>(), w.results_summary()),
            ));
        }
        // every exchange has finished: each of the caller-chosen identifiers can be used again, whatever failed locally before
        if !w.ended() {
            // (0 = an automatic id after the caller-chosen ones, 254 / 255 = the top of the range, 65 534 / 65 535)
            for id in [1u8, 2, 3, 254, 255, 0, 0] {
                w.force_send_own(SendKind::Qos1, id);
                let slot = w.slots.len() - 1;
                w.apply(Op::Settle).await.map_err(|f| fail(&c, &f.rule, f.detail))?;
                let n = w.unanswered.len() as u8;
                if n > 0 {
                    w.apply(Op::Ack { n, batch: false }).await.map_err(|f| fail(&c, &f.rule, f.detail))?;
                }
                w.poll_all();
                if !matches!(w.slots[slot].result, Some(SendRes::PubAck(_))) {
                    return Err(Failure::new(
                        "free-id-refused",
                        format!("C06/{}/free-id-refused", c.role.name()),
                        format!("nothing is outstanding, yet a QoS 1 publish with the caller-chosen packet id {id} (0 = automatic, 254 / 255 = 65534 / 65535) ended as {:?}; local failure before: {local_failure}; futures {:?}", w.slots[slot].result, w.results_summary()),
                    ));
                }
            }
        }
        if w.eut.credit() != Some(w.limit) {
            return Err(Failure::new(
                "credit-not-restored",
                format!("C06/{}/credit-not-restored", c.role.name()),
                format!("everything acknowledged but credit() = {:?} (limit {}); local failure before: {local_failure}; futures {:?}", w.eut.credit(), w.limit, w.results_summary()),
            ));
        }
        w.eut.finish().await;
    }
    let nt = two_outstanding_at_ack || w.deviated || (local_failure && w.acks.iter().any(|a| a.dev.is_none()));
    let mut info = if nt { CaseInfo::nontrivial(&(c.role, &trace)) } else { CaseInfo::trivial() };
    if w.deviated {
        info.labels.push("deviation");
    }
    if local_failure {
        info.labels.push("local-failure");
    }
    if two_outstanding_at_ack {
        info.labels.push("two-outstanding-at-ack");
    }
    info.labels.push(c.role.name());
    Ok(info)
}

fn op_strategy() -> BoxedStrategy<Op> {
    let kind = prop_oneof![4 => Just(SendKind::Qos1), 3 => Just(SendKind::Qos2), 2 => Just(SendKind::Subscribe), 2 => Just(SendKind::Unsubscribe), 2 => Just(SendKind::NoBlock)];
    let kind2 = prop_oneof![2 => Just(SendKind::Qos1), 1 => Just(SendKind::Qos0), 1 => Just(SendKind::Subscribe), 1 => Just(SendKind::NoBlock)];
    prop_oneof![
        8 => (kind, prop_oneof![10 => Just(0u8), 4 => 1u8..4, 1 => Just(254u8), 1 => Just(255u8)]).prop_map(|(kind, own_id)| Op::Send { kind, again: false, own_id }),
        1 => (0u8..2, 1u8..3).prop_map(|(qos, bad)| Op::StreamStart { qos, declared: 3, bad }),
        1 => prop_oneof![Just(Op::StreamDrop(0)), Just(Op::Chunk { stream: 0, len: 1 })],
        1 => (kind2, 0u8..3, prop_oneof![2 => Just(0u8), 1 => 1u8..4]).prop_map(|(kind, how, own)| Op::SendBad { kind, how: how | own << 2 }),
        4 => (1u8..4, any::<bool>()).prop_map(|(n, batch)| Op::Ack { n, batch }),
        2 => prop_oneof![
            3 => prop::sample::select(vec![4u8, 5, 7, 9, 11]).prop_map(Dev::WrongType),
            1 => Just(Dev::WrongId),
            1 => Just(Dev::Duplicate),
            1 => Just(Dev::Reorder),
        ]
        .prop_map(Op::AckDev),
        2 => any::<u8>().prop_map(Op::Release),
        1 => any::<u8>().prop_map(Op::DropReceipt),
        1 => Just(Op::Settle),
        1 => prop_oneof![Just(Op::Inbound(16)), Just(Op::Inbound(7))],
    ]
    .boxed()
}

fn case_strategy(role: Role) -> BoxedStrategy<Case> {
    (2u16..6, prop::collection::vec(op_strategy(), 2..16), any::<bool>(), any::<bool>())
        .prop_map(move |(limit, mut ops, with_dev, peer_max)| {
            if !with_dev {
                ops.retain(|o| !matches!(o, Op::AckDev(_)));
            } else {
                // keep a single deviation: everything after it is connection teardown anyway
                let mut seen = false;
                ops.retain(|o| {
                    if matches!(o, Op::AckDev(_)) {
                        if seen {
                            return false;
                        }
                        seen = true;
                    }
                    true
                });
            }
            Case { role, limit, ops, peer_max: peer_max && role.is_v5() }
        })
        .boxed()
}

/// every send kind x every acknowledgement type x position <= 3
fn deviation_matrix() -> Vec<Case> {
    let mut out = Vec::new();
    for role in Role::ALL {
        for kind in [SendKind::Qos1, SendKind::Qos2, SendKind::Subscribe, SendKind::Unsubscribe, SendKind::NoBlock] {
            if role.is_server() && matches!(kind, SendKind::Subscribe | SendKind::Unsubscribe) {
                continue;
            }
            for t in [4u8, 5, 7, 9, 11] {
                for pos in 0..3usize {
                    let mut ops = Vec::new();
                    for _ in 0..pos {
                        ops.push(Op::Send { kind: SendKind::Qos1, again: false, own_id: 0 });
                    }
                    ops.push(Op::Send { kind, again: false, own_id: 0 });
                    ops.push(Op::Send { kind: SendKind::Qos1, again: false, own_id: 0 });
                    if pos > 0 {
                        ops.push(Op::Ack { n: pos as u8, batch: pos == 2 });
                    }
                    ops.push(Op::AckDev(Dev::WrongType(t)));
                    out.push(Case { role, limit: 5, ops: ops.clone(), peer_max: false });
                    // second leg of QoS 2: wrong type instead of PUBCOMP
                    if kind == SendKind::Qos2 {
                        let mut ops2 = ops.clone();
                        ops2.pop();
                        ops2.push(Op::Ack { n: 1, batch: false });
                        ops2.push(Op::Release(0));
                        ops2.push(Op::AckDev(Dev::WrongType(t)));
                        out.push(Case { role, limit: 5, ops: ops2, peer_max: false });
                    }
                }
            }
            for dev in [Dev::WrongId, Dev::Duplicate, Dev::Reorder] {
                out.push(Case {
                    role,
                    limit: 5,
                    ops: vec![Op::Send { kind, again: false, own_id: 0 }, Op::Send { kind: SendKind::Qos1, again: false, own_id: 0 }, Op::Ack { n: 1, batch: false }, Op::AckDev(dev)],
                    peer_max: false,
                });
                out.push(Case { role, limit: 5, ops: vec![Op::Send { kind, again: false, own_id: 0 }, Op::Send { kind: SendKind::Qos1, again: false, own_id: 0 }, Op::AckDev(dev)], peer_max: false });
            }
        }
        // a send of every kind failing for every local cause (over-long topic, over-long user property, over the peer's maximum), then traffic
        for kind in [SendKind::Qos0, SendKind::Qos1, SendKind::Qos2, SendKind::Subscribe, SendKind::Unsubscribe, SendKind::NoBlock] {
            if role.is_server() && matches!(kind, SendKind::Subscribe | SendKind::Unsubscribe) {
                continue;
            }
            for how in 0..3u8 {
                let q1 = Op::Send { kind: SendKind::Qos1, again: false, own_id: 0 };
                out.push(Case { role, limit: 5, ops: vec![q1, Op::SendBad { kind, how }, q1, Op::Ack { n: 2, batch: false }, q1, Op::Ack { n: 1, batch: false }], peer_max: role.is_v5() });
            }
        }
        // a streamed publish that fails to start, then the handle is used / dropped, then ordinary traffic
        for qos in 0..2u8 {
            for bad in 1..3u8 {
                for tail in [vec![], vec![Op::StreamDrop(0)], vec![Op::Chunk { stream: 0, len: 1 }, Op::StreamDrop(0)]] {
                    let q1 = Op::Send { kind: SendKind::Qos1, again: false, own_id: 0 };
                    let mut ops = vec![q1, Op::StreamStart { qos, declared: 3, bad }];
                    ops.extend(tail);
                    ops.extend([q1, Op::Send { kind: SendKind::Qos2, again: false, own_id: 0 }, Op::Ack { n: 3, batch: false }]);
                    out.push(Case { role, limit: 5, ops, peer_max: false });
                }
            }
        }
        // the same packet id in flight in both directions: the peer's own QoS 2 exchange with id N is untouched by the
        // acknowledgements of the endpoint's publish N
        if role.is_server() {
            for kind in [SendKind::Qos2, SendKind::Qos1] {
                for early in [false, true] {
                    let mut ops = vec![Op::Send { kind, again: false, own_id: 0 }, Op::Settle];
                    if early {
                        ops.push(Op::Inbound(16));
                    }
                    ops.push(Op::Ack { n: 1, batch: false });
                    if !early {
                        ops.push(Op::Inbound(16));
                    }
                    ops.extend([Op::Release(0), Op::Ack { n: 1, batch: false }, Op::Inbound(7), Op::Send { kind: SendKind::Qos1, again: false, own_id: 0 }, Op::Ack { n: 1, batch: false }]);
                    out.push(Case { role, limit: 3, ops, peer_max: false });
                }
            }
        }
        // unsolicited acknowledgements with nothing outstanding
        for t in [4u8, 5, 7, 9, 11] {
            out.push(Case { role, limit: 3, ops: vec![Op::AckDev(Dev::WrongType(t))], peer_max: false });
        }
    }
    out
}

/// packet identifiers across the 65535 -> 1 wrap with a window of 3
async fn wrap_run(role: Role) -> Result<CaseInfo, Failure> {
    let c = Case { role, limit: 3, ops: Vec::new(), peer_max: false };
    let mut w = World::start(role, 3, LimitHow::Config, 0).await.map_err(|f| fail(&c, "harness-handshake", f.detail))?;
    let total = 65_545usize;
    let mut sent = 0usize;
    while sent < total {
        for _ in 0..3 {
            w.apply(Op::Send { kind: SendKind::Qos1, again: false, own_id: 0 }).await.map_err(|f| fail(&c, &f.rule, f.detail))?;
            sent += 1;
        }
        yields(4).await;
        w.eut.peer().pump();
        w.absorb().map_err(|f| fail(&c, &f.rule, f.detail))?;
        // acknowledge the batch in one write (cheap path: no full settle)
        let mut bytes = Vec::new();
        while let Some(qi) = w.unanswered.pop_front() {
            let r = w.requests[qi].clone();
            if r.id == 0 {
                return Err(fail(&c, "packet-id-zero", format!("automatic packet id 0 after {sent} sends")));
            }
            bytes.extend_from_slice(&w.eut.encode(&P5::PubAck(crate::spec::v5::Ack5 { pid: r.id, ..Default::default() }), &[]));
        }
        w.eut.peer().send(&bytes);
        yields(6).await;
        w.poll_all();
        if w.slots.iter().any(|s| s.fut.is_some()) {
            w.eut.settle().await;
            w.poll_all();
        }
        if let Some((i, s)) = w.slots.iter().enumerate().find(|(_, s)| !matches!(s.result, Some(SendRes::PubAck(_)))) {
            return Err(fail(&c, "wrap-send-failed", format!("send #{} around id wrap ended as {:?} (pending: {}); stops {:?}", sent - 3 + i, s.result, s.fut.is_some(), w.eut.app().stops())));
        }
        // ids within the window are distinct and non-zero
        let ids: Vec<u16> = w.requests.iter().rev().take(3).map(|r| r.id).collect();
        if ids.len() == 3 && (ids[0] == ids[1] || ids[1] == ids[2] || ids[0] == ids[2]) {
            return Err(fail(&c, "packet-id-reused-while-outstanding", format!("ids {ids:?} within one window")));
        }
        w.slots.clear();
        if w.requests.len() > 64 {
            w.requests.clear();
            w.acks.clear();
            w.seen = w.eut.packets().0.len();
            // drop the captured wire to keep parsing cheap
            w.eut.peer().wire.borrow_mut().clear();
            w.seen = 0;
        }
    }
    if w.ended() {
        return Err(fail(&c, "correct-peer-connection-ended", format!("{:?}", w.eut.app().stops())));
    }
    w.eut.finish().await;
    Ok(CaseInfo::nontrivial(&(role, "wrap")).label("id-wrap-around"))
}

pub fn check_case(c: &Case) -> Result<CaseInfo, Failure> {
    run_isolated("C06", c.clone(), &run_case)
}

pub fn run(ctx: &Ctx, started: Instant) -> i32 {
    let matrix = deviation_matrix();
    let per_shard = ctx.tier.pick(8_000u32, 100_000);
    let stats = par_shards(WORKERS, |shard| {
        let mut st = Stats::default();
        let mine: Vec<Case> = matrix.iter().enumerate().filter(|(i, _)| i % WORKERS == shard).map(|(_, c)| c.clone()).collect();
        run_list_bed("C06", mine, &mut st, |c| json!({"case": c}), run_case);
        if shard < 4 {
            let role = Role::ALL[shard];
            match crate::bed::run_isolated("C06", role, &wrap_run) {
                Ok(info) => {
                    st.record(&info);
                    st.sample(|| json!({"wrap_around_run": role.name(), "sends": 65_545, "window": 3}));
                }
                Err(f) => {
                    st.evaluations += 1;
                    st.fail(f.with_case(json!({"kind": "wrap", "role": role})));
                }
            }
        }
        run_proptest_bed("C06", ctx.sub_seed("rand", shard), per_shard, &case_strategy(Role::ALL[shard % 4]), &mut st, |c| json!({"case": c}), run_case);
        st
    });
    let report = Report {
        level: "exploration",
        rule: format!(
            "deviation matrix ({} cases): every send kind x every acknowledgement type at positions 0..2 (also for the second QoS 2 leg), wrong id / duplicate / reordered / unsolicited acknowledgements; one run of 65545 automatic packet ids with window 3 \
             across the 65535->1 wrap per role; proptest histories of 2..15 ops: sends of QoS1/QoS2/subscribe/unsubscribe with automatic or caller-chosen ids 1..3 (collisions) and 65534 / 65535, locally failing sends (70000-byte topic or filter, 66000-byte user property, v5: packet above the peer's Maximum Packet Size of 64), acks singly/batched with generated v5 contents (PUBACK / PUBREC reason codes, PUBCOMP with 0x92, reason strings, user properties), servers: a QoS 2 exchange of the peer's own that carries the same packet id as an outbound publish, \
             (reason codes, reason strings, user properties, SUBACK lists), at most one deviation, releases and receipt drops. Oracle: a future resolves Ok only after a non-deviating acknowledgement of the right type and id was sent, and returns its contents; \
             outstanding ids non-zero and distinct; a deviation yields exactly one Stop(Protocol) and resolves every pending future; a correct peer completes everything on the wire, keeps the connection and restores credit(), also after local failures. \
             Non-trivial = >=2 requests outstanding at an ack, a deviation, a local failure followed by acknowledged traffic, or the wrap run; distinct = (role, op trace)",
            matrix.len()
        ),
        exhaustive: false,
        assumptions: vec![
            "out-of-order PUBCOMPs between two released QoS 2 exchanges are not judged (PUBCOMP is matched by id; the specification does not order PUBCOMPs)".into(),
            "mixing automatic and caller-chosen ids may make a later send fail with PacketIdInUse (documented); such sends never reach the wire and are not required to succeed".into(),
        ],
        extra: BTreeMap::new(),
    };
    finish(ctx, started, stats, report)
}

pub fn replay(path: &str) -> i32 {
    let case = super::load_case(path);
    if case.get("kind").and_then(|k| k.as_str()) == Some("wrap") {
        let role: Role = serde_json::from_value(case["role"].clone()).unwrap_or(Role::V5Server);
        return super::report_replay("C06", path, Ok(crate::bed::run_isolated("C06", role, &wrap_run)));
    }
    let res = serde_json::from_value::<Case>(case["case"].clone()).map_err(|e| e.to_string()).map(|c| check_case(&c));
    super::report_replay("C06", path, res)
}
