//! C10, connection level (filled in once the in-memory test bed exists).
use crate::runner::{Ctx, Stats};

pub fn run_into(_ctx: &Ctx, _stats: &mut Stats) {}

pub fn replay(path: &str, _case: &serde_json::Value) -> i32 {
    eprintln!("connection-level replay not available: {path}");
    2
}
