//! C10, connection level: the handler that reads the payload receives exactly
//! the bytes sent, for every fragmentation of the inbound stream, every
//! min_chunk_size / payload buffer setting and every reader pace.

use proptest::prelude::*;
use serde::{Deserialize, Serialize};
use serde_json::json;

use crate::bed::any::{Cfg, Eut};
use crate::bed::v5::WireTail;
use crate::bed::*;
use crate::runner::*;
use crate::spec::v5::{self as s5, P5};
use crate::spec::wire;

#[derive(Clone, Copy, Debug, PartialEq, Eq, Hash, Serialize, Deserialize)]
pub struct PubSpec {
    pub size: u32,
    pub read: ReadPlan,
    /// the handler waits for the driver before it finishes (and, for the lazy plans, before it reads)
    pub deferred: bool,
}

#[derive(Clone, Debug, PartialEq, Eq, Hash, Serialize, Deserialize)]
pub struct Case {
    pub role: Role,
    pub min_chunk: u32,
    pub max_buffer: usize,
    pub pubs: Vec<PubSpec>,
    /// 0 whole stream in one write, 1 one byte per write, 2 the given cut offsets, 3 every frame boundary -1/0/+1
    pub mode: u8,
    pub cuts: Vec<u16>,
    /// inbound in-flight limits: 0 defaults (16 packets / 65535 bytes), 1 one packet at a time (v3 middleware),
    /// 2 64 bytes in flight, 3 no limits: payload chunks must get through whatever the limits are
    #[serde(default)]
    pub recv: u8,
}

fn fail(c: &Case, rule: &str, detail: String) -> Failure {
    Failure::new(rule, format!("C10/conn/{}/{rule}", c.role.name()), detail)
}

pub async fn run_case(c: Case) -> Result<CaseInfo, Failure> {
    let mut cfg = Cfg::default();
    cfg.v3.min_chunk_size = c.min_chunk;
    cfg.v5.min_chunk_size = c.min_chunk;
    cfg.v3.max_payload_buffer = c.max_buffer;
    cfg.v5.max_payload_buffer = c.max_buffer;
    cfg.v3.max_size = 0;
    cfg.v5.max_size = 0;
    match c.recv % 4 {
        1 => cfg.v3.max_receive = 1,
        2 => {
            cfg.v3.max_receive_size = 64;
            cfg.v5.max_receive_size = 64;
        }
        3 => {
            cfg.v3.max_receive = 0;
            cfg.v3.max_receive_size = 0;
            cfg.v5.max_receive_size = 0;
        }
        _ => {}
    }
    let eut = Eut::start(c.role, &cfg).await;
    eut.handshake(&cfg).await;
    if eut.done().is_some() {
        return Err(fail(&c, "harness-handshake", format!("{:?}", eut.done())));
    }
    let app = eut.app().clone();
    // the inbound stream
    let mut stream: Vec<u8> = Vec::new();
    let mut bounds: Vec<usize> = Vec::new();
    let mut payloads: Vec<Vec<u8>> = Vec::new();
    for (i, p) in c.pubs.iter().enumerate() {
        let pid = i as u16 + 1;
        let payload = wire::payload(u32::from(pid) * 7919, p.size);
        let pb = s5::Publish5 { qos: 1, pid: Some(pid), topic: "t/a".into(), payload_len: p.size, ..Default::default() };
        stream.extend_from_slice(&eut.encode(&P5::Publish(Box::new(pb)), &payload));
        bounds.push(stream.len());
        payloads.push(payload);
        app.pub_plans.borrow_mut().insert(i as u32, PubPlan { outcome: Outcome::Ok, read: p.read });
        if p.deferred {
            app.hold(G_PUB, i as u32);
        }
    }
    if c.role.is_server() {
        stream.extend_from_slice(&eut.encode(&P5::PingReq, &[]));
    }
    // fragmentation
    let mut cuts: Vec<usize> = match c.mode % 4 {
        0 => Vec::new(),
        1 => (1..stream.len()).collect(),
        2 => c.cuts.iter().map(|x| usize::from(*x) % stream.len().max(1)).filter(|x| *x > 0).collect(),
        _ => bounds.iter().flat_map(|b| [b.saturating_sub(1), *b, b + 1]).filter(|x| *x > 0 && *x < stream.len()).collect(),
    };
    cuts.sort_unstable();
    cuts.dedup();
    let mut at = 0;
    let mut inside_payload = false;
    for cut in cuts.iter().chain(std::iter::once(&stream.len())) {
        if *cut > at {
            eut.peer().send(&stream[at..*cut]);
            at = *cut;
            eut.settle().await;
        }
        // a cut strictly inside the payload of some publish?
        let mut start = 0;
        for (i, b) in bounds.iter().enumerate() {
            let pl = payloads[i].len();
            if pl > 1 && *cut > b - pl && *cut < *b && *cut > start {
                inside_payload = true;
            }
            start = *b;
        }
    }
    app.open_all();
    for _ in 0..3 {
        eut.settle().await;
    }
    // ---- judgement
    let ev = app.events();
    let stops = app.stops();
    let describe = || format!("min_chunk {} buffer {} mode {} cuts {:?} pubs {:?}; log {:?}; stops {stops:?}", c.min_chunk, c.max_buffer, c.mode, &cuts[..cuts.len().min(12)], c.pubs, crate::props::c03::brief_log(&ev));
    if !stops.is_empty() || eut.done().is_some() {
        return Err(fail(&c, "connection-ended", format!("a valid stream ended the connection; {}", describe())));
    }
    // pieces handed to readers that take the payload piece by piece as it arrives: none but the last of a publish is
    // smaller than the configured minimum (empty pieces aside)
    if c.min_chunk > 0 {
        let pieces = app.pieces.borrow().clone();
        for (i, p) in c.pubs.iter().enumerate() {
            if p.read != ReadPlan::Eager {
                continue;
            }
            let mine: Vec<usize> = pieces.iter().filter(|(s, _)| *s == i as u32).map(|(_, l)| *l).collect();
            let total: usize = mine.iter().sum();
            if total != p.size as usize {
                continue; // judged below
            }
            if let Some(k) = (0..mine.len().saturating_sub(1)).find(|k| mine[*k] != 0 && (mine[*k] as u32) < c.min_chunk) {
                return Err(fail(&c, "piece-below-minimum", format!("publish #{i} ({} bytes): the reader was handed pieces {mine:?}; piece {k} is not the last one and smaller than the configured min_chunk_size {}; {}", p.size, c.min_chunk, describe())));
            }
        }
    }
    let enters = app.pub_enters();
    if enters.len() != c.pubs.len() {
        return Err(fail(&c, "announced-count", format!("{} publishes sent, {} handler invocations; {}", c.pubs.len(), enters.len(), describe())));
    }
    for (i, p) in c.pubs.iter().enumerate() {
        let (_, seen) = &enters[i];
        if seen.payload_size != p.size || seen.pid != Some(i as u16 + 1) {
            return Err(fail(&c, "announced-size", format!("publish #{i}: declared {} bytes, handler saw size {} id {:?}; {}", p.size, seen.payload_size, seen.pid, describe())));
        }
        let read = ev.iter().find_map(|e| if let Ev::PubRead { seq, data, end } = e { (*seq == i as u32).then_some((data.clone(), end.clone())) } else { None });
        match (p.read, read) {
            (ReadPlan::Abandon, None) => {}
            (ReadPlan::Abandon, Some(r)) => return Err(fail(&c, "harness-plan", format!("abandoning handler #{i} read {:?}", r.1))),
            (ReadPlan::ReadK(_), Some((data, end))) => {
                if !payloads[i].starts_with(&data) || matches!(end, ReadEnd::Err(_)) {
                    return Err(Failure::new(
                        "payload-differs",
                        format!("C10/conn/{}/payload-differs", c.role.name()),
                        format!("publish #{i}: partial reader got {} bytes ending {end:?} that are not a prefix of the {} bytes sent; {}", data.len(), p.size, describe()),
                    ));
                }
            }
            (_, Some((data, ReadEnd::Eof))) if data == payloads[i] => {}
            (_, other) => {
                let got = other.map(|(d, e)| (d.len(), e, d.iter().zip(payloads[i].iter()).position(|(a, b)| a != b)));
                return Err(Failure::new(
                    "payload-differs",
                    format!("C10/conn/{}/payload-differs", c.role.name()),
                    format!("publish #{i} ({} bytes, reader {:?}): handler got (length, end, first differing offset) {got:?}; {}", p.size, p.read, describe()),
                ));
            }
        }
    }
    let (pk, tail) = eut.packets();
    if !matches!(tail, WireTail::Clean) {
        return Err(fail(&c, "wire-garbage", format!("{tail:?}")));
    }
    let acks = pk.iter().filter(|w| matches!(&w.pkt, P5::PubAck(a) if a.reason == 0)).count();
    let pongs = pk.iter().filter(|w| matches!(w.pkt, P5::PingResp)).count();
    if acks != c.pubs.len() || (c.role.is_server() && pongs != 1) {
        return Err(fail(&c, "stream-desynchronised", format!("{} publishes acknowledged of {}, {pongs} PINGRESP; {}", acks, c.pubs.len(), describe())));
    }
    eut.finish().await;
    let partial = c.pubs.iter().any(|p| matches!(p.read, ReadPlan::Abandon | ReadPlan::ReadK(_)) && p.size > 0);
    let lazy = c.pubs.iter().any(|p| matches!(p.read, ReadPlan::Lazy | ReadPlan::LazyAll) && p.deferred && p.size > 0);
    let mut info = if inside_payload { CaseInfo::nontrivial(&(c.role, c.recv % 4, c.min_chunk, c.max_buffer.min(70_000), c.mode % 4, cuts.len().min(6), c.pubs.iter().map(|p| (size_class(p.size, c.min_chunk), p.read, p.deferred)).collect::<Vec<_>>())) } else { CaseInfo::trivial() };
    info.labels.push("connection-level");
    if partial {
        info.labels.push("conn-reader-abandons");
    }
    if lazy {
        info.labels.push("conn-reader-lazy");
    }
    if c.pubs.iter().any(|p| p.size as usize > c.max_buffer) {
        info.labels.push("conn-payload-above-buffer");
    }
    Ok(info)
}

fn size_class(n: u32, min: u32) -> u8 {
    match n {
        0 => 0,
        1 => 1,
        _ if min > 1 && n < min => 2,
        _ if n == min => 3,
        _ if n < 128 => 4,
        _ if n < 1024 => 5,
        _ if n < 16_384 => 6,
        _ => 7,
    }
}

fn pub_strategy(thorough: bool) -> BoxedStrategy<PubSpec> {
    let size = if thorough {
        prop_oneof![2 => 0u32..6, 3 => 6u32..40, 2 => 120u32..135, 2 => 1000u32..1100, 1 => 16_380u32..16_390, 1 => Just(70_000u32)].boxed()
    } else {
        prop_oneof![2 => 0u32..6, 3 => 6u32..40, 2 => 120u32..135, 1 => 1000u32..1100].boxed()
    };
    let read = prop_oneof![
        3 => Just(ReadPlan::Eager),
        2 => Just(ReadPlan::Lazy),
        2 => Just(ReadPlan::EagerAll),
        2 => Just(ReadPlan::LazyAll),
        1 => Just(ReadPlan::Abandon),
        1 => (1u8..3).prop_map(ReadPlan::ReadK),
    ];
    (size, read, any::<bool>()).prop_map(|(size, read, deferred)| PubSpec { size, read, deferred }).boxed()
}

fn case_strategy(role: Role, thorough: bool) -> BoxedStrategy<Case> {
    (
        prop::sample::select(vec![0u32, 1, 4, 16, 1024, 32_768]),
        prop::sample::select(vec![8usize, 64, 32 * 1024]),
        prop::collection::vec(pub_strategy(thorough), 1..4),
        0u8..4,
        prop::collection::vec(any::<u16>(), 0..10),
        prop_oneof![3 => Just(0u8), 2 => Just(1u8), 2 => Just(2u8), 1 => Just(3u8)],
    )
        .prop_map(move |(min_chunk, max_buffer, mut pubs, mode, cuts, recv)| {
            // byte-at-a-time delivery only for short streams
            let total: u32 = pubs.iter().map(|p| p.size + 12).sum();
            let mode = if mode == 1 && total > 700 { 3 } else { mode };
            // a partial reader followed by more of its payload only makes sense when it is not also the lazy kind
            for p in &mut pubs {
                if matches!(p.read, ReadPlan::ReadK(_)) && p.size == 0 {
                    p.read = ReadPlan::Eager;
                }
            }
            Case { role, min_chunk, max_buffer, pubs, mode, cuts, recv }
        })
        .boxed()
}

/// every reader plan x every fragmentation of one short publish followed by a second one
fn fixed_cases() -> Vec<Case> {
    let mut out = Vec::new();
    for role in Role::ALL {
        for read in [ReadPlan::Eager, ReadPlan::Lazy, ReadPlan::EagerAll, ReadPlan::LazyAll, ReadPlan::Abandon, ReadPlan::ReadK(1)] {
            for deferred in [false, true] {
                for min_chunk in [0u32, 4] {
                    for mode in [0u8, 1, 3] {
                        out.push(Case { role, min_chunk, max_buffer: 8, pubs: vec![PubSpec { size: 12, read, deferred }, PubSpec { size: 5, read: ReadPlan::Eager, deferred: false }], mode, cuts: vec![], recv: 0 });
                    }
                    // three pieces of four bytes
                    out.push(Case { role, min_chunk, max_buffer: 32 * 1024, pubs: vec![PubSpec { size: 12, read, deferred }, PubSpec { size: 5, read: ReadPlan::Eager, deferred: false }], mode: 2, cuts: vec![14, 18, 22], recv: 0 });
                }
            }
        }
    }
    // the same short stream under tight in-flight limits, and one payload larger than the default 65535-byte window
    let base: Vec<Case> = out.iter().filter(|c| c.mode != 1).cloned().collect();
    for recv in [1u8, 2, 3] {
        out.extend(base.iter().cloned().map(|c| Case { recv, ..c }));
    }
    for role in Role::ALL {
        for read in [ReadPlan::Eager, ReadPlan::Lazy, ReadPlan::EagerAll, ReadPlan::LazyAll] {
            for (min_chunk, cut) in [(0u32, 20u16), (16, 30), (16, 9), (1024, 2000)] {
                out.push(Case { role, min_chunk, max_buffer: 32 * 1024, pubs: vec![PubSpec { size: 70_000, read, deferred: false }, PubSpec { size: 5, read: ReadPlan::Eager, deferred: false }], mode: 2, cuts: vec![cut, 40_000], recv: 0 });
            }
        }
    }
    out
}

pub fn run_into(ctx: &Ctx, stats: &mut Stats) {
    let thorough = ctx.tier == Tier::Thorough;
    let per_shard = ctx.tier.pick(2_500u32, 40_000);
    let fixed = fixed_cases();
    let st = par_shards(WORKERS, |shard| {
        let mut st = Stats::default();
        let mine: Vec<Case> = fixed.iter().enumerate().filter(|(i, _)| i % WORKERS == shard).map(|(_, c)| c.clone()).collect();
        run_list_bed("C10", mine, &mut st, |c| json!({"kind": "conn", "case": c}), run_case);
        run_proptest_bed("C10", ctx.sub_seed("conn", shard), per_shard, &case_strategy(Role::ALL[shard % 4], thorough), &mut st, |c| json!({"kind": "conn", "case": c}), run_case);
        st
    });
    stats.merge(st);
}

pub fn replay(path: &str, case: &serde_json::Value) -> i32 {
    let res = serde_json::from_value::<Case>(case["case"].clone()).map_err(|e| e.to_string()).map(|c| run_isolated("C10", c, &run_case));
    super::report_replay("C10", path, res)
}
