//! C03 — each inbound PUBLISH is handled once and acknowledged as its QoS
//! demands.  Stateful histories on the in-memory connection: publishes of
//! QoS 0/1/2 (inline or delivered in pieces so that the payload is streamed),
//! PUBREL sent by the scripted peer in answer to PUBREC, PINGREQ/SUBSCRIBE in
//! between, handler completions in generated order and with generated
//! outcomes; all four roles.

use std::collections::BTreeMap;
use std::time::Instant;

use proptest::prelude::*;
use serde::{Deserialize, Serialize};
use serde_json::json;

use crate::bed::any::{Cfg, Eut};
use crate::bed::v5::WirePkt;
use crate::bed::*;
use crate::runner::*;
use crate::spec::v5::{self as s5, P5};
use crate::spec::wire;

#[derive(Clone, Debug, Serialize, Deserialize, PartialEq)]
pub struct PubSpec {
    pub qos: u8,
    pub payload: u32,
    /// number of pieces the frame is delivered in (1 = one write)
    pub pieces: u8,
    pub outcome: Outcome,
    pub read: ReadPlan,
    /// handler waits for the driver (false = completes immediately)
    pub deferred: bool,
    pub retain: bool,
    pub dup: bool,
    pub topic: u8,
    /// v5: 0 = no properties, 1 = user properties + content type, 2 = many
    pub props: u8,
    /// how many steps the peer waits after seeing PUBREC before PUBREL
    pub rel_delay: u8,
}

#[derive(Clone, Debug, Serialize, Deserialize, PartialEq)]
pub struct Case {
    pub role: Role,
    pub router: bool,
    pub min_chunk: u32,
    pub pubs: Vec<PubSpec>,
    /// positions (in units of arrivals) of extra PINGREQ / SUBSCRIBE packets (server roles)
    pub extras: Vec<(u8, bool)>,
    /// ordering keys: arrival i gets keys[2i], its gate opening keys[2i+1]
    pub keys: Vec<u16>,
    /// settle after every arrival (true) or write several arrivals back to back
    pub settle_between: bool,
}

const TOPICS: [&str; 4] = ["t/a", "t/b", "u/c", "x"];

fn publish_of(c: &Case, i: usize) -> (s5::Publish5, Vec<u8>) {
    let p = &c.pubs[i];
    let mut pb = s5::Publish5 {
        dup: p.dup && p.qos > 0,
        qos: p.qos,
        retain: p.retain,
        topic: TOPICS[p.topic as usize % 4].to_owned(),
        pid: (p.qos > 0).then_some(i as u16 + 1),
        payload_len: p.payload,
        ..Default::default()
    };
    if c.role.is_v5() {
        match p.props {
            1 => {
                pb.user_props = vec![("k".into(), "v".into())];
                pb.content_type = Some("text/plain".into());
            }
            2 => {
                pb.user_props = vec![("a".into(), "1".into()), ("a".into(), "2".into()), ("".into(), "".into())];
                pb.response_topic = Some("r/t".into());
                pb.correlation = Some(vec![1, 2, 3]);
                pb.expiry = Some(60);
                pb.pfi = Some(true);
                pb.sub_ids = if c.role == Role::V5Client { vec![1, 268_435_455] } else { vec![] };
            }
            _ => {}
        }
    }
    (pb, wire::payload(i as u32 + 1, p.payload))
}

/// v5: the PUBREL for odd packet ids carries the (valid) reason code 0x92; its PUBCOMP is due all the same
fn pubrel(role: Role, pid: u16) -> P5 {
    if role.is_v5() && pid % 2 == 1 { P5::PubRel(s5::Ack5 { pid, reason: 0x92, ..Default::default() }) } else { P5::PubRel(s5::Ack5 { pid, ..Default::default() }) }
}

fn fail(c: &Case, rule: &str, detail: String) -> Failure {
    Failure::new(rule, format!("C03/{}/{rule}", c.role.name()), detail)
}

#[derive(Default, Clone)]
struct PubState {
    arrived: bool,
    rel_sent_at: Option<usize>,
    rec_seen_step: Option<usize>,
}

fn acks_for(pk: &[WirePkt], pid: u16) -> (Vec<&s5::Ack5>, Vec<&s5::Ack5>, Vec<(&s5::Ack5, usize)>) {
    let mut puback = Vec::new();
    let mut pubrec = Vec::new();
    let mut pubcomp = Vec::new();
    for w in pk {
        match &w.pkt {
            P5::PubAck(a) if a.pid == pid => puback.push(a),
            P5::PubRec(a) if a.pid == pid => pubrec.push(a),
            P5::PubComp(a) if a.pid == pid => pubcomp.push((a, w.end)),
            _ => {}
        }
    }
    (puback, pubrec, pubcomp)
}

pub async fn run_case(c: Case) -> Result<CaseInfo, Failure> {
    let mut cfg = Cfg::default();
    cfg.v3.min_chunk_size = c.min_chunk;
    cfg.v5.min_chunk_size = c.min_chunk;
    cfg.v3.router = c.router;
    cfg.v5.router = c.router;
    cfg.v5.connect.receive_max = None;
    let eut = Eut::start(c.role, &cfg).await;
    eut.handshake(&cfg).await;
    if eut.done().is_some() {
        return Err(fail(&c, "harness-handshake", format!("connection ended during handshake: {:?}", eut.done())));
    }
    let app = eut.app().clone();
    app.default_open.set(true);
    // plans: handler invocation order == arrival order (no publish is refused here)
    let n = c.pubs.len();
    // arrival order and gate order from the keys
    let mut events: Vec<(u32, bool, usize)> = Vec::new(); // (key, is_open, pub index)
    for i in 0..n {
        let ka = u32::from(*c.keys.get(2 * i).unwrap_or(&0));
        events.push((ka, false, i));
    }
    // arrivals keep their index order on the wire (packet ids are fresh anyway): sort arrivals by index
    let mut arrivals: Vec<usize> = (0..n).collect();
    arrivals.sort_by_key(|i| (*c.keys.get(2 * *i).unwrap_or(&0), *i));
    // handler seq of pub i = position in arrival order
    let mut seq_of = vec![0u32; n];
    for (pos, i) in arrivals.iter().enumerate() {
        seq_of[*i] = pos as u32;
        let p = &c.pubs[*i];
        app.pub_plans.borrow_mut().insert(pos as u32, PubPlan { outcome: p.outcome, read: p.read });
        if p.deferred {
            app.hold(G_PUB, pos as u32);
        }
    }
    // schedule: arrivals at slots 0..n; gate openings at slot derived from key (>= own arrival slot)
    let mut open_slot: Vec<Option<usize>> = vec![None; n];
    for (pos, i) in arrivals.iter().enumerate() {
        if c.pubs[*i].deferred {
            let k = usize::from(*c.keys.get(2 * *i + 1).unwrap_or(&0));
            open_slot[*i] = Some(pos + k % (n + 2 - pos.min(n)));
        }
    }
    let mut st: Vec<PubState> = vec![PubState::default(); n];
    let mut overlapped = false;
    let mut streamed = false;
    let mut step = 0usize;
    let mut failed_pub: Option<usize> = None;
    let mut known: Vec<String> = Vec::new();
    let mut early_rel = false;

    // invariant evaluated after every settle
    let check_no_early_ack = |eut: &Eut, c: &Case, seq_of: &[u32]| -> Result<(), Failure> {
        let (pk, _) = eut.packets();
        let evs = eut.app().events();
        for i in 0..c.pubs.len() {
            if c.pubs[i].qos == 0 {
                continue;
            }
            let pid = i as u16 + 1;
            let exited_ok = evs.iter().any(|e| matches!(e, Ev::PubExit { seq, outcome: Outcome::Ok } if *seq == seq_of[i]));
            if !exited_ok {
                let (a, r, comp) = acks_for(&pk, pid);
                if !comp.is_empty() {
                    return Err(Failure::new(
                        "pubcomp-before-handler-completed",
                        format!("C03/{}/pubcomp-before-handler-completed", c.role.name()),
                        format!("PUBCOMP for packet id {pid} is on the wire before the handler of that publish completed (PUBREL sent early)"),
                    ));
                }
                if a.iter().chain(r.iter()).any(|x| x.reason < 0x80) {
                    return Err(fail(c, "ack-before-handler-completed", format!("success acknowledgement for packet id {pid} on the wire before its handler completed successfully")));
                }
            }
        }
        Ok(())
    };

    let total_slots = n + 3;
    for slot in 0..total_slots {
        // arrival
        if let Some(&i) = arrivals.get(slot) {
            let (pb, payload) = publish_of(&c, i);
            let bytes = eut.encode(&P5::Publish(Box::new(pb)), &payload);
            let pieces = usize::from(c.pubs[i].pieces.max(1)).min(bytes.len().max(1));
            if pieces > 1 {
                streamed = true;
                let chunk = bytes.len().div_ceil(pieces);
                for part in bytes.chunks(chunk.max(1)) {
                    eut.peer().send(part);
                    eut.settle().await;
                }
            } else {
                eut.peer().send(&bytes);
            }
            st[i].arrived = true;
            // extras right after this arrival
            for (pos, sub) in &c.extras {
                if usize::from(*pos) == slot && c.role.is_server() {
                    if *sub {
                        eut.peer_send(&P5::Subscribe(s5::Sub5 { pid: 1000 + slot as u16, filters: vec![("a/#".into(), s5::SubOpts::default())], ..Default::default() }), &[]);
                    } else {
                        eut.peer_send(&P5::PingReq, &[]);
                    }
                }
            }
            if c.settle_between {
                eut.settle().await;
                if app.active_pub.get() >= 2 {
                    overlapped = true;
                }
                check_no_early_ack(&eut, &c, &seq_of)?;
            }
        } else {
            eut.settle().await;
        }
        // gate openings due at this slot
        for i in 0..n {
            if open_slot[i] == Some(slot) && st[i].arrived {
                if app.active_pub.get() >= 2 {
                    overlapped = true;
                }
                app.open(G_PUB, seq_of[i]);
                eut.settle().await;
                check_no_early_ack(&eut, &c, &seq_of)?;
            }
        }
        // early PUBREL: an impatient peer releases before it has seen PUBREC (the id is already in use on the server)
        for i in 0..n {
            if c.pubs[i].qos == 2 && c.pubs[i].rel_delay == 3 && c.pubs[i].deferred && c.pubs[i].outcome == Outcome::Ok && c.role.is_server() && st[i].arrived && st[i].rel_sent_at.is_none() && failed_pub.is_none() {
                let entered = eut.app().events().iter().any(|e| matches!(e, Ev::PubEnter { seq, .. } if *seq == seq_of[i]));
                let (pk, _) = eut.packets();
                let (_, rec, _) = acks_for(&pk, i as u16 + 1);
                if entered && rec.is_empty() {
                    eut.peer().pump();
                    st[i].rel_sent_at = Some(eut.peer().wire_len());
                    early_rel = true;
                    eut.peer_send(&pubrel(c.role, i as u16 + 1), &[]);
                    eut.settle().await;
                    check_no_early_ack(&eut, &c, &seq_of)?;
                }
            }
        }
        // reactive PUBREL
        let (pk, _) = eut.packets();
        for i in 0..n {
            if c.pubs[i].qos == 2 && st[i].rel_sent_at.is_none() {
                let pid = i as u16 + 1;
                let (_, rec, _) = acks_for(&pk, pid);
                if let Some(r) = rec.first() {
                    let seen = *st[i].rec_seen_step.get_or_insert(step);
                    if r.reason < 0x80 && step >= seen + usize::from(c.pubs[i].rel_delay % 3) {
                        eut.peer().pump();
                        st[i].rel_sent_at = Some(eut.peer().wire_len());
                        eut.peer_send(&pubrel(c.role, pid), &[]);
                        eut.settle().await;
                    }
                }
            }
        }
        step += 1;
    }
    // open everything that is still closed, let PUBRELs go out
    app.open_all();
    for _ in 0..4 {
        eut.settle().await;
        let (pk, _) = eut.packets();
        for i in 0..n {
            if c.pubs[i].qos == 2 && st[i].rel_sent_at.is_none() {
                let pid = i as u16 + 1;
                let (_, rec, _) = acks_for(&pk, pid);
                if rec.first().is_some_and(|r| r.reason < 0x80) {
                    st[i].rel_sent_at = Some(eut.peer().wire_len());
                    eut.peer_send(&pubrel(c.role, pid), &[]);
                }
            }
        }
    }
    eut.settle().await;
    check_no_early_ack(&eut, &c, &seq_of)?;

    // ---- final accounting
    let (pk, tail) = eut.packets();
    let evs = app.events();
    if !matches!(tail, crate::bed::v5::WireTail::Clean) {
        return Err(fail(&c, "wire-garbage", format!("endpoint output does not parse: {tail:?}")));
    }
    let enters = app.pub_enters();
    let stops = app.stops();
    // the first failing handler (in arrival order) ends the story for v3 / unmapped v5 errors
    for (pos, i) in arrivals.iter().enumerate() {
        let p = &c.pubs[*i];
        let fatal = match p.outcome {
            Outcome::Err => true,
            // (the v5 client API has no error-to-acknowledgement mapping: the bed's client handler returns the acknowledgement itself)
            Outcome::ErrAck(_) | Outcome::NegAck(_) => !c.role.is_v5() || (c.role == Role::V5Server && p.qos == 0 && matches!(p.outcome, Outcome::ErrAck(_))),
            Outcome::Ok => false,
        };
        if fatal {
            failed_pub = Some(pos);
            break;
        }
    }
    let _ = step;
    for (pos, i) in arrivals.iter().enumerate() {
        let p = &c.pubs[*i];
        let pid = *i as u16 + 1;
        let (sent, payload) = publish_of(&c, *i);
        // publishes that arrived after a fatal failure may legitimately be dropped
        let after_failure = failed_pub.is_some_and(|f| pos > f);
        let my_enters: Vec<&(u32, Seen)> = enters.iter().filter(|(s, _)| *s == pos as u32).collect();
        if my_enters.len() > 1 {
            return Err(fail(&c, "handled-twice", format!("publish #{i} entered the handler {} times", my_enters.len())));
        }
        let Some((_, seen)) = my_enters.first() else {
            if after_failure {
                continue;
            }
            return Err(fail(&c, "not-handled", format!("publish #{i} (qos {}, {} bytes) never reached the handler; log {:?}", p.qos, p.payload, brief_log(&evs))));
        };
        // what the handler saw
        let want_seen = Seen {
            topic: sent.topic.clone(),
            qos: sent.qos,
            dup: sent.dup,
            retain: sent.retain,
            pid: sent.pid,
            payload_size: sent.payload_len,
            props: c.role.is_v5().then(|| sent.clone()),
            route: seen.route,
        };
        if *seen != want_seen {
            return Err(fail(&c, "handler-saw-different-packet", format!("handler saw {seen:?}, peer sent {want_seen:?}")));
        }
        if c.router {
            let want_route = match (c.role.is_server(), sent.topic.as_str()) {
                (_, "t/a") => 1,
                (_, "t/b") => 2,
                (true, _) => 0,
                (false, _) => 255,
            };
            if seen.route != want_route {
                return Err(fail(&c, "wrong-route", format!("topic {} handled by route {} (expected {want_route})", sent.topic, seen.route)));
            }
        }
        if matches!(p.read, ReadPlan::Eager | ReadPlan::Lazy) {
            let read = evs.iter().find_map(|e| if let Ev::PubRead { seq, data, end } = e { (*seq == pos as u32).then_some((data, end)) } else { None });
            match read {
                Some((data, ReadEnd::Eof)) if *data == payload => {}
                Some((data, end)) if failed_pub.is_none() => {
                    return Err(fail(&c, "payload-differs", format!("publish #{i}: handler read {} bytes ending {end:?}, sent {} bytes", data.len(), payload.len())));
                }
                None if failed_pub.is_none() => {
                    return Err(fail(&c, "payload-differs", format!("publish #{i}: handler never finished reading")));
                }
                _ => {}
            }
        }
        let (puback, pubrec, pubcomp) = acks_for(&pk, pid);
        let exited = evs.iter().any(|e| matches!(e, Ev::PubExit { seq, .. } if *seq == pos as u32));
        if !exited {
            // a handler still running when another one failed fatally is cancelled with the connection
            if failed_pub.is_none() {
                return Err(fail(&c, "handler-not-finished", format!("publish #{i}: handler did not finish although its gate is open")));
            }
            let (a, r, _) = acks_for(&pk, pid);
            if a.iter().chain(r.iter()).any(|x| x.reason < 0x80) {
                return Err(fail(&c, "ack-before-handler-completed", format!("cancelled handler of id {pid} was acknowledged")));
            }
            continue;
        }
        let ended = eut.sink_open() == Some(false) || !stops.is_empty();
        match (p.qos, p.outcome) {
            (0, _) => {
                if !puback.is_empty() || !pubrec.is_empty() || !pubcomp.is_empty() {
                    return Err(fail(&c, "qos0-acknowledged", format!("QoS 0 publish #{i} was acknowledged")));
                }
                // a failing QoS 0 handler cannot be answered with a negative acknowledgement: the connection ends
                if failed_pub == Some(pos) {
                    let has_control = !(c.router && !c.role.is_server());
                    if has_control && stops.is_empty() {
                        return Err(Failure::new(
                            "failure-not-reported",
                            format!("C03/{}/failure-not-reported/qos0", c.role.name()),
                            format!("handler of QoS 0 publish #{i} failed ({:?}) but the connection was not ended and nothing was reported: stops {stops:?}; log {:?}", p.outcome, brief_log(&evs)),
                        ));
                    }
                }
            }
            (1, Outcome::Ok) => {
                // once the connection failed, queued acknowledgements may never be written
                if failed_pub.is_some() && puback.is_empty() && pubrec.is_empty() && pubcomp.is_empty() {
                    continue;
                }
                if puback.len() != 1 || puback[0].reason != 0 || !pubrec.is_empty() || !pubcomp.is_empty() {
                    return Err(fail(&c, "qos1-ack", format!("QoS 1 publish id {pid}: {} PUBACK (reasons {:?}), {} PUBREC, {} PUBCOMP; connection ended: {ended}", puback.len(), puback.iter().map(|a| a.reason).collect::<Vec<_>>(), pubrec.len(), pubcomp.len())));
                }
            }
            (2, Outcome::Ok) => {
                if failed_pub.is_some() && pubrec.is_empty() && puback.is_empty() {
                    continue;
                }
                if !c.role.is_server() && puback.len() == 1 && pubrec.is_empty() && pubcomp.is_empty() {
                    // known finding (client dispatchers answer QoS 2 with PUBACK): excluded by
                    // construction so that the rest of the history is still judged
                    known.push(format!("C03/{}/qos2-ack/puback-for-qos2", c.role.name()));
                    continue;
                }
                if !puback.is_empty() || pubrec.len() != 1 || pubrec[0].reason != 0 {
                    return Err(Failure::new(
                        "qos2-ack",
                        format!("C03/{}/qos2-ack/{}", c.role.name(), if !puback.is_empty() { "puback-for-qos2" } else { "pubrec-count" }),
                        format!("QoS 2 publish id {pid}: {} PUBACK, {} PUBREC, {} PUBCOMP", puback.len(), pubrec.len(), pubcomp.len()),
                    ));
                }
                match st[*i].rel_sent_at {
                    Some(at) => {
                        if after_failure && pubcomp.is_empty() {
                            continue;
                        }
                        let rec_end = pk.iter().find(|w| matches!(&w.pkt, P5::PubRec(a) if a.pid == pid)).map(|w| w.end);
                        if pubcomp.len() == 1 && rec_end.is_some_and(|r| pubcomp[0].1 < r) {
                            return Err(fail(&c, "qos2-pubcomp-before-pubrec", format!("QoS 2 publish id {pid}: PUBCOMP written before PUBREC")));
                        }
                        if pubcomp.len() != 1 || pubcomp[0].1 <= at {
                            if failed_pub.is_some() && pubcomp.is_empty() {
                                continue;
                            }
                            return Err(fail(&c, "qos2-pubcomp", format!("QoS 2 publish id {pid}: {} PUBCOMP (PUBREL sent at wire offset {at}, PUBCOMP ends {:?})", pubcomp.len(), pubcomp.first().map(|x| x.1))));
                        }
                    }
                    None => {
                        if !pubcomp.is_empty() {
                            return Err(fail(&c, "qos2-pubcomp-unsolicited", format!("PUBCOMP for id {pid} without PUBREL")));
                        }
                    }
                }
            }
            (q, Outcome::NegAck(code) | Outcome::ErrAck(code)) if c.role.is_v5() && q > 0 => {
                // the mapped negative acknowledgement, never a success one
                let all: Vec<&&s5::Ack5> = puback.iter().chain(pubrec.iter()).collect();
                if all.iter().any(|a| a.reason < 0x80) {
                    return Err(fail(&c, "success-ack-after-failure", format!("publish id {pid} failed with mapped code {code:#x} but a success acknowledgement was written")));
                }
                let mapped = if c.role == Role::V5Client { true } else { true };
                let _ = mapped;
                let want_list = if q == 1 { &puback } else { &pubrec };
                if c.role == Role::V5Server && !(want_list.len() == 1 && want_list[0].reason == code) {
                    if failed_pub.is_some() && want_list.is_empty() {
                        continue;
                    }
                    return Err(fail(&c, "negative-ack", format!("publish id {pid} (qos {q}) mapped to {code:#x}: PUBACK {:?}, PUBREC {:?}", puback.iter().map(|a| a.reason).collect::<Vec<_>>(), pubrec.iter().map(|a| a.reason).collect::<Vec<_>>())));
                }
            }
            (_, _) => {
                // failing handler: never a success acknowledgement
                if puback.iter().chain(pubrec.iter()).any(|a| a.reason < 0x80) {
                    return Err(fail(&c, "success-ack-after-failure", format!("handler of publish id {pid} failed but a success acknowledgement was written")));
                }
                if failed_pub == Some(pos) {
                    // the connection ends with the application's error (where a control service is attached)
                    let has_control = !(c.router && !c.role.is_server());
                    // (which Stop class is reported is C07's subject; here: the connection ends)
                    if has_control && stops.is_empty() {
                        return Err(fail(&c, "failure-not-reported", format!("handler failure of publish #{i} did not end the connection with the application's error: stops {stops:?}; log {:?}", brief_log(&evs))));
                    }
                }
            }
        }
    }
    // extras must have been answered on a healthy connection
    if failed_pub.is_none() && c.role.is_server() {
        let pings = c.extras.iter().filter(|(pos, sub)| !*sub && usize::from(*pos) < n).count();
        let subs = c.extras.iter().filter(|(pos, sub)| *sub && usize::from(*pos) < n).count();
        let got_p = pk.iter().filter(|w| matches!(w.pkt, P5::PingResp)).count();
        let got_s = pk.iter().filter(|w| matches!(w.pkt, P5::SubAck(_))).count();
        if got_p != pings || got_s != subs {
            return Err(fail(&c, "extras-unanswered", format!("{pings} PINGREQ / {subs} SUBSCRIBE sent, {got_p} PINGRESP / {got_s} SUBACK received")));
        }
        if !stops.is_empty() {
            return Err(fail(&c, "healthy-connection-ended", format!("connection ended without cause: {stops:?}")));
        }
    }
    eut.finish().await;

    let qos2_done = (0..n).any(|i| c.pubs[i].qos == 2 && st[i].rel_sent_at.is_some());
    let failing = c.pubs.iter().any(|p| p.outcome != Outcome::Ok);
    let nt = overlapped || qos2_done || failing || streamed;
    let trace: Vec<(u8, Outcome, bool, bool)> = arrivals.iter().map(|i| (c.pubs[*i].qos, c.pubs[*i].outcome, c.pubs[*i].deferred, c.pubs[*i].pieces > 1)).collect();
    let opens: Vec<Option<usize>> = open_slot.clone();
    let mut info = if nt { CaseInfo::nontrivial(&(c.role, c.router, &trace, &opens)) } else { CaseInfo::trivial() };
    if overlapped {
        info.labels.push("handlers-overlap");
    }
    if qos2_done {
        info.labels.push("qos2-completed");
    }
    if failing {
        info.labels.push("failing-handler");
    }
    if early_rel {
        info.labels.push("pubrel-before-pubrec");
    }
    if streamed {
        info.labels.push("delivered-in-pieces");
    }
    if evs.iter().any(|e| matches!(e, Ev::PubRead { data, .. } if data.len() > 64)) {
        info.labels.push("payload-64+");
    }
    info.labels.push(c.role.name());
    known.sort();
    known.dedup();
    info.known = known;
    Ok(info)
}

pub fn brief_log(evs: &[Ev]) -> Vec<String> {
    evs.iter()
        .map(|e| match e {
            Ev::PubEnter { seq, seen } => format!("enter#{seq}(q{} id{:?})", seen.qos, seen.pid),
            Ev::PubRead { seq, data, end } => format!("read#{seq}({}b,{end:?})", data.len()),
            Ev::PubExit { seq, outcome } => format!("exit#{seq}({outcome:?})"),
            other => format!("{other:?}"),
        })
        .collect()
}

fn pub_spec(v5: bool) -> impl Strategy<Value = PubSpec> {
    (
        (0u8..3, prop_oneof![4 => 0u32..20, 2 => 20u32..200, 1 => 200u32..5000], prop_oneof![3 => Just(1u8), 2 => 2u8..5]),
        prop_oneof![
            8 => Just(Outcome::Ok),
            1 => Just(Outcome::Err),
            1 => prop::sample::select(vec![0x80u8, 0x83, 0x87, 0x97]).prop_map(Outcome::NegAck),
            1 => prop::sample::select(vec![0x80u8, 0x90, 0x99]).prop_map(Outcome::ErrAck),
        ],
        prop_oneof![4 => Just(ReadPlan::Eager), 2 => Just(ReadPlan::Lazy), 1 => Just(ReadPlan::Abandon)],
        any::<bool>(),
        (any::<bool>(), any::<bool>(), 0u8..4, 0u8..3, 0u8..4),
    )
        .prop_map(move |((qos, payload, pieces), outcome, read, deferred, (retain, dup, topic, props, rel_delay))| {
            let outcome = match outcome {
                // v5 QoS 0: an error that maps to a negative acknowledgement cannot be acknowledged: the connection ends
                Outcome::ErrAck(c) if v5 && qos == 0 => Outcome::ErrAck(c),
                Outcome::NegAck(_) | Outcome::ErrAck(_) if !v5 || qos == 0 => Outcome::Ok,
                o => o,
            };
            PubSpec { qos, payload, pieces, outcome, read, deferred, retain, dup, topic, props, rel_delay }
        })
}

fn case_strategy(role: Role) -> BoxedStrategy<Case> {
    (
        any::<bool>(),
        prop::sample::select(vec![0u32, 4, 64, 32 * 1024]),
        prop::collection::vec(pub_spec(role.is_v5()), 1..6),
        prop::collection::vec((0u8..6, any::<bool>()), 0..3),
        prop::collection::vec(any::<u16>(), 12),
        any::<bool>(),
    )
        .prop_map(move |(router, min_chunk, mut pubs, extras, keys, settle_between)| {
            // at most one fatal failure, and abandoned payloads only on the last publish
            let mut fatal_seen = false;
            for p in &mut pubs {
                let fatal = matches!(p.outcome, Outcome::Err) || (role == Role::V5Server && p.qos == 0 && matches!(p.outcome, Outcome::ErrAck(_)));
                if fatal && fatal_seen {
                    p.outcome = Outcome::Ok;
                }
                fatal_seen |= fatal;
                if p.read == ReadPlan::Abandon && p.pieces > 1 {
                    p.read = ReadPlan::Eager;
                }
            }
            Case { role, router, min_chunk, pubs, extras, keys, settle_between }
        })
        .boxed()
}

pub fn check_case(c: &Case) -> Result<CaseInfo, Failure> {
    run_isolated("C03", c.clone(), &run_case)
}

pub fn run(ctx: &Ctx, started: Instant) -> i32 {
    let per_role = ctx.tier.pick(24_000u32, 200_000);
    let stats = par_shards(WORKERS, |shard| {
        let mut st = Stats::default();
        let role = Role::ALL[shard % 4];
        run_proptest_bed("C03", ctx.sub_seed("hist", shard), per_role, &case_strategy(role), &mut st, |c| json!({"case": c}), run_case);
        st
    });
    let report = Report {
        level: "exploration",
        rule: "proptest histories per role (v3/v5 x server/client): 1..5 inbound PUBLISH with fresh packet ids, QoS 0/1/2, payload 0..5000 bytes delivered in 1..4 writes \
               (min_chunk_size 0/4/64/32768 so that payloads are streamed), random flags/topics/(v5) properties, handler outcome ok / error / v5 negative ack / v5 error mapped to a \
               negative ack, eager / lazy / abandoning reader, immediate or deferred completion with generated completion order; PUBREL is sent by the scripted peer after it has seen PUBREC; \
               PINGREQ/SUBSCRIBE interleaved. Oracle: one handler entry per publish with exactly the packet sent, payload bytes equal, no success ack before the handler completed, \
               QoS 0 silent / QoS 1 one PUBACK / QoS 2 one PUBREC then one PUBCOMP after PUBREL, failures never acknowledged as success. Non-trivial = overlapping handlers, a completed QoS 2 \
               exchange, a failing handler or a payload delivered in pieces; distinct = (role, router, per-publish (qos,outcome,deferred,pieces), gate slots)"
            .into(),
        exhaustive: false,
        assumptions: vec![
            "IoTest is a faithful in-memory stand-in for a socket; settle() reaches a fixed point (16 idle yields)".into(),
            "packet ids are fresh per publish (reuse is C11), at most one fatal handler failure per history; publishes after it may be dropped".into(),
            "a conforming peer: PUBREL only after PUBREC was received".into(),
        ],
        extra: BTreeMap::new(),
    };
    finish(ctx, started, stats, report)
}

pub fn replay(path: &str) -> i32 {
    let case = super::load_case(path);
    let res = serde_json::from_value::<Case>(case["case"].clone()).map_err(|e| e.to_string()).map(|c| check_case(&c));
    super::report_replay("C03", path, res)
}
