//! C02 — hostile or malformed bytes can neither crash nor desynchronise the
//! decoder.  Exhaustive short inputs, exhaustive strings over an alphabet of
//! interesting bytes, structure-aware mutation of valid frames, all under
//! several deliveries and size configurations, for the v3 codec, the v5 codec
//! and the version sniffing codec.

use std::collections::BTreeMap;
use std::time::Instant;

use ntex_bytes::BytesMut;
use ntex_mqtt::verif_hooks;
use serde::{Deserialize, Serialize};
use serde_json::{Value, json};

use crate::decoding::*;
use crate::runner::*;
use crate::spec::v5::{self as s5, Layout, P5};
use crate::spec::wire::{self, Split};
use crate::spec::v3 as s3;
use crate::strat;

#[derive(Clone, Debug, Serialize, Deserialize)]
pub struct BytesCase {
    /// 3, 5, or 0 for the version sniffing codec
    pub ver: u8,
    pub hex: String,
    pub cuts: Vec<usize>,
    pub cfg: DecCfg,
    pub note: String,
}

pub fn to_hex(b: &[u8]) -> String {
    b.iter().map(|x| format!("{x:02x}")).collect()
}
pub fn from_hex(s: &str) -> Vec<u8> {
    (0..s.len() / 2).filter_map(|i| u8::from_str_radix(&s[2 * i..2 * i + 2], 16).ok()).collect()
}

const NO_CFG: DecCfg = DecCfg { max_size: 0, min_chunk: 0 };

fn with_case(mut f: Failure, ver: u8, input: &[u8], cuts: &[usize], cfg: DecCfg, note: &str) -> Failure {
    f.signature = format!("C02/{}", f.signature);
    f.case = serde_json::to_value(BytesCase {
        ver,
        hex: to_hex(input),
        cuts: cuts.to_vec(),
        cfg,
        note: note.to_owned(),
    })
    .unwrap();
    f
}

pub fn check_input(ver: u8, input: &[u8], cuts: &[usize], cfg: DecCfg, note: &str) -> Result<Judged, Failure> {
    let r = match ver {
        3 => decode_and_judge::<V3>(input, cuts, cfg, true),
        5 => decode_and_judge::<V5>(input, cuts, cfg, true),
        _ => return check_sniff(input).map(|()| Judged::default()).map_err(|f| with_case(f, 0, input, &[], NO_CFG, note)),
    };
    r.map_err(|f| with_case(f, ver, input, cuts, cfg, note))
}

// --- sniffing (rule 8) ---------------------------------------------------------

#[derive(Debug, PartialEq, Eq, Clone, Copy)]
enum SniffWant {
    NeedMore,
    Version(u8),
    Error,
    /// need-more or error both acceptable
    NeedMoreOrError,
    Any,
}

fn sniff_want(input: &[u8]) -> SniffWant {
    match wire::split(input) {
        Split::NeedHeader => SniffWant::NeedMore,
        Split::BadVarint => SniffWant::Error,
        Split::Frame { first, rl, hdr, .. } => {
            if first >> 4 != 1 {
                return SniffWant::Error;
            }
            if first != 0x10 {
                return SniffWant::Any; // CONNECT with reserved flag bits
            }
            if rl < 7 {
                return SniffWant::Any; // frame too short to carry name + level
            }
            let avail = &input[hdr..];
            let prefix = [0u8, 4, b'M', b'Q', b'T', b'T'];
            let n = avail.len().min(6);
            let prefix_ok = avail[..n] == prefix[..n];
            if avail.len() < 7 {
                return if prefix_ok { SniffWant::NeedMore } else { SniffWant::NeedMoreOrError };
            }
            if !prefix_ok {
                return SniffWant::Error;
            }
            match avail[6] {
                4 => SniffWant::Version(3),
                5 => SniffWant::Version(5),
                _ => SniffWant::Error,
            }
        }
    }
}

pub fn check_sniff(input: &[u8]) -> Result<(), Failure> {
    let mut buf = BytesMut::from(input);
    let got = catch(|| verif_hooks::sniff_version(&mut buf))
        .map_err(|p| Failure::new("panic", format!("sniff/panic/{}", panic_key(&p)), p))?;
    if &buf[..] != input {
        return Err(Failure::new("sniff-mutates", "sniff/mutates-buffer", format!("sniffing changed the buffer: {} -> {}", to_hex(input), to_hex(&buf))));
    }
    let want = sniff_want(input);
    let ok = match (want, &got) {
        (SniffWant::Any, _) => true,
        (SniffWant::NeedMore, Ok(None)) => true,
        (SniffWant::Error, Err(_)) => true,
        (SniffWant::NeedMoreOrError, Ok(None) | Err(_)) => true,
        (SniffWant::Version(v), Ok(Some(g))) => v == *g,
        _ => false,
    };
    if ok {
        Ok(())
    } else {
        Err(Failure::new(
            "sniff-verdict",
            format!("sniff/verdict/{want:?}"),
            format!("sniffing {}: expected {want:?}, got {got:?}", to_hex(input)),
        ))
    }
}

// --- enumerations ----------------------------------------------------------------

fn classify(st: &mut Stats, j: &Judged) -> bool {
    let nt = j.body_examined && (j.reject.is_some() || j.last != "" && j.frames_ok == 0);
    if j.accepted_gray {
        st.label("gray-accepted", 1);
    }
    if let Some(r) = j.reject {
        st.label(
            match r {
                wire::Rej::Overrun => "rej-overrun",
                wire::Rej::Leftover => "rej-leftover",
                wire::Rej::UnknownProp => "rej-unknown-prop",
                wire::Rej::UnknownReason => "rej-unknown-reason",
                wire::Rej::DupProp => "rej-dup-prop",
                wire::Rej::PidZero => "rej-pid-zero",
                wire::Rej::Qos3 => "rej-qos3",
                wire::Rej::Utf8 => "rej-utf8",
                wire::Rej::ReservedFlags => "rej-reserved-flags",
                wire::Rej::BadProtocol => "rej-bad-protocol",
                wire::Rej::BadValue => "rej-bad-value",
                wire::Rej::UnknownType => "rej-unknown-type",
                wire::Rej::BadVarint => "rej-bad-varint",
            },
            1,
        );
    } else if j.frames_ok > 0 {
        st.label("valid-frames", j.frames_ok as u64);
    }
    nt
}

const ALPHABET: [u8; 12] = [0x10, 0x30, 0x32, 0x40, 0x82, 0x00, 0x01, 0x02, 0x04, 0x7F, 0x80, 0xFF];

fn exhaustive_short(ctx: &Ctx) -> Stats {
    // all byte strings of length <= 3 on all three decoders, whole delivery;
    // lengths <= 2 also byte-at-a-time and with max_size = 1
    let alpha_len = ctx.tier.pick(6usize, 7);
    par_shards(WORKERS, |shard| {
        let mut st = Stats::default();
        let mut run = |st: &mut Stats, ver: u8, input: &[u8], cuts: &[usize], cfg: DecCfg| {
            st.evaluations += 1;
            match check_input(ver, input, cuts, cfg, "exhaustive") {
                Ok(j) => {
                    if classify(st, &j) {
                        st.distinct_counted += 1;
                    }
                }
                Err(f) => st.fail(f),
            }
        };
        let mut buf = [0u8; 3];
        // length 1 and 2
        if shard == 0 {
            for a in 0..=255u8 {
                for ver in [3u8, 5, 0] {
                    run(&mut st, ver, &[a], &[], NO_CFG);
                }
                for b in 0..=255u8 {
                    for ver in [3u8, 5, 0] {
                        run(&mut st, ver, &[a, b], &[], NO_CFG);
                        run(&mut st, ver, &[a, b], &[1], DecCfg { max_size: 1, min_chunk: 1 });
                    }
                }
            }
        }
        // length 3, sharded on the first byte
        for a in (shard..256).step_by(WORKERS) {
            buf[0] = a as u8;
            for b in 0..=255u8 {
                buf[1] = b;
                for c in 0..=255u8 {
                    buf[2] = c;
                    run(&mut st, 3, &buf, &[], NO_CFG);
                    run(&mut st, 5, &buf, &[], NO_CFG);
                    if c & 0x0F == 0 {
                        run(&mut st, 0, &buf, &[], NO_CFG);
                        run(&mut st, 5, &buf, &[1, 2], DecCfg { max_size: 2, min_chunk: 4 });
                        run(&mut st, 3, &buf, &[2], DecCfg { max_size: 1, min_chunk: 0 });
                    }
                }
            }
        }
        // strings over the alphabet, length 4..=alpha_len
        let n = ALPHABET.len() as u64;
        for len in 4..=alpha_len {
            let total = n.pow(len as u32);
            let mut idx = shard as u64;
            let mut s = vec![0u8; len];
            while idx < total {
                let mut x = idx;
                for i in (0..len).rev() {
                    s[i] = ALPHABET[(x % n) as usize];
                    x /= n;
                }
                let cfg = match idx % 5 {
                    0 => DecCfg { max_size: 2, min_chunk: 1 },
                    1 => DecCfg { max_size: 0, min_chunk: 4 },
                    _ => NO_CFG,
                };
                run(&mut st, 5, &s, &[], cfg);
                run(&mut st, 3, &s, &[], cfg);
                if idx % 7 == 0 {
                    let cuts: Vec<usize> = (1..len).collect();
                    run(&mut st, 5, &s, &cuts, cfg);
                    run(&mut st, 3, &s, &cuts, cfg);
                    run(&mut st, 0, &s, &[], NO_CFG);
                }
                idx += WORKERS as u64;
            }
        }
        st.sample(|| json!({"kind": "exhaustive", "example": "30 02 00 05 (PUBLISH whose Remaining Length is smaller than its topic)"}));
        st
    })
}

// --- structure-aware mutation ------------------------------------------------------

/// one mutation of a valid frame; returns the mutated bytes and the mutation kind
fn mutate(frame: &[u8], second: &[u8], ver: u8, rng: &mut SplitMix) -> (Vec<u8>, &'static str) {
    let fields: Vec<(usize, usize, u8)> = if ver == 5 {
        s5::length_fields(frame)
            .into_iter()
            .map(|(o, w, k)| {
                (
                    o,
                    w,
                    match k {
                        s5::LenKind::Remaining => 0u8,
                        s5::LenKind::PropSection => 1,
                        s5::LenKind::Str => 2,
                        s5::LenKind::PropStr => 3,
                    },
                )
            })
            .collect()
    } else {
        s3::length_fields(frame).into_iter().enumerate().map(|(i, (o, w))| (o, w, if i == 0 { 0 } else { 2 })).collect()
    };
    let mut out = frame.to_vec();
    let pick = rng.below(18);
    match pick {
        16 | 17 => {
            // a complete but shorter frame: keep the first c body bytes and make Remaining Length say so; half of the
            // time the last byte gets its continuation bit set (a length / varint field cut off by the frame end)
            if let Split::Frame { hdr, rl, .. } = wire::split(frame) {
                if rl >= 2 {
                    let c = 1 + rng.below(u64::from(rl) - 1) as usize;
                    let mut short = vec![frame[0]];
                    wire::put_varint(&mut short, c as u32);
                    short.extend_from_slice(&frame[hdr..hdr + c]);
                    let contbit = rng.chance(1, 2);
                    if contbit {
                        let l = short.len();
                        short[l - 1] |= 0x80;
                    }
                    return (short, if contbit { "shorten-frame-contbit" } else { "shorten-frame" });
                }
            }
            out[0] ^= 0x0F;
            (out, "flags")
        }
        0..=4 if !fields.is_empty() => {
            // set a length field to 0 / -1 / +1 / +2 / max / random
            let (o, w, k) = fields[rng.below(fields.len() as u64) as usize];
            let kind = match k {
                0 => "len-remaining",
                1 => "len-prop-section",
                2 => "len-string",
                _ => "len-prop-string",
            };
            if w == 2 && k >= 2 {
                let cur = u16::from_be_bytes([out[o], out[o + 1]]);
                let nv = match rng.below(6) {
                    0 => 0,
                    1 => cur.wrapping_sub(1),
                    2 => cur.wrapping_add(1),
                    3 => cur.wrapping_add(2),
                    4 => u16::MAX,
                    _ => rng.next() as u16,
                };
                out[o..o + 2].copy_from_slice(&nv.to_be_bytes());
            } else {
                // varint field: decode, change, re-encode in place (width may change)
                if let wire::VarInt::Ok(cur, wd) = wire::get_varint(&out[o..]) {
                    let nv = match rng.below(6) {
                        0 => 0,
                        1 => cur.wrapping_sub(1) & 0x0FFF_FFFF,
                        2 => (cur + 1) & 0x0FFF_FFFF,
                        3 => (cur + 2) & 0x0FFF_FFFF,
                        4 => 268_435_455,
                        _ => (rng.next() as u32) & 0x0FFF_FFFF,
                    };
                    let mut enc = Vec::new();
                    wire::put_varint(&mut enc, nv);
                    out.splice(o..o + wd, enc);
                }
            }
            (out, kind)
        }
        5 => {
            let at = rng.below(frame.len() as u64) as usize;
            out.truncate(at);
            (out, "truncate")
        }
        6 => {
            let at = rng.below(frame.len() as u64) as usize;
            out[at] ^= 1 << rng.below(8);
            if rng.chance(1, 2) {
                let at2 = rng.below(frame.len() as u64) as usize;
                out[at2] ^= 1 << rng.below(8);
            }
            (out, "bitflip")
        }
        7 => {
            let at = rng.below(frame.len() as u64 + 1) as usize;
            if rng.chance(1, 2) && !out.is_empty() {
                out.remove(at.min(out.len() - 1));
                (out, "delete-byte")
            } else {
                out.insert(at, rng.next() as u8);
                (out, "insert-byte")
            }
        }
        8 => {
            // splice two frames at structural offsets
            let a = fields.get(rng.below(fields.len().max(1) as u64) as usize).map_or(1, |f| f.0);
            let b = rng.below(second.len() as u64 + 1) as usize;
            out.truncate(a.min(out.len()));
            out.extend_from_slice(&second[b.min(second.len())..]);
            (out, "splice")
        }
        9 | 10 if ver == 5 => inject_property(frame, rng),
        11 => {
            // packet id := 0
            if let Some(o) = pid_offset(frame) {
                out[o] = 0;
                out[o + 1] = 0;
                (out, "pid-zero")
            } else {
                out[0] ^= 0x0F;
                (out, "flags")
            }
        }
        12 => {
            // QoS bits := 3
            let t = frame[0] >> 4;
            if t == 3 {
                out[0] |= 0x06;
            } else if t == 1 {
                if let Some(o) = connect_flags_offset(frame) {
                    // Will QoS 3, with the Will Flag set or (a value of 3 is malformed either way) clear
                    out[o] |= 0x18;
                    if rng.chance(1, 2) {
                        out[o] |= 0x04;
                    }
                }
            } else if t == 8 {
                let l = out.len();
                out[l - 1] |= 0x03;
            } else {
                out[0] |= 0x06;
            }
            (out, "qos3")
        }
        13 => {
            // reason code := a value outside the table
            if let Some(o) = reason_offset(frame, ver) {
                let bad = [3u8, 5, 7, 23, 26, 127, 129 + 100, 163, 200, 255, 6];
                out[o] = bad[rng.below(bad.len() as u64) as usize];
                (out, "bad-reason")
            } else {
                let at = rng.below(frame.len() as u64) as usize;
                out[at] = 0xFF;
                (out, "byte-ff")
            }
        }
        _ => {
            // invalid UTF-8 in a string position
            let strs: Vec<&(usize, usize, u8)> = fields.iter().filter(|f| f.1 == 2 && f.2 >= 2).collect();
            if let Some((o, _, _)) = strs.get(rng.below(strs.len().max(1) as u64) as usize) {
                let len = u16::from_be_bytes([out[*o], out[*o + 1]]) as usize;
                let seqs: [&[u8]; 5] = [&[0xC0, 0x80], &[0xED, 0xA0, 0x80], &[0xFF], &[0xE2, 0x82], &[0xF4, 0x90, 0x80, 0x80]];
                let seq = seqs[rng.below(5) as usize];
                if len >= seq.len() && *o + 2 + len <= out.len() {
                    let at = *o + 2 + rng.below((len - seq.len() + 1) as u64) as usize;
                    out[at..at + seq.len()].copy_from_slice(seq);
                    // a truncated multibyte sequence is only invalid at the end of the string
                    if seq.len() == 2 && seq[0] == 0xE2 {
                        let end = *o + 2 + len;
                        out[end - 2..end].copy_from_slice(seq);
                    }
                    return (out, "bad-utf8");
                }
            }
            let at = rng.below(frame.len() as u64) as usize;
            out[at] = 0xC0;
            (out, "byte-c0")
        }
    }
}

fn connect_flags_offset(frame: &[u8]) -> Option<usize> {
    if let Split::Frame { hdr, .. } = wire::split(frame) {
        let o = hdr + 7;
        if o < frame.len() {
            return Some(o);
        }
    }
    None
}

fn pid_offset(frame: &[u8]) -> Option<usize> {
    let Split::Frame { first, hdr, complete: true, .. } = wire::split(frame) else {
        return None;
    };
    match first >> 4 {
        3 => {
            if (first >> 1) & 3 == 0 {
                return None;
            }
            let tl = u16::from_be_bytes([*frame.get(hdr)?, *frame.get(hdr + 1)?]) as usize;
            let o = hdr + 2 + tl;
            (o + 2 <= frame.len()).then_some(o)
        }
        4..=11 => (hdr + 2 <= frame.len()).then_some(hdr),
        _ => None,
    }
}

fn reason_offset(frame: &[u8], ver: u8) -> Option<usize> {
    let Split::Frame { first, hdr, rl, complete: true } = wire::split(frame) else {
        return None;
    };
    let t = first >> 4;
    let o = match (ver, t) {
        (_, 2) => hdr + 1,
        (5, 4..=7) if rl >= 3 => hdr + 2,
        (5, 14 | 15) if rl >= 1 => hdr,
        (_, 9) | (5, 11) => frame.len() - 1, // last return / reason code
        _ => return None,
    };
    (o < frame.len()).then_some(o)
}

/// insert one more property (any identifier of table 2-4 plus a few undefined
/// ones) at the end of a property section, fixing up the section length and
/// the Remaining Length
fn inject_property(frame: &[u8], rng: &mut SplitMix) -> (Vec<u8>, &'static str) {
    let secs: Vec<(usize, usize)> = s5::length_fields(frame)
        .into_iter()
        .filter(|f| f.2 == s5::LenKind::PropSection)
        .map(|f| (f.0, f.1))
        .collect();
    let Split::Frame { first, hdr, .. } = wire::split(frame) else {
        return (frame.to_vec(), "inject-none");
    };
    if secs.is_empty() {
        return (frame.to_vec(), "inject-none");
    }
    let (o, w) = secs[rng.below(secs.len() as u64) as usize];
    let wire::VarInt::Ok(len, _) = wire::get_varint(&frame[o..]) else {
        return (frame.to_vec(), "inject-none");
    };
    let ids: Vec<u8> = s5::ALL_PROP_IDS.iter().copied().chain([0x00, 0x04, 0x7F, 0x2B, 0x10]).collect();
    let id = ids[rng.below(ids.len() as u64) as usize];
    let mut prop = vec![id];
    match s5::prop_kind(id) {
        Some(s5::Kind::Byte) => prop.push(rng.below(2) as u8),
        Some(s5::Kind::U16) => prop.extend_from_slice(&[0, 7]),
        Some(s5::Kind::U32) => prop.extend_from_slice(&[0, 0, 1, 0]),
        Some(s5::Kind::Var) => prop.push(9),
        Some(s5::Kind::Str | s5::Kind::Bin) => prop.extend_from_slice(&[0, 1, b'z']),
        Some(s5::Kind::Pair) => prop.extend_from_slice(&[0, 1, b'k', 0, 1, b'v']),
        None => prop.push(1),
    }
    let body = &frame[hdr..];
    let so = o - hdr;
    let end = so + w + len as usize;
    if end > body.len() {
        return (frame.to_vec(), "inject-none");
    }
    let mut nb = Vec::with_capacity(body.len() + prop.len() + 2);
    nb.extend_from_slice(&body[..so]);
    wire::put_varint(&mut nb, len + prop.len() as u32);
    nb.extend_from_slice(&body[so + w..end]);
    nb.extend_from_slice(&prop);
    nb.extend_from_slice(&body[end..]);
    let mut out = vec![first];
    wire::put_varint(&mut out, nb.len() as u32);
    out.extend_from_slice(&nb);
    (out, "inject-property")
}

pub fn corpus5(seed: u64, n: usize) -> Vec<Vec<u8>> {
    use proptest::prelude::*;
    let st = (strat::p5(), strat::layout(), any::<u32>());
    gen_values(seed, n * 2, &st)
        .into_iter()
        .filter_map(|(p, l, ps)| {
            let plen = match &p {
                P5::Publish(pb) => pb.payload_len,
                _ => 0,
            };
            if plen > 600 {
                return None;
            }
            let mut lay: Layout = l;
            lay.explicit_defaults &= plen < 500;
            let b = s5::encode(&p, &wire::payload(ps, plen), &lay);
            (b.len() <= 1500).then_some(b)
        })
        .take(n)
        .collect()
}

pub fn corpus3(seed: u64, n: usize) -> Vec<Vec<u8>> {
    use proptest::prelude::*;
    let st = (strat::p3(), any::<u32>());
    gen_values(seed, n * 2, &st)
        .into_iter()
        .filter_map(|(p, ps)| {
            let plen = match &p {
                s3::P3::Publish(pb) => pb.payload_len,
                _ => 0,
            };
            if plen > 600 {
                return None;
            }
            let b = s3::encode(&p, &wire::payload(ps, plen));
            (b.len() <= 1500).then_some(b)
        })
        .take(n)
        .collect()
}

fn random_cuts(len: usize, rng: &mut SplitMix) -> Vec<usize> {
    if len < 2 {
        return Vec::new();
    }
    let k = 1 + rng.below(4) as usize;
    let mut c: Vec<usize> = (0..k).map(|_| 1 + rng.below(len as u64 - 1) as usize).collect();
    c.sort_unstable();
    c.dedup();
    c
}

fn cfg_for(input: &[u8], rng: &mut SplitMix) -> DecCfg {
    let rl = match wire::split(input) {
        Split::Frame { rl, .. } => rl,
        _ => 0,
    };
    let max_size = match rng.below(8) {
        0 => 1,
        1 => 2,
        2 => rl.saturating_sub(1),
        3 => rl,
        4 => rl + 1,
        5 => 64,
        _ => 0,
    };
    let min_chunk = [0u32, 0, 1, 4, 1024][rng.below(5) as usize];
    DecCfg { max_size, min_chunk }
}

fn mutations(ctx: &Ctx) -> Stats {
    let frames_per_shard = ctx.tier.pick(600usize, 4_000);
    let muts_per_frame = ctx.tier.pick(30usize, 300);
    par_shards(WORKERS, |shard| {
        let mut st = Stats::default();
        for ver in [5u8, 3] {
            let seed = ctx.sub_seed(if ver == 5 { "corpus5" } else { "corpus3" }, shard);
            let frames = if ver == 5 { corpus5(seed, frames_per_shard) } else { corpus3(seed, frames_per_shard) };
            let mut rng = SplitMix(ctx.sub_seed("mut", shard) ^ u64::from(ver));
            for (i, f) in frames.iter().enumerate() {
                // the unmutated frame must be accepted under every delivery (rule 6)
                let second = &frames[(i + 1) % frames.len()];
                for k in 0..=muts_per_frame {
                    let (input, kind) = if k == 0 { (f.clone(), "valid") } else { mutate(f, second, ver, &mut rng) };
                    let mut input = input;
                    if k % 3 == 1 {
                        // another frame follows: desynchronisation becomes visible
                        input.extend_from_slice(second);
                    }
                    let deliveries: [Vec<usize>; 3] = [
                        Vec::new(),
                        if input.len() <= 96 { (1..input.len()).collect() } else { random_cuts(input.len(), &mut rng) },
                        random_cuts(input.len(), &mut rng),
                    ];
                    let cfg = if k == 0 { NO_CFG } else { cfg_for(&input, &mut rng) };
                    for cuts in &deliveries {
                        st.evaluations += 1;
                        match check_input(ver, &input, cuts, cfg, kind) {
                            Ok(j) => {
                                let nt = classify(&mut st, &j);
                                if nt {
                                    st.nontrivial.insert(hash_of(&(ver, kind, j.kind, j.last, j.reject.map(|r| r as u8), cfg.max_size != 0, cfg.min_chunk)));
                                }
                                st.label(kind, 1);
                                if nt {
                                    let idx = st.evaluations;
                                    st.sample_at(idx, || json!({"ver": ver, "mutation": kind, "packet": j.kind, "verdict": j.last,
                                        "reject": j.reject.map(|r| format!("{r:?}")), "cfg": cfg, "cuts": cuts.len(), "bytes": to_hex(&input[..input.len().min(48)])}));
                                }
                            }
                            Err(f) => st.fail(f),
                        }
                    }
                    if ver == 5 && k % 4 == 0 {
                        st.evaluations += 1;
                        if let Err(f) = check_input(0, &input, &[], NO_CFG, kind) {
                            st.fail(f);
                        }
                    }
                }
            }
        }
        st
    })
}

/// committed regression inputs (shrunk failures of earlier runs)
fn regressions(st: &mut Stats) {
    let dir = verif_root().join("replays").join("C02");
    let Ok(rd) = std::fs::read_dir(&dir) else { return };
    let mut paths: Vec<_> = rd.filter_map(Result::ok).map(|e| e.path()).filter(|p| {
        p.file_name().and_then(|n| n.to_str()).is_some_and(|n| n.starts_with("reg-") && n.ends_with(".json"))
    }).collect();
    paths.sort();
    for p in paths {
        let Some(case) = std::fs::read_to_string(&p).ok().and_then(|t| serde_json::from_str::<Value>(&t).ok()) else { continue };
        let case = case.get("case").cloned().unwrap_or(case);
        if let Ok(c) = serde_json::from_value::<BytesCase>(case) {
            st.evaluations += 1;
            st.nontrivial.insert(hash_of(&("reg", &c.hex, &c.cuts)));
            if let Err(f) = check_input(c.ver, &from_hex(&c.hex), &c.cuts, c.cfg, &c.note) {
                st.fail(f);
            }
        }
    }
}

pub fn run(ctx: &Ctx, started: Instant) -> i32 {
    let mut stats = Stats::default();
    regressions(&mut stats);
    stats.merge(exhaustive_short(ctx));
    stats.merge(mutations(ctx));
    let report = Report {
        level: "exploration",
        rule: "every byte string of length <=3 and every string of length <=6 (thorough 7) over 12 'interesting' bytes, plus \
               structure-aware mutations of valid spec-encoded frames (length fields at every nesting level set to 0/-1/+1/+2/max/random, \
               truncation, bit flips, insert/delete, splices, injected/duplicated/illegal properties, packet id 0, QoS 3, undefined reason \
               codes, ill-formed UTF-8), optionally followed by a second valid frame; each under whole / byte-at-a-time / random-cut delivery \
               and max-size/min-chunk configurations; judged by the content-independent splitter and the reference decoder (no panic, \
               progress, framing, must-reject classes, early oversize rejection, stability of whatever is accepted, sniffing never \
               mutates and answers per spec). Non-trivial = not a valid frame and at least one body byte examined; distinct = \
               (codec, mutation kind, packet kind, verdict, reject class, config class); enumerated strings count once each"
            .into(),
        exhaustive: true,
        assumptions: vec![
            "the exhaustive claim covers byte strings of length <=3 and the 12-symbol alphabet strings; mutations are sampled".into(),
            "gray zone (either verdict accepted, stability still enforced): trailing bytes after CONNECT / v3 CONNACK / PINGREQ-PINGRESP-v3 DISCONNECT bodies, reserved option bits, will bits without will flag, zero filters, non-minimal varints, U+0000, boolean/zero-valued property values, CONNACK Maximum QoS 2, message expiry 0, reserved fixed-header flags".into(),
            "must-reject classes are exactly those named in the statement: inner length overrun, leftover bytes in fixed-layout packets, unknown/illegal property, unknown reason code, repeated once-only property, packet id 0, QoS 3, ill-formed UTF-8".into(),
        ],
        extra: BTreeMap::new(),
    };
    finish(ctx, started, stats, report)
}

pub fn replay(path: &str) -> i32 {
    let case = super::load_case(path);
    let res = serde_json::from_value::<BytesCase>(case)
        .map_err(|e| e.to_string())
        .map(|c| check_input(c.ver, &from_hex(&c.hex), &c.cuts, c.cfg, &c.note).map(|_| CaseInfo::trivial()));
    super::report_replay("C02", path, res)
}
