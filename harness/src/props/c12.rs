//! C12 — inbound concurrency limits hold and never wedge the connection.
//! Bursts of publishes against gated handlers; v3 default in-flight
//! middleware (max_receive / max_receive_size), v5 Receive Maximum.

use std::collections::BTreeMap;
use std::time::Instant;

use proptest::prelude::*;
use serde::{Deserialize, Serialize};
use serde_json::json;

use crate::bed::any::{Cfg, Eut};
use crate::bed::v5::WireTail;
use crate::bed::*;
use crate::runner::*;
use crate::spec::v5::{self as s5, P5};
use crate::spec::wire;

#[derive(Clone, Copy, Debug, PartialEq, Eq, Hash, Serialize, Deserialize)]
pub struct PubSpec {
    pub qos: u8,
    pub payload: u32,
    pub pieces: u8,
}

#[derive(Clone, Copy, Debug, PartialEq, Eq, Hash, Serialize, Deserialize)]
pub enum Item {
    Pub(PubSpec),
    Ping,
    /// SUBSCRIBE with a gated protocol handler (server roles)
    Sub,
}

#[derive(Clone, Debug, PartialEq, Eq, Hash, Serialize, Deserialize)]
pub struct Case {
    pub role: Role,
    pub max_receive: u16,
    pub max_receive_size: usize,
    pub items: Vec<Item>,
    /// number of items written back to back before the driver looks again
    pub burst: u8,
    /// order in which gates are opened (indices taken modulo the number of gated handlers)
    pub open_order: Vec<u8>,
    /// v5: at which QoS>0 publish (0-based count) the peer ignores Receive Maximum (None = conforming)
    pub exceed_at: Option<u8>,
}

fn fail(c: &Case, rule: &str, detail: String) -> Failure {
    Failure::new(rule, format!("C12/{}/{rule}", c.role.name()), detail)
}

pub async fn run_case(c: Case) -> Result<CaseInfo, Failure> {
    let mut cfg = Cfg::default();
    cfg.v3.max_receive = c.max_receive;
    cfg.v3.max_receive_size = c.max_receive_size;
    cfg.v3.min_chunk_size = 16;
    cfg.v5.max_receive = c.max_receive; // advertised Receive Maximum (0 = unlimited -> 65535 on the wire)
    cfg.v5.max_receive_size = c.max_receive_size;
    cfg.v5.min_chunk_size = 16;
    cfg.v5.connect.receive_max = if c.max_receive == 0 { None } else { Some(c.max_receive) };
    let v5 = c.role.is_v5();
    let eut = Eut::start(c.role, &cfg).await;
    eut.handshake(&cfg).await;
    if eut.done().is_some() {
        return Err(fail(&c, "harness-handshake", format!("{:?}", eut.done())));
    }
    let app = eut.app().clone();
    app.default_open.set(false); // every handler is gated
    let rm = if v5 && c.max_receive != 0 { usize::from(c.max_receive) } else { usize::MAX };

    let mut next = 0usize; // next item to send
    let mut sent_pubs: Vec<(usize, u16, PubSpec, u64)> = Vec::new(); // (item idx, pid, spec, frame RL)
    let mut qos_sent = 0usize; // QoS>0 publishes sent
    let mut pings = 0usize;
    let mut subs = 0usize;
    let mut open_i = 0usize;
    let mut opened: Vec<(u8, u32)> = Vec::new();
    let mut limit_reached = false;
    let mut exceeded: Option<u16> = None;
    let mut streamed = false;
    let mut guard = 0;
    let mut unjudged = false;
    let mut rel_sent: Vec<u16> = Vec::new();

    let outstanding = |eut: &Eut, sent: &[(usize, u16, PubSpec, u64)]| -> usize {
        let (pk, _) = eut.packets();
        sent.iter()
            .filter(|(_, pid, spec, _)| {
                spec.qos > 0
                    && !pk.iter().any(|w| match &w.pkt {
                        P5::PubAck(a) => a.pid == *pid,
                        P5::PubRec(a) => a.pid == *pid && a.reason >= 0x80,
                        P5::PubComp(a) => a.pid == *pid,
                        _ => false,
                    })
            })
            .count()
    };

    loop {
        guard += 1;
        if guard > 200 {
            return Err(fail(&c, "harness-loop", "driver did not terminate".into()));
        }
        let ended = eut.done().is_some() || !app.stops().is_empty() || eut.sink_open() == Some(false);
        if ended {
            break;
        }
        // 1. send up to `burst` items if the peer is allowed to
        let mut wrote = 0;
        while next < c.items.len() && wrote < usize::from(c.burst.max(1)) {
            match c.items[next] {
                Item::Pub(spec) => {
                    let pid = next as u16 + 1;
                    if spec.qos > 0 {
                        let out = outstanding(&eut, &sent_pubs);
                        // "exceeds" is only unambiguous while Receive Maximum publishes sit in unfinished handlers
                        let in_handlers = {
                            let log = app.log.borrow();
                            log.iter().filter(|e| matches!(e, Ev::PubEnter { seen, .. } if seen.qos > 0)).count()
                                - log.iter().filter(|e| matches!(e, Ev::PubExit { seq, .. } if sent_pubs.get(*seq as usize).is_some_and(|p| p.2.qos > 0))).count()
                        };
                        let exceed_now = c.exceed_at.is_some_and(|k| usize::from(k) <= qos_sent) && v5 && rm != usize::MAX && in_handlers >= rm;
                        if out >= rm && !exceed_now {
                            break; // conforming peer waits for an acknowledgement
                        }
                        if out >= rm && exceed_now {
                            exceeded = Some(pid);
                        }
                        qos_sent += 1;
                    }
                    let pb = s5::Publish5 { qos: spec.qos, pid: (spec.qos > 0).then_some(pid), topic: "t/a".into(), payload_len: spec.payload, ..Default::default() };
                    let payload = wire::payload(u32::from(pid), spec.payload);
                    let bytes = eut.encode(&P5::Publish(Box::new(pb)), &payload);
                    let rl = match wire::split(&bytes) {
                        wire::Split::Frame { rl, .. } => u64::from(rl),
                        _ => 0,
                    };
                    sent_pubs.push((next, pid, spec, rl));
                    let pieces = usize::from(spec.pieces.max(1)).min(bytes.len());
                    if pieces > 1 {
                        streamed = true;
                        let chunk = bytes.len().div_ceil(pieces);
                        for part in bytes.chunks(chunk.max(1)) {
                            eut.peer().send(part);
                            eut.settle().await;
                        }
                    } else {
                        eut.peer().send(&bytes);
                    }
                }
                Item::Ping => {
                    if c.role.is_server() {
                        eut.peer_send(&P5::PingReq, &[]);
                        pings += 1;
                    }
                }
                Item::Sub => {
                    if c.role.is_server() {
                        eut.peer_send(&P5::Subscribe(s5::Sub5 { pid: 2000 + next as u16, filters: vec![("a".into(), s5::SubOpts::default())], ..Default::default() }), &[]);
                        subs += 1;
                    }
                }
            }
            next += 1;
            wrote += 1;
            if exceeded.is_some() {
                break;
            }
        }
        eut.settle().await;
        // a conforming peer answers PUBREC with PUBREL
        {
            let (pk, _) = eut.packets();
            for (_, pid, spec, _) in &sent_pubs {
                if spec.qos == 2 && !rel_sent.contains(pid) && pk.iter().any(|w| matches!(&w.pkt, P5::PubRec(a) if a.pid == *pid && a.reason < 0x80)) {
                    rel_sent.push(*pid);
                    eut.peer_send(&P5::PubRel(s5::Ack5 { pid: *pid, ..Default::default() }), &[]);
                }
            }
            eut.settle().await;
        }
        // 2. observe the limits
        let enters = app.pub_enters().len();
        if eut.peer().unread() > 0 || enters < sent_pubs.len() {
            limit_reached = true;
        }
        if let Some(pid) = exceeded {
            // control packets in progress count towards the byte limit too (conservative estimate)
            let ctl_pending = app.log.borrow().iter().filter(|e| matches!(e, Ev::CtlEnter { .. })).count() as u64
                - app.log.borrow().iter().filter(|e| matches!(e, Ev::CtlExit { .. } | Ev::CtlDrop { .. })).count() as u64;
            let byte_limit_hit = c.role.is_server() && c.max_receive_size != 0 && app.active_bytes.get() + 16 * (ctl_pending + subs as u64) > c.max_receive_size as u64;
            if eut.peer().unread() > 0 || enters + 1 < sent_pubs.len() || byte_limit_hit {
                // the byte limit paused reading: the surplus publish has not been looked at yet and
                // will be legitimate once the earlier handlers finish - nothing to judge
                unjudged = true;
                break;
            }
            // the surplus publish must not reach a handler and the connection ends with 0x93
            break_on_exceed(&c, &eut, pid)?;
            break;
        }
        // 3. nothing more to send right now (or all sent): open one gate
        let gated: Vec<(u8, u32)> = {
            let log = app.log.borrow();
            let mut v = Vec::new();
            for e in log.iter() {
                match e {
                    Ev::PubEnter { seq, .. } => v.push((G_PUB, *seq)),
                    Ev::CtlEnter { seq, .. } => v.push((G_CTL, *seq)),
                    _ => {}
                }
            }
            v.retain(|g| !opened.contains(g));
            v
        };
        if wrote == 0 || next >= c.items.len() {
            if gated.is_empty() {
                if next >= c.items.len() {
                    break;
                }
                // nothing gated, nothing sendable: the peer is waiting for an ack that does not come
                if wrote == 0 {
                    return Err(fail(&c, "stall", format!("peer waits for an acknowledgement, no handler is running; sent {} publishes, {} entered; log {:?}", sent_pubs.len(), enters, crate::props::c03::brief_log(&app.events()))));
                }
            } else {
                let k = usize::from(*c.open_order.get(open_i).unwrap_or(&0)) % gated.len();
                open_i += 1;
                let g = gated[k];
                opened.push(g);
                app.open(g.0, g.1);
                eut.settle().await;
            }
        }
    }

    // ---- safety
    let max_overlap = app.max_active_pub.get();
    if matches!(c.role, Role::V3Server | Role::V3Client) && c.max_receive != 0 && max_overlap > u32::from(c.max_receive) {
        return Err(Failure::new(
            "overlap-exceeds-max-receive",
            format!("C12/{}/overlap-exceeds-max-receive", c.role.name()),
            format!("max_receive {} but {max_overlap} publish handlers ran at once", c.max_receive),
        ));
    }
    if c.role.is_server() && c.max_receive_size != 0 {
        let bound = c.max_receive_size as u64 + app.max_active_last.get();
        // (the statement grants one packet of slack; handlers of control packets are not counted)
        if app.max_active_bytes.get() > bound && !v5_bypass_ok(&c) {
            return Err(fail(&c, "bytes-exceed-max-receive-size", format!("max_receive_size {} (+ last packet {}) but {} packet bytes were inside handlers at once", c.max_receive_size, app.max_active_last.get(), app.max_active_bytes.get())));
        }
    }
    if v5 && rm != usize::MAX && max_overlap as usize > rm && exceeded.is_none() && !unjudged {
        // QoS 0 publishes do not count against Receive Maximum: only flag when QoS>0 alone exceed it
        let q = sent_pubs.iter().filter(|(_, _, s, _)| s.qos > 0).count();
        if q > rm && overlap_qos(&app) > rm {
            return Err(fail(&c, "overlap-exceeds-receive-maximum", format!("Receive Maximum {rm} but more QoS>0 handlers ran at once")));
        }
    }
    // ---- liveness at quiescence
    if exceeded.is_none() && !unjudged {
        app.open_all();
        eut.settle().await;
        // a conforming peer may still hold back publishes: send the rest now that everything completes
        let mut rounds = 0;
        while next < c.items.len() && rounds < 50 {
            rounds += 1;
            if let Item::Pub(spec) = c.items[next] {
                let pid = next as u16 + 1;
                if spec.qos > 0 && outstanding(&eut, &sent_pubs) >= rm {
                    eut.settle().await;
                    if outstanding(&eut, &sent_pubs) >= rm {
                        return Err(fail(&c, "stall", format!("all gates open but {} QoS>0 publishes stay unacknowledged", outstanding(&eut, &sent_pubs))));
                    }
                    continue;
                }
                let pb = s5::Publish5 { qos: spec.qos, pid: (spec.qos > 0).then_some(pid), topic: "t/a".into(), payload_len: spec.payload, ..Default::default() };
                let payload = wire::payload(u32::from(pid), spec.payload);
                eut.peer_send(&P5::Publish(Box::new(pb.clone())), &payload);
                let bytes = eut.encode(&P5::Publish(Box::new(pb)), &payload);
                let rl = match wire::split(&bytes) {
                    wire::Split::Frame { rl, .. } => u64::from(rl),
                    _ => 0,
                };
                sent_pubs.push((next, pid, spec, rl));
            } else if c.role.is_server() {
                match c.items[next] {
                    Item::Ping => {
                        eut.peer_send(&P5::PingReq, &[]);
                        pings += 1;
                    }
                    Item::Sub => {
                        eut.peer_send(&P5::Subscribe(s5::Sub5 { pid: 2000 + next as u16, filters: vec![("a".into(), s5::SubOpts::default())], ..Default::default() }), &[]);
                        subs += 1;
                    }
                    Item::Pub(_) => {}
                }
            }
            next += 1;
            eut.settle().await;
        }
        for _ in 0..3 {
            let (pk, _) = eut.packets();
            for (_, pid, spec, _) in &sent_pubs {
                if spec.qos == 2 && !rel_sent.contains(pid) && pk.iter().any(|w| matches!(&w.pkt, P5::PubRec(a) if a.pid == *pid && a.reason < 0x80)) {
                    rel_sent.push(*pid);
                    eut.peer_send(&P5::PubRel(s5::Ack5 { pid: *pid, ..Default::default() }), &[]);
                }
            }
            eut.settle().await;
        }
        if c.role.is_server() {
            eut.peer_send(&P5::PingReq, &[]);
            pings += 1;
        }
        eut.settle().await;
        let (pk, tail) = eut.packets();
        if !matches!(tail, WireTail::Clean) {
            return Err(fail(&c, "wire-garbage", format!("{tail:?}")));
        }
        let stops = app.stops();
        if let Some(d) = pk.iter().find_map(|w| if let P5::Disconnect(d) = &w.pkt { Some(d.reason) } else { None }) {
            if d == 0x93 {
                return Err(Failure::new(
                    "conforming-peer-refused",
                    format!("C12/{}/conforming-peer-refused-0x93", c.role.name()),
                    format!("peer stayed within Receive Maximum {rm} (QoS>0 PUBLISH only) but was disconnected with 0x93; log {:?}", crate::props::c03::brief_log(&app.events())),
                ));
            }
        }
        if !stops.is_empty() || eut.done().is_some() {
            return Err(fail(&c, "healthy-connection-ended", format!("stops {stops:?}, done {:?}", eut.done())));
        }
        let enters = app.pub_enters().len();
        if enters != sent_pubs.len() {
            return Err(fail(&c, "publish-never-handled", format!("{} publishes sent, {enters} handled with all gates open; unread {} bytes; log {:?}", sent_pubs.len(), eut.peer().unread(), crate::props::c03::brief_log(&app.events()))));
        }
        // payloads read to the end
        let evs = app.events();
        for (pos, (_, pid, spec, _)) in sent_pubs.iter().enumerate() {
            let want = wire::payload(u32::from(*pid), spec.payload);
            // handler seq follows arrival order
            let read = evs.iter().find_map(|e| if let Ev::PubRead { seq, data, end } = e { (*seq == pos as u32).then_some((data.clone(), end.clone())) } else { None });
            match read {
                Some((d, ReadEnd::Eof)) if d == want => {}
                other => return Err(fail(&c, "payload-not-read", format!("publish id {pid}: reader got {:?}", other.map(|(d, e)| (d.len(), e))))),
            }
            if spec.qos > 0 {
                let acked = pk.iter().any(|w| matches!(&w.pkt, P5::PubAck(a) | P5::PubRec(a) if a.pid == *pid));
                if !acked {
                    return Err(fail(&c, "publish-not-acknowledged", format!("publish id {pid} never acknowledged")));
                }
            }
        }
        let got_p = pk.iter().filter(|w| matches!(w.pkt, P5::PingResp)).count();
        let got_s = pk.iter().filter(|w| matches!(w.pkt, P5::SubAck(_))).count();
        if got_p != pings || got_s != subs {
            return Err(fail(&c, "control-unanswered", format!("{pings} PINGREQ / {subs} SUBSCRIBE sent, {got_p} PINGRESP / {got_s} SUBACK received")));
        }
    }
    eut.finish().await;
    let trace: Vec<(u8, u8)> = c.items.iter().map(|i| match i { Item::Pub(p) => (p.qos, u8::from(p.pieces > 1)), Item::Ping => (9, 0), Item::Sub => (8, 0) }).collect();
    let mut info = if limit_reached || exceeded.is_some() {
        CaseInfo::nontrivial(&(c.role, c.max_receive, c.max_receive_size.min(70_000), &trace, exceeded.is_some(), c.burst))
    } else {
        CaseInfo::trivial()
    };
    if limit_reached {
        info.labels.push("limit-reached");
    }
    if exceeded.is_some() {
        info.labels.push("peer-exceeds-receive-maximum");
    }
    if streamed {
        info.labels.push("delivered-in-pieces");
    }
    info.labels.push(c.role.name());
    Ok(info)
}

/// QoS>0 handler overlap computed from the log
fn overlap_qos(app: &App) -> usize {
    let log = app.log.borrow();
    let mut cur = 0usize;
    let mut max = 0usize;
    let mut q: BTreeMap<u32, bool> = BTreeMap::new();
    for e in log.iter() {
        match e {
            Ev::PubEnter { seq, seen } => {
                q.insert(*seq, seen.qos > 0);
                if seen.qos > 0 {
                    cur += 1;
                    max = max.max(cur);
                }
            }
            Ev::PubExit { seq, .. } | Ev::PubDrop { seq } => {
                if q.get(seq) == Some(&true) {
                    cur = cur.saturating_sub(1);
                }
            }
            _ => {}
        }
    }
    max
}

fn v5_bypass_ok(_c: &Case) -> bool {
    false
}

fn break_on_exceed(c: &Case, eut: &Eut, pid: u16) -> Result<(), Failure> {
    let app = eut.app();
    if app.pub_enters().iter().any(|(_, s)| s.pid == Some(pid)) {
        return Err(fail(c, "surplus-publish-handled", format!("publish id {pid} exceeding Receive Maximum {} reached the handler", c.max_receive)));
    }
    let (pk, _) = eut.packets();
    let code = pk.iter().find_map(|w| if let P5::Disconnect(d) = &w.pkt { Some(d.reason) } else { None });
    if code != Some(0x93) {
        return Err(fail(c, "exceed-not-0x93", format!("peer exceeded Receive Maximum {} with id {pid}: DISCONNECT reason {code:?}, stops {:?}", c.max_receive, app.stops())));
    }
    Ok(())
}

/// Deterministic scenarios around two boundary conditions the generated bursts seldom hit.
#[derive(Clone, Copy, Debug, PartialEq, Eq, Hash, Serialize, Deserialize)]
pub enum Fixed {
    /// v5: a QoS 1 PUBLISH re-using an id that is still being handled is answered with 0x91; afterwards a peer that
    /// fills exactly Receive Maximum must not be refused
    DupThenFull { role: Role, rm: u16, dups: u8 },
    /// byte limit L: handlers for A (size a) and B are running, C waits; B finishes and leaves exactly `a` bytes in
    /// flight: C must start although A is still running whenever a <= L
    ByteBoundary { role: Role, limit: u16, a: u16 },
    /// v5: a peer that repeats a PUBREL while the first is being handled must not gain Receive Maximum slots:
    /// with `rm` publishes really in flight the next one is still refused with 0x93
    DupRelThenExceed { role: Role, rm: u16 },
    /// v5: no Receive Maximum was announced to the peer (client: CONNECT without the property; server: max_receive 0), so
    /// the peer may have 65 535 publishes outstanding; `cfg_max` is the endpoint's own concurrency setting.  A peer with
    /// `n` unacknowledged publishes is never refused, and all of them are handled once handlers finish
    Unannounced { role: Role, cfg_max: u16, n: u16 },
    /// two overlapping streamed publishes: the handler of the first (complete) one finishes while the payload of the second,
    /// which is larger than the byte limit, is still arriving: the remaining chunks are still handed to its reader
    OverlapStreamed { role: Role, limit: u16, first_done_early: bool },
}

fn ffail(role: Role, rule: &str, detail: String) -> Failure {
    Failure::new(rule, format!("C12/{}/{rule}", role.name()), detail)
}

/// PUBLISH QoS 1 "t/a" whose Remaining Length is exactly `size`
fn publish_of_size(eut: &Eut, pid: u16, size: u16) -> Vec<u8> {
    for p in 0..=u32::from(size) {
        let pb = s5::Publish5 { qos: 1, pid: Some(pid), topic: "t/a".into(), payload_len: p, ..Default::default() };
        let bytes = eut.encode(&P5::Publish(Box::new(pb)), &wire::payload(u32::from(pid), p));
        if let wire::Split::Frame { rl, .. } = wire::split(&bytes) {
            if rl == u32::from(size) {
                return bytes;
            }
        }
    }
    panic!("no payload gives Remaining Length {size}");
}

pub async fn run_fixed(fx: Fixed) -> Result<CaseInfo, Failure> {
    match fx {
        Fixed::DupThenFull { role, rm, dups } => {
            let mut cfg = Cfg::default();
            cfg.v5.max_receive = rm;
            cfg.v5.connect.receive_max = Some(rm);
            let eut = Eut::start(role, &cfg).await;
            eut.handshake(&cfg).await;
            let app = eut.app().clone();
            app.default_open.set(false);
            let publish = |pid: u16| P5::Publish(Box::new(s5::Publish5 { qos: 1, pid: Some(pid), topic: "t/a".into(), payload_len: 1, ..Default::default() }));
            eut.peer_send(&publish(1), &[1]);
            eut.settle().await;
            // the duplicates: never more than Receive Maximum unacknowledged at once
            for k in 0..dups {
                eut.peer_send(&publish(1), &[2]);
                eut.settle().await;
                let (pk, _) = eut.packets();
                let refused = pk.iter().filter(|w| matches!(&w.pkt, P5::PubAck(a) if a.pid == 1 && a.reason == 0x91)).count();
                if refused != usize::from(k) + 1 {
                    return Err(ffail(role, "duplicate-id-not-refused", format!("duplicate #{k} of id 1: {refused} PUBACK(0x91) so far; handlers entered {}; stops {:?}", app.pub_enters().len(), app.stops())));
                }
            }
            if app.pub_enters().len() != 1 {
                return Err(ffail(role, "duplicate-id-delivered", format!("{} handlers entered for one accepted publish", app.pub_enters().len())));
            }
            app.open_all();
            app.default_open.set(false);
            eut.settle().await;
            // everything acknowledged: the peer may now have Receive Maximum publishes outstanding
            for i in 0..rm {
                eut.peer_send(&publish(10 + i), &[3]);
                eut.settle().await;
            }
            let (pk, _) = eut.packets();
            if let Some(d) = pk.iter().find_map(|w| if let P5::Disconnect(d) = &w.pkt { Some(d.reason) } else { None }) {
                return Err(Failure::new(
                    "conforming-peer-refused",
                    format!("C12/{}/conforming-peer-refused-0x93", role.name()),
                    format!("after {dups} refused duplicate(s) of an id in use the peer sent exactly Receive Maximum = {rm} publishes and was disconnected with reason {d:#x}; stops {:?}", app.stops()),
                ));
            }
            if app.pub_enters().len() != 1 + usize::from(rm) {
                return Err(ffail(role, "publish-never-handled", format!("Receive Maximum {rm}: {} of {} publishes reached a handler; stops {:?}", app.pub_enters().len() - 1, rm, app.stops())));
            }
            app.open_all();
            eut.settle().await;
            let (pk, _) = eut.packets();
            let acks = pk.iter().filter(|w| matches!(&w.pkt, P5::PubAck(a) if a.pid >= 10 && a.reason == 0)).count();
            if acks != usize::from(rm) || !app.stops().is_empty() {
                return Err(ffail(role, "publish-not-acknowledged", format!("{acks} of {rm} acknowledged; stops {:?}", app.stops())));
            }
            eut.finish().await;
            Ok(CaseInfo::nontrivial(&fx).label("duplicate-id-then-full-window"))
        }
        Fixed::Unannounced { role, cfg_max, n } => {
            let mut cfg = Cfg::default();
            cfg.v5.max_receive = cfg_max;
            cfg.v5.connect.receive_max = None;
            let eut = Eut::start(role, &cfg).await;
            let hs = eut.handshake(&cfg).await;
            // what was really announced (server: CONNACK; client: its own CONNECT)
            let announced = hs.iter().find_map(|w| match &w.pkt {
                P5::ConnAck(a) => Some(a.receive_max),
                P5::Connect(c) => Some(c.receive_max),
                _ => None,
            });
            if announced != Some(None) {
                eut.finish().await;
                return Ok(CaseInfo::trivial().label("receive-maximum-announced"));
            }
            let app = eut.app().clone();
            app.default_open.set(false);
            let publish = |pid: u16| P5::Publish(Box::new(s5::Publish5 { qos: 1, pid: Some(pid), topic: "t/a".into(), payload_len: 1, ..Default::default() }));
            for i in 0..n {
                eut.peer_send(&publish(1 + i), &[7]);
            }
            eut.settle().await;
            let refused = |eut: &Eut| eut.packets().0.iter().find_map(|w| if let P5::Disconnect(d) = &w.pkt { Some(d.reason) } else { None });
            let mut rounds = 0;
            loop {
                if let Some(d) = refused(&eut) {
                    return Err(Failure::new(
                        "conforming-peer-refused",
                        format!("C12/{}/conforming-peer-refused-0x93", role.name()),
                        format!("no Receive Maximum was announced (65 535 applies), the endpoint's own max_receive is {cfg_max}; the peer sent {n} QoS 1 publishes and was disconnected with reason {d:#x} after {} had reached a handler; stops {:?}", app.pub_enters().len(), app.stops()),
                    ));
                }
                if !app.stops().is_empty() || eut.done().is_some() {
                    return Err(ffail(role, "conforming-peer-connection-ended", format!("{n} publishes against an unannounced Receive Maximum: stops {:?} done {:?}", app.stops(), eut.done())));
                }
                let acks = eut.packets().0.iter().filter(|w| matches!(&w.pkt, P5::PubAck(a) if a.reason == 0)).count();
                if acks == usize::from(n) {
                    break;
                }
                rounds += 1;
                if rounds > usize::from(n) + 4 {
                    return Err(ffail(role, "publish-never-handled", format!("{acks} of {n} publishes acknowledged, {} handled, with all gates opened {rounds} times; unread input {}", app.pub_enters().len(), eut.peer().unread())));
                }
                app.open_all();
                app.default_open.set(false);
                eut.settle().await;
            }
            let overlap = app.max_active_pub.get();
            eut.finish().await;
            Ok(CaseInfo::nontrivial(&fx).label(if overlap as u64 >= u64::from(n) { "unannounced-receive-maximum-all-concurrent" } else { "unannounced-receive-maximum-paced" }))
        }
        Fixed::OverlapStreamed { role, limit, first_done_early } => {
            let mut cfg = Cfg::default();
            cfg.v3.max_receive = 0;
            cfg.v5.max_receive = 0;
            cfg.v3.max_receive_size = usize::from(limit);
            cfg.v5.max_receive_size = usize::from(limit);
            cfg.v3.min_chunk_size = 4;
            cfg.v5.min_chunk_size = 4;
            let eut = Eut::start(role, &cfg).await;
            eut.handshake(&cfg).await;
            let app = eut.app().clone();
            app.default_open.set(false);
            let big = u32::from(limit) * 3 + 8;
            let a = eut.encode(&P5::Publish(Box::new(s5::Publish5 { qos: 1, pid: Some(1), topic: "t/a".into(), payload_len: 24, ..Default::default() })), &wire::payload(1, 24));
            let b = eut.encode(&P5::Publish(Box::new(s5::Publish5 { qos: 1, pid: Some(2), topic: "t/a".into(), payload_len: big, ..Default::default() })), &wire::payload(2, big));
            // A in two writes (streamed), completely delivered; its handler waits at its gate
            eut.peer().send(&a[..a.len() - 10]);
            eut.settle().await;
            eut.peer().send(&a[a.len() - 10..]);
            eut.settle().await;
            // B: header and the first 12 payload bytes
            let head = b.len() - big as usize + 12;
            eut.peer().send(&b[..head]);
            eut.settle().await;
            if app.pub_enters().len() < 2 {
                // the byte limit paused reading before B's handler started: nothing overlaps, nothing to judge here
                app.open_all();
                eut.peer().send(&b[head..]);
                eut.settle().await;
                eut.finish().await;
                return Ok(CaseInfo::trivial().label("overlap-streamed-second-not-started"));
            }
            if first_done_early {
                app.open(G_PUB, 0);
                eut.settle().await;
            }
            // the rest of B's payload in two writes
            let mid = head + (b.len() - head) / 2;
            eut.peer().send(&b[head..mid]);
            eut.settle().await;
            eut.peer().send(&b[mid..]);
            eut.settle().await;
            app.open_all();
            eut.settle().await;
            let evs = app.events();
            let got: usize = evs.iter().filter_map(|e| if let Ev::PubRead { seq: 1, data, .. } = e { Some(data.len()) } else { None }).sum();
            let eof = evs.iter().any(|e| matches!(e, Ev::PubRead { seq: 1, end: ReadEnd::Eof, .. }));
            let (pk, _) = eut.packets();
            let acked = pk.iter().filter(|w| matches!(&w.pkt, P5::PubAck(x) if x.pid == 2)).count();
            if got != big as usize || !eof || acked != 1 || !app.stops().is_empty() {
                return Err(Failure::new(
                    "payload-not-read",
                    format!("C12/{}/payload-not-read/overlapping-streams", role.name()),
                    format!("byte limit {limit}: a {big}-byte payload was being streamed when {}: its reader got {got} bytes (end of payload seen: {eof}), PUBACKs for it: {acked}; stops {:?}; unread input {}", if first_done_early { "the handler of an older publish finished" } else { "an older publish was still being handled" }, app.stops(), eut.peer().unread()),
                ));
            }
            eut.finish().await;
            Ok(CaseInfo::nontrivial(&fx).label("overlapping-streamed-publishes"))
        }
        Fixed::DupRelThenExceed { role, rm } => {
            let mut cfg = Cfg::default();
            cfg.v5.max_receive = rm;
            cfg.v5.connect.receive_max = Some(rm);
            let eut = Eut::start(role, &cfg).await;
            eut.handshake(&cfg).await;
            let app = eut.app().clone();
            let publish = |qos: u8, pid: u16| P5::Publish(Box::new(s5::Publish5 { qos, pid: Some(pid), topic: "t/a".into(), payload_len: 1, ..Default::default() }));
            // QoS 2 id 1 handled at once -> PUBREC; rm-1 QoS 1 publishes stay in their handlers
            eut.peer_send(&publish(2, 1), &[1]);
            eut.settle().await;
            app.default_open.set(false);
            for i in 0..rm - 1 {
                eut.peer_send(&publish(1, 10 + i), &[1]);
            }
            eut.settle().await;
            if app.pub_enters().len() != usize::from(rm) {
                return Err(ffail(role, "harness-scenario", format!("{} handlers entered, expected {rm}; stops {:?}", app.pub_enters().len(), app.stops())));
            }
            // PUBREL twice while the protocol handler of the first is parked
            eut.peer_send(&P5::PubRel(s5::Ack5 { pid: 1, ..Default::default() }), &[]);
            eut.peer_send(&P5::PubRel(s5::Ack5 { pid: 1, ..Default::default() }), &[]);
            eut.settle().await;
            // release the protocol handlers only
            let ctl: Vec<u32> = app.events().iter().filter_map(|e| if let Ev::CtlEnter { seq, .. } = e { Some(*seq) } else { None }).collect();
            for seq in 0..4u32 {
                app.open(G_CTL, seq);
            }
            let _ = ctl;
            eut.settle().await;
            if !app.stops().is_empty() {
                // the repeated PUBREL was treated as a violation: nothing more to probe
                eut.finish().await;
                return Ok(CaseInfo::nontrivial(&fx).label("duplicate-pubrel-refused"));
            }
            // really in flight now: rm-1 publishes.  One more fills the window, the one after it exceeds it.
            let before = app.pub_enters().len();
            eut.peer_send(&publish(1, 50), &[1]);
            eut.settle().await;
            if app.pub_enters().len() != before + 1 || !app.stops().is_empty() {
                return Err(ffail(role, "conforming-peer-refused", format!("publish within Receive Maximum {rm} after the QoS 2 exchange completed was not handled; stops {:?}", app.stops())));
            }
            eut.peer_send(&publish(1, 51), &[1]);
            eut.settle().await;
            let (pk, _) = eut.packets();
            let code = pk.iter().find_map(|w| if let P5::Disconnect(d) = &w.pkt { Some(d.reason) } else { None });
            if app.pub_enters().len() != before + 1 || code != Some(0x93) {
                return Err(Failure::new(
                    "surplus-publish-handled",
                    format!("C12/{}/surplus-publish-handled/after-duplicate-pubrel", role.name()),
                    format!("Receive Maximum {rm}: {rm} QoS 1 publishes are inside handlers and one more arrived: handled {} (expected {}), DISCONNECT {code:?} (expected 0x93); a PUBREL had been sent twice while its handler ran", app.pub_enters().len() - before, 1),
                ));
            }
            eut.finish().await;
            Ok(CaseInfo::nontrivial(&fx).label("duplicate-pubrel-then-exceed"))
        }
        Fixed::ByteBoundary { role, limit, a } => {
            let mut cfg = Cfg::default();
            cfg.v3.max_receive = 0;
            cfg.v5.max_receive = 0;
            cfg.v3.max_receive_size = usize::from(limit);
            cfg.v5.max_receive_size = usize::from(limit);
            let eut = Eut::start(role, &cfg).await;
            eut.handshake(&cfg).await;
            let app = eut.app().clone();
            app.default_open.set(false);
            let half = limit / 2;
            eut.peer().send(&publish_of_size(&eut, 1, a));
            eut.settle().await;
            eut.peer().send(&publish_of_size(&eut, 2, half));
            eut.settle().await;
            eut.peer().send(&publish_of_size(&eut, 3, half));
            eut.settle().await;
            let before = app.pub_enters().len();
            if before < 1 {
                return Err(ffail(role, "publish-never-handled", "the first publish did not reach its handler".into()));
            }
            // B (the second handler) finishes first
            if before >= 2 {
                app.open(G_PUB, 1);
                eut.settle().await;
            }
            let after = app.pub_enters().len();
            // bytes in flight now: a (+ C once it started).  The limiter admits while bytes in flight <= limit.
            if before == 2 && a <= limit && after < 3 {
                return Err(Failure::new(
                    "reading-not-resumed",
                    format!("C12/{}/reading-not-resumed", role.name()),
                    format!("max_receive_size {limit}: handlers for A ({a} bytes) and B ({half}) were running and C ({half}) waited; B finished, {a} bytes remain in flight (within the limit) but C was not started while A keeps running; log {:?}", crate::props::c03::brief_log(&app.events())),
                ));
            }
            app.open_all();
            eut.settle().await;
            if app.pub_enters().len() != 3 || !app.stops().is_empty() {
                return Err(ffail(role, "publish-never-handled", format!("{} of 3 publishes handled with all gates open; stops {:?}", app.pub_enters().len(), app.stops())));
            }
            eut.finish().await;
            let mut info = if before == 2 { CaseInfo::nontrivial(&fx) } else { CaseInfo::trivial() };
            if before == 2 && a == limit {
                info.labels.push("byte-limit-exactly-reached");
            }
            info.labels.push("byte-boundary");
            Ok(info)
        }
    }
}

pub fn fixed_cases() -> Vec<Fixed> {
    let mut out = Vec::new();
    for role in [Role::V5Server, Role::V5Client] {
        for rm in 2..5u16 {
            for dups in 1..=(rm as u8 - 1).min(2) {
                out.push(Fixed::DupThenFull { role, rm, dups });
            }
        }
    }
    for rm in 2..5u16 {
        out.push(Fixed::DupRelThenExceed { role: Role::V5Server, rm });
    }
    for (cfg_max, n) in [(1u16, 6u16), (2, 8), (16, 20), (16, 40)] {
        out.push(Fixed::Unannounced { role: Role::V5Client, cfg_max, n });
    }
    out.push(Fixed::Unannounced { role: Role::V5Server, cfg_max: 0, n: 40 });
    for role in [Role::V3Server, Role::V5Server, Role::V3Client] {
        for limit in [32u16, 64] {
            for first_done_early in [true, false] {
                out.push(Fixed::OverlapStreamed { role, limit, first_done_early });
            }
        }
    }
    for role in [Role::V3Server, Role::V5Server] {
        for limit in [60u16, 100, 200] {
            for a in [limit - 2, limit - 1, limit, limit + 1, limit / 2, limit / 2 + 1] {
                out.push(Fixed::ByteBoundary { role, limit, a });
            }
        }
    }
    out
}

fn item_strategy(server: bool) -> BoxedStrategy<Item> {
    let p = (0u8..3, prop_oneof![3 => 0u32..40, 2 => 40u32..200, 1 => 900u32..1200], prop_oneof![3 => Just(1u8), 1 => 2u8..4])
        .prop_map(|(qos, payload, pieces)| Item::Pub(PubSpec { qos, payload, pieces }));
    if server {
        prop_oneof![8 => p, 1 => Just(Item::Ping), 1 => Just(Item::Sub)].boxed()
    } else {
        p.boxed()
    }
}

fn case_strategy(role: Role) -> BoxedStrategy<Case> {
    (
        if matches!(role, Role::V3Server | Role::V3Client) { prop::sample::select(vec![0u16, 1, 2, 3, 4]) } else { prop::sample::select(vec![1u16, 2, 3, 4, 0]) },
        prop::sample::select(vec![0usize, 1, 8, 64, 1024, 65_535]),
        prop::collection::vec(item_strategy(role.is_server()), 1..11),
        1u8..5,
        prop::collection::vec(any::<u8>(), 12),
        prop_oneof![3 => Just(None), 1 => (0u8..6).prop_map(Some)],
    )
        .prop_map(move |(max_receive, max_receive_size, items, burst, open_order, exceed_at)| Case {
            role,
            max_receive,
            max_receive_size,
            items,
            burst,
            open_order,
            exceed_at: if role.is_v5() { exceed_at } else { None },
        })
        .boxed()
}

pub fn check_case(c: &Case) -> Result<CaseInfo, Failure> {
    run_isolated("C12", c.clone(), &run_case)
}

pub fn run(ctx: &Ctx, started: Instant) -> i32 {
    let per_shard = ctx.tier.pick(10_000u32, 100_000);
    let stats = par_shards(WORKERS, |shard| {
        let mut st = Stats::default();
        let role = [Role::V3Server, Role::V5Server, Role::V5Client, Role::V3Client][shard % 4];
        let mine: Vec<Fixed> = fixed_cases().into_iter().enumerate().filter(|(i, _)| i % WORKERS == shard).map(|(_, f)| f).collect();
        run_list_bed("C12", mine, &mut st, |f| json!({"fixed": f}), run_fixed);
        run_proptest_bed("C12", ctx.sub_seed("rand", shard), per_shard, &case_strategy(role), &mut st, |c| json!({"case": c}), run_case);
        st
    });
    let report = Report {
        level: "exploration",
        rule: "bursts of 1..10 items (PUBLISH QoS 0/1/2 with payloads 0..1200 bytes, some delivered in 2..3 writes with min_chunk_size 16 so that payloads are streamed; PINGREQ; SUBSCRIBE with a gated handler) written 1..4 at a time, \
               every handler gated and released in generated order, against the v3 default middleware (max_receive 0..4 x max_receive_size {0,1,8,64,1024,65535}), the v5 server and the v5 client (Receive Maximum 1..4, 0 = unlimited). \
               The v5 peer is conforming (never more than Receive Maximum unacknowledged QoS>0 PUBLISH; SUBSCRIBE may be outstanding too) or exceeds the limit at a generated publish. Oracle: handler overlap and packet bytes \
               within the limits (one packet of slack), 0x93 exactly for the exceeding peer, and at quiescence with all gates open every publish handled, every payload read to its end, everything acknowledged, PINGREQ answered. \
               Non-trivial = the limit was reached (input left unread / publish not yet entered) or the peer exceeded; distinct = (role, limits, item kinds, exceed?, burst)"
            .into(),
        exhaustive: false,
        assumptions: vec![
            "Receive Maximum counts QoS 1/2 PUBLISH packets only, as the specification defines it".into(),
            "chunks of a payload being streamed bypass the limiter by design and are not counted as invocations".into(),
        ],
        extra: BTreeMap::new(),
    };
    finish(ctx, started, stats, report)
}

pub fn replay(path: &str) -> i32 {
    let case = super::load_case(path);
    if !case["fixed"].is_null() {
        let res = serde_json::from_value::<Fixed>(case["fixed"].clone()).map_err(|e| e.to_string()).map(|f| run_isolated("C12", f, &run_fixed));
        return super::report_replay("C12", path, res);
    }
    let res = serde_json::from_value::<Case>(case["case"].clone()).map_err(|e| e.to_string()).map(|c| check_case(&c));
    super::report_replay("C12", path, res)
}
