//! C14 — concurrent QoS 2 sends complete independently.  Exhaustive small
//! schedules: m concurrent `send_exactly_once`, PUBRECs singly or batched,
//! receipts released or dropped in every order, PUBCOMPs singly or batched,
//! optional QoS 1 traffic in between.

use std::collections::BTreeMap;
use std::time::Instant;

use serde::{Deserialize, Serialize};
use serde_json::json;

use crate::bed::v5::{SendErr, SendKind, SendRes};
use crate::bed::*;
use crate::runner::*;
use crate::sinkbed::*;

#[derive(Clone, Debug, PartialEq, Eq, Hash, Serialize, Deserialize)]
pub struct Case {
    pub role: Role,
    pub m: u8,
    /// 0 = no QoS 1 traffic, 1 = a QoS 1 send before the QoS 2 sends, 2 = after them, 3 = after the PUBRECs
    pub qos1: u8,
    pub rec_batch: bool,
    pub poll_between: bool,
    /// order in which receipts are released / dropped (indices of the sends)
    pub rel_order: Vec<u8>,
    /// bit i set = receipt of send i is dropped instead of released
    pub drop_mask: u8,
    pub comp_batch: bool,
    /// true = PUBREC i, release i, PUBREC i+1 ... ; false = all PUBRECs first
    pub pipelined: bool,
    /// the send window is exactly as large as the number of exchanges outstanding at once (nothing to spare)
    #[serde(default)]
    pub tight: bool,
    /// v5: the peer refuses the publishes with odd packet ids with a negative PUBREC (0x87)
    #[serde(default)]
    pub neg: bool,
    /// while the exchanges are open a further exactly-once send asks for the packet id of the first one (caller-chosen id):
    /// it is refused with PacketIdInUse and must not touch the exchange that owns the id
    #[serde(default)]
    pub collide: bool,
    /// the receipts of `drop_mask` are not dropped as they are: `release()` is called and the future it returns is dropped
    /// before its first poll (the receipt handle is gone either way)
    #[serde(default)]
    pub rel_cancel: bool,
}

fn fail(c: &Case, rule: &str, detail: String) -> Failure {
    Failure::new(rule, format!("C14/{}/{rule}", c.role.name()), detail)
}

pub async fn run_case(c: Case) -> Result<CaseInfo, Failure> {
    let m = usize::from(c.m);
    let limit = if c.tight { c.m as u16 + u16::from(c.qos1 != 0) } else { c.m as u16 + 2 };
    let mut w = World::start(c.role, limit, LimitHow::Config, 0).await.map_err(|f| fail(&c, "harness-handshake", f.detail))?;
    w.neg_pubrec = c.neg && c.role.is_v5();
    let e = |f: Failure| fail(&c, &f.rule.clone(), f.detail);
    let mut q1_slot: Option<usize> = None;
    if c.qos1 == 1 {
        w.apply(Op::Send { kind: SendKind::Qos1, again: false, own_id: 0 }).await.map_err(e)?;
        q1_slot = Some(w.slots.len() - 1);
    }
    let first_q2 = w.slots.len();
    for _ in 0..m {
        w.apply(Op::Send { kind: SendKind::Qos2, again: false, own_id: 0 }).await.map_err(e)?;
    }
    if c.qos1 == 2 {
        w.apply(Op::Send { kind: SendKind::Qos1, again: false, own_id: 0 }).await.map_err(e)?;
        q1_slot = Some(w.slots.len() - 1);
    }
    w.apply(Op::Settle).await.map_err(e)?;
    // wire ids of the publishes, by sender
    let id_of = |w: &World, slot: usize| -> Option<u16> { w.requests.iter().find(|r| r.t == 3 && r.tag == Some(slot)).map(|r| r.id) };
    let mut ids: Vec<u16> = Vec::new();
    for i in 0..m {
        match id_of(&w, first_q2 + i) {
            Some(id) if id != 0 && !ids.contains(&id) => ids.push(id),
            other => return Err(fail(&c, "publish-ids", format!("QoS 2 send #{i}: packet id on the wire {other:?}, earlier ids {ids:?}"))),
        }
    }

    if c.collide {
        let before = w.slots.len();
        w.force_send_own(SendKind::Qos2, ids[0] as u8);
        match w.slots.get(before).and_then(|s| s.result.clone()) {
            Some(SendRes::Err(SendErr::PacketIdInUse(id))) if id == ids[0] => {}
            other => return Err(fail(&c, "colliding-send", format!("an exactly-once send asking for the in-use packet id {} ended as {other:?}", ids[0]))),
        }
        w.apply(Op::Settle).await.map_err(e)?;
    }
    let mut released_order: Vec<usize> = Vec::new();
    let mut rel_slot: Vec<Option<usize>> = vec![None; m];
    let mut both_between = false;

    // one step of the application: release or drop the receipt of send i
    async fn do_release(c: &Case, w: &mut World, i: usize, first_q2: usize, ids: &[u16], rel_slot: &mut [Option<usize>]) -> Result<(), Failure> {
        let slot = first_q2 + i;
        let mut negative = false;
        let ridx = match &w.slots[slot].result {
            Some(SendRes::Receipt(idx, ack)) => {
                if c.role.is_v5() && ack.pid != ids[i] {
                    return Err(fail(c, "receipt-of-other-send", format!("send #{i} (id {}) resolved with the PUBREC of id {}", ids[i], ack.pid)));
                }
                if w.neg_pubrec && (ack.reason >= 0x80) != (ids[i] % 2 == 1) {
                    return Err(fail(c, "receipt-contents", format!("send #{i} (id {}) resolved with PUBREC reason {:#x}", ids[i], ack.reason)));
                }
                negative = ack.reason >= 0x80;
                *idx
            }
            other => return Err(fail(c, "send-not-resolved", format!("send #{i} (id {}) did not resolve with a receipt after its PUBREC: {other:?}; futures {:?}", ids[i], w.results_summary()))),
        };
        let before = w.requests.iter().filter(|r| r.t == 6).count();
        let credit_before = w.eut.credit();
        let pos = w.receipts.iter().position(|r| r.1 == ridx && r.2).ok_or_else(|| fail(c, "harness-receipt", "receipt bookkeeping".into()))?;
        if c.drop_mask >> i & 1 == 1 {
            w.receipts[pos].2 = false;
            if c.rel_cancel {
                drop(w.eut.release(ridx));
            } else {
                w.eut.drop_receipt(ridx);
            }
            w.step += 1;
        } else {
            // Release(k) picks the k-th live receipt
            let k = w.receipts.iter().filter(|r| r.2).position(|r| r.1 == ridx).unwrap_or(0);
            w.apply(Op::Release(k as u8)).await.map_err(|f| fail(c, &f.rule, f.detail))?;
            rel_slot[i] = Some(w.slots.len() - 1);
            if let Some(SendRes::Err(SendErr::UnexpectedRelease)) = &w.slots[w.slots.len() - 1].result {
                return Err(Failure::new(
                    "unexpected-release",
                    format!("C14/{}/unexpected-release", c.role.name()),
                    format!("release() of send #{i} (id {}) failed with UnexpectedRelease", ids[i]),
                ));
            }
        }
        w.apply(Op::Settle).await.map_err(|f| fail(c, &f.rule, f.detail))?;
        let rels: Vec<u16> = w.requests.iter().filter(|r| r.t == 6).map(|r| r.id).collect();
        // after a negative PUBREC the specification ends the exchange without PUBREL: accepted when the slot is given back at once
        let ended_by_pubrec = negative && rels.len() == before && w.eut.credit() == credit_before.map(|c| c + 1);
        if (rels.len() != before + 1 || rels.last() != Some(&ids[i])) && !ended_by_pubrec {
            return Err(Failure::new(
                "pubrel-count",
                format!("C14/{}/pubrel-for-own-id", c.role.name()),
                format!("releasing send #{i} (id {}, dropped: {}) must write exactly one PUBREL for its own id; PUBRELs on the wire: {rels:?}", ids[i], c.drop_mask >> i & 1 == 1),
            ));
        }
        Ok(())
    }

    let answer = |w: &World| w.unanswered.len() as u8;
    if c.pipelined {
        for &ri in &c.rel_order {
            let _ = ri;
        }
        // PUBREC i, release i (in send order), PUBCOMPs per comp_batch
        for i in 0..m {
            // everything received so far is answered in order of receipt
            let n = answer(&w);
            if n > 0 {
                w.apply(Op::Ack { n, batch: c.rec_batch }).await.map_err(e)?;
            }
            w.poll_all();
            do_release(&c, &mut w, i, first_q2, &ids, &mut rel_slot).await?;
            released_order.push(i);
            if !c.comp_batch {
                let n = answer(&w);
                if n > 0 {
                    w.apply(Op::Ack { n, batch: false }).await.map_err(e)?;
                }
                w.poll_all();
            }
        }
    } else {
        // all PUBRECs (and the QoS 1 PUBACK in its place)
        let n = answer(&w);
        if c.rec_batch {
            w.apply(Op::Ack { n, batch: true }).await.map_err(e)?;
            w.poll_all();
        } else {
            for _ in 0..n {
                w.apply(Op::Ack { n: 1, batch: false }).await.map_err(e)?;
                if c.poll_between {
                    w.poll_all();
                }
            }
            w.poll_all();
        }
        if c.qos1 == 3 {
            w.apply(Op::Send { kind: SendKind::Qos1, again: false, own_id: 0 }).await.map_err(e)?;
            q1_slot = Some(w.slots.len() - 1);
            w.apply(Op::Settle).await.map_err(e)?;
        }
        both_between = m >= 2;
        for &ri in &c.rel_order {
            let i = usize::from(ri) % m;
            if released_order.contains(&i) {
                continue;
            }
            do_release(&c, &mut w, i, first_q2, &ids, &mut rel_slot).await?;
            released_order.push(i);
            if !c.comp_batch {
                // the peer answers what it has received so far, in order of receipt
                let n = answer(&w);
                if n > 0 {
                    w.apply(Op::Ack { n, batch: false }).await.map_err(e)?;
                }
                w.poll_all();
                // exactly the releases whose PUBCOMP was delivered are complete
                for (j, rs) in rel_slot.iter().enumerate() {
                    if let Some(s) = rs {
                        let comp_sent = w.acks.iter().any(|a| a.t == 7 && a.id == ids[j]);
                        let done = matches!(w.slots[*s].result, Some(SendRes::Released));
                        if done != comp_sent {
                            return Err(fail(&c, "release-completion", format!("release of id {} complete: {done}, its PUBCOMP delivered: {comp_sent}; futures {:?}", ids[j], w.results_summary())));
                        }
                    }
                }
            }
        }
    }
    // remaining answers (batched PUBCOMPs, QoS 1)
    for _ in 0..4 {
        let n = answer(&w);
        if n > 0 {
            w.apply(Op::Ack { n, batch: c.comp_batch }).await.map_err(e)?;
        }
        w.poll_all();
        w.apply(Op::Settle).await.map_err(e)?;
    }
    // ---- final accounting
    if w.ended() {
        return Err(fail(&c, "connection-ended", format!("stops {:?}; futures {:?}", w.eut.app().stops(), w.results_summary())));
    }
    for i in 0..m {
        let n = w.requests.iter().filter(|r| r.t == 6 && r.id == ids[i]).count();
        if n != 1 && !(n == 0 && w.neg_pubrec && ids[i] % 2 == 1) {
            return Err(Failure::new("pubrel-count", format!("C14/{}/pubrel-for-own-id", c.role.name()), format!("id {}: {n} PUBREL packets on the wire", ids[i])));
        }
        if let Some(s) = rel_slot[i] {
            match &w.slots[s].result {
                Some(SendRes::Released) => {}
                other => return Err(fail(&c, "release-not-complete", format!("release of id {} ended as {other:?} although its PUBCOMP was delivered; futures {:?}", ids[i], w.results_summary()))),
            }
        }
    }
    if let Some(s) = q1_slot {
        if !matches!(w.slots[s].result, Some(SendRes::PubAck(_))) {
            return Err(fail(&c, "qos1-not-complete", format!("QoS 1 send ended as {:?}", w.slots[s].result)));
        }
    }
    if w.eut.credit() != Some(w.limit) {
        return Err(fail(&c, "credit-not-restored", format!("credit() = {:?}, limit {}", w.eut.credit(), w.limit)));
    }
    w.eut.finish().await;
    let mut info = if both_between || c.pipelined { CaseInfo::nontrivial(&c) } else { CaseInfo::trivial() };
    if both_between {
        info.labels.push("several-between-pubrec-and-pubcomp");
    }
    if c.drop_mask != 0 {
        info.labels.push("receipt-dropped");
    }
    if c.qos1 != 0 {
        info.labels.push("with-qos1-traffic");
    }
    info.labels.push(c.role.name());
    Ok(info)
}

fn permutations(n: u8) -> Vec<Vec<u8>> {
    fn rec(items: &[u8]) -> Vec<Vec<u8>> {
        if items.len() <= 1 {
            return vec![items.to_vec()];
        }
        let mut out = Vec::new();
        for i in 0..items.len() {
            let mut rest = items.to_vec();
            let x = rest.remove(i);
            for mut p in rec(&rest) {
                p.insert(0, x);
                out.push(p);
            }
        }
        out
    }
    rec(&(0..n).collect::<Vec<u8>>())
}

pub fn check_case(c: &Case) -> Result<CaseInfo, Failure> {
    run_isolated("C14", c.clone(), &run_case)
}

pub fn run(ctx: &Ctx, started: Instant) -> i32 {
    let max_m = ctx.tier.pick(3u8, 4);
    let mut work: Vec<Case> = Vec::new();
    for role in Role::ALL {
        for m in 2..=max_m {
            for perm in permutations(m) {
                for drop_mask in 0..(1u8 << m) {
                    for flags in 0..16u8 {
                        for qos1 in 0..4u8 {
                            let pipelined = flags & 8 != 0;
                            if pipelined && (perm != (0..m).collect::<Vec<u8>>() || qos1 == 3) {
                                continue;
                            }
                            if m == 4 && qos1 > 1 && flags & 3 != 0 {
                                continue; // keep the thorough space in bounds
                            }
                            work.push(Case { role, m, qos1, rec_batch: flags & 1 != 0, poll_between: flags & 2 != 0, rel_order: perm.clone(), drop_mask, comp_batch: flags & 4 != 0, pipelined, tight: false, neg: false, collide: false, rel_cancel: false });
                            work.push(Case { role, m, qos1, rec_batch: flags & 1 != 0, poll_between: flags & 2 != 0, rel_order: perm.clone(), drop_mask, comp_batch: flags & 4 != 0, pipelined, tight: true, neg: false, collide: false, rel_cancel: false });
                            if drop_mask != 0 && m < 4 && qos1 < 2 {
                                work.push(Case { role, m, qos1, rec_batch: flags & 1 != 0, poll_between: flags & 2 != 0, rel_order: perm.clone(), drop_mask, comp_batch: flags & 4 != 0, pipelined, tight: flags & 2 != 0, neg: false, collide: false, rel_cancel: true });
                            }
                            if m == 2 && qos1 < 2 {
                                work.push(Case { role, m, qos1, rec_batch: flags & 1 != 0, poll_between: flags & 2 != 0, rel_order: perm.clone(), drop_mask, comp_batch: flags & 4 != 0, pipelined, tight: false, neg: false, collide: true, rel_cancel: false });
                            }
                            if role.is_v5() && (m < 4 || flags & 3 == 0) {
                                work.push(Case { role, m, qos1, rec_batch: flags & 1 != 0, poll_between: flags & 2 != 0, rel_order: perm.clone(), drop_mask, comp_batch: flags & 4 != 0, pipelined, tight: flags & 1 != 0, neg: true, collide: false, rel_cancel: false });
                            }
                        }
                    }
                }
            }
        }
    }
    let stats = par_shards(WORKERS, |shard| {
        let mut st = Stats::default();
        let mine: Vec<Case> = work.iter().enumerate().filter(|(i, _)| i % WORKERS == shard).map(|(_, c)| c.clone()).collect();
        run_list_bed("C14", mine, &mut st, |c| json!({"case": c}), run_case);
        st
    });
    let report = Report {
        level: "exploration",
        rule: format!(
            "exhaustive: m = 2..={max_m} concurrent send_exactly_once x every release order x every release/drop mask (a dropped receipt is dropped as it is, or release() is called and its future dropped before the first poll) x PUBRECs one per write or batched x polls between PUBRECs x PUBCOMPs singly or batched x pipelined or phased schedule x (v5) the peer refusing the odd packet ids with a negative PUBREC x a refused send asking for the packet id of the first exchange (m = 2) x send window with two slots to spare or exactly full x \
             QoS 1 send before / after the QoS 2 sends / after the PUBRECs, for v3/v5 servers and clients ({} schedules). The peer answers in order of receipt. Oracle: every send resolves with the receipt of its own id; no release fails with UnexpectedRelease; \
             each release or drop writes exactly one PUBREL with its own id (after a negative PUBREC also accepted: no PUBREL and the slot given back at once); a release completes exactly when its own PUBCOMP was delivered; at the end everything completed, connection alive, credit() == limit. \
             Non-trivial = >= 2 exchanges simultaneously between PUBREC and PUBCOMP (or pipelined); distinct = the schedule",
            work.len()
        ),
        exhaustive: true,
        assumptions: vec!["the peer is conforming: PUBREC in PUBLISH order, PUBCOMP in the order PUBRELs reach it, everything answered in order of receipt".into()],
        extra: BTreeMap::new(),
    };
    finish(ctx, started, stats, report)
}

pub fn replay(path: &str) -> i32 {
    let case = super::load_case(path);
    let res = serde_json::from_value::<Case>(case["case"].clone()).map_err(|e| e.to_string()).map(|c| check_case(&c));
    super::report_replay("C14", path, res)
}
