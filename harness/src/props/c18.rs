//! C18 — topic filter validation and matching follow MQTT section 4.7.
//!
//! Exhaustive strings over {a,b,$,/,+,#} as filters and {a,b,$,/} as topic
//! names, against the reference validator/matcher of `spec::topic`; random
//! unicode levels through proptest.

use std::collections::BTreeMap;
use std::str::FromStr;
use std::time::Instant;

use ntex_bytes::ByteString;
use ntex_mqtt::{TopicFilter, TopicFilterLevel, verif_hooks};
use proptest::prelude::*;
use serde_json::{Value, json};

use crate::runner::*;
use crate::spec::topic as spec;

const FILTER_ALPHA: &[u8] = b"ab$/+#";
const TOPIC_ALPHA: &[u8] = b"ab$/";

/// all strings of length 1..=max over `alpha`, by index
fn count_strings(alpha: usize, max: usize) -> u64 {
    (1..=max).map(|l| (alpha as u64).pow(l as u32)).sum()
}

fn nth_string(alpha: &[u8], mut idx: u64) -> String {
    let n = alpha.len() as u64;
    let mut len = 1;
    loop {
        let c = n.pow(len);
        if idx < c {
            break;
        }
        idx -= c;
        len += 1;
    }
    let mut s = vec![0u8; len as usize];
    for i in (0..len as usize).rev() {
        s[i] = alpha[(idx % n) as usize];
        idx /= n;
    }
    String::from_utf8(s).unwrap()
}

fn nontrivial_filter(f: &str) -> bool {
    f.contains(['+', '#']) || f.starts_with('$') || f.split('/').any(str::is_empty)
}

fn fail(rule: &str, sig: &str, detail: String, case: Value) -> Failure {
    Failure::new(rule, format!("C18/{sig}"), detail).with_case(case)
}

/// oracles 1 and 3 on one string
pub fn check_filter_string(s: &str) -> Result<Option<TopicFilter>, Failure> {
    let case = json!({"kind": "filter", "s": s});
    let want = spec::filter_valid(s);
    let a = TopicFilter::from_str(s);
    let b = TopicFilter::try_from(ByteString::from(s));
    let h = verif_hooks::topic_is_valid(s);
    if a.is_ok() != want || b.is_ok() != want || h != want {
        return Err(fail(
            "validators",
            "validators-disagree",
            format!(
                "filter {s:?}: spec valid={want}, from_str ok={}, try_from(ByteString) ok={}, is_valid={h}",
                a.is_ok(),
                b.is_ok()
            ),
            case,
        ));
    }
    let Ok(tf) = a else { return Ok(None) };
    if b.as_ref().ok() != Some(&tf) {
        return Err(fail(
            "validators",
            "parsers-differ",
            format!("filter {s:?}: from_str and try_from give different filters"),
            case,
        ));
    }
    let shown = tf.to_string();
    if shown != s {
        return Err(fail(
            "display-roundtrip",
            "display-roundtrip",
            format!("filter {s:?} displays as {shown:?}"),
            case,
        ));
    }
    match TopicFilter::try_from(tf.levels().to_vec()) {
        Ok(t2) if t2 == tf => {}
        other => {
            return Err(fail(
                "levels-roundtrip",
                "levels-roundtrip",
                format!("filter {s:?}: try_from(levels) gives {other:?}"),
                case,
            ));
        }
    }
    // the level structure is the section 4.7 split on '/'
    let want_levels: Vec<&str> = s.split('/').collect();
    let got_levels: Vec<String> = tf.levels().iter().map(ToString::to_string).collect();
    if want_levels != got_levels {
        return Err(fail(
            "levels-roundtrip",
            "levels-split",
            format!("filter {s:?}: levels {got_levels:?}"),
            case,
        ));
    }
    Ok(Some(tf))
}

pub fn check_match(f: &str, tf: &TopicFilter, t: &str) -> Result<bool, Failure> {
    let want = spec::matches(f, t);
    let got = tf.matches_topic(t);
    if want != got {
        return Err(fail(
            "match",
            "match-mismatch",
            format!("filter {f:?} topic {t:?}: section 4.7 says {want}, matches_topic says {got}"),
            json!({"kind": "match", "filter": f, "topic": t}),
        ));
    }
    Ok(want)
}

fn cover_failure(f1: &str, f2: &str, t: &str) -> Failure {
    let first = f1.split('/').next().unwrap_or("");
    let sig = if t.starts_with('$') && (first == "+" || first == "#") {
        "cover-unsound/first-level-wildcard-vs-dollar-topic"
    } else {
        "cover-unsound/other"
    };
    fail(
        "cover",
        sig,
        format!(
            "{f1:?}.matches_filter({f2:?}) is true, but topic {t:?} is matched by {f2:?} and not by {f1:?}"
        ),
        json!({"kind": "cover", "f1": f1, "f2": f2, "topic": t}),
    )
}

/// direct level vectors that must be refused
fn check_level_vectors(stats: &mut Stats) {
    let n = |s: &str| TopicFilterLevel::Normal(ByteString::from(s));
    let sys = |s: &str| TopicFilterLevel::System(ByteString::from(s));
    let bad: Vec<(&str, Vec<TopicFilterLevel>)> = vec![
        ("normal-with-plus", vec![n("a+")]),
        ("normal-with-hash", vec![n("a"), n("#b")]),
        ("normal-is-hash", vec![n("#")]),
        ("system-with-plus", vec![sys("$a+")]),
        ("hash-not-last", vec![n("a"), TopicFilterLevel::MultiWildcard, n("b")]),
        ("hash-not-last-blank", vec![TopicFilterLevel::MultiWildcard, TopicFilterLevel::Blank]),
        ("system-not-first", vec![n("a"), sys("$b")]),
        ("double-hash", vec![TopicFilterLevel::MultiWildcard, TopicFilterLevel::MultiWildcard]),
    ];
    for (name, v) in bad {
        let info = CaseInfo::nontrivial(&("levels", name));
        stats.record(&info);
        if TopicFilter::try_from(v.clone()).is_ok() {
            stats.fail(fail(
                "levels-reject",
                "levels-accepted",
                format!("level vector {name} accepted: {v:?}"),
                json!({"kind": "levels", "name": name}),
            ));
        }
    }
    let good: Vec<(&str, Vec<TopicFilterLevel>)> = vec![
        ("plain", vec![n("a"), n("b")]),
        ("sys-first", vec![sys("$SYS"), TopicFilterLevel::SingleWildcard]),
        ("hash-last", vec![n("a"), TopicFilterLevel::Blank, TopicFilterLevel::MultiWildcard]),
    ];
    for (name, v) in good {
        stats.record(&CaseInfo::nontrivial(&("levels-ok", name)));
        if TopicFilter::try_from(v.clone()).is_err() {
            stats.fail(fail(
                "levels-reject",
                "levels-refused",
                format!("level vector {name} refused: {v:?}"),
                json!({"kind": "levels", "name": name}),
            ));
        }
    }
}

struct Universe {
    topics: Vec<String>,
    words: usize,
}

fn bitset(u: &Universe, f: &str) -> Vec<u64> {
    let mut bs = vec![0u64; u.words];
    for (i, t) in u.topics.iter().enumerate() {
        if spec::matches(f, t) {
            bs[i / 64] |= 1 << (i % 64);
        }
    }
    bs
}

fn exhaustive(ctx: &Ctx, l: usize, l_cover: usize) -> Stats {
    let n_filters = count_strings(FILTER_ALPHA.len(), l);
    let n_topics = count_strings(TOPIC_ALPHA.len(), l + 1);
    let topics: Vec<String> = (0..n_topics).map(|i| nth_string(TOPIC_ALPHA, i)).collect();
    let u = Universe { words: topics.len().div_ceil(64), topics };
    let _ = ctx;

    // phase 1: validators + matching, sharded over filters
    let mut stats = par_shards(WORKERS, |shard| {
        let mut st = Stats::default();
        let mut i = shard as u64;
        // the empty string
        if shard == 0 {
            st.evaluations += 1;
            if let Err(f) = check_filter_string("") {
                st.fail(f);
            }
        }
        while i < n_filters {
            let f = nth_string(FILTER_ALPHA, i);
            i += WORKERS as u64;
            st.evaluations += 1;
            let nt = nontrivial_filter(&f);
            match check_filter_string(&f) {
                Err(e) => {
                    st.fail(e);
                    continue;
                }
                Ok(None) => {
                    st.label("filter-invalid", 1);
                    if nt {
                        st.distinct_counted += 1;
                    }
                }
                Ok(Some(tf)) => {
                    st.label("filter-valid", 1);
                    let mut matched = 0u64;
                    for t in &u.topics {
                        st.evaluations += 1;
                        match check_match(&f, &tf, t) {
                            Ok(m) => matched += u64::from(m),
                            Err(e) => {
                                st.fail(e);
                                break;
                            }
                        }
                    }
                    if nt {
                        st.distinct_counted += u.topics.len() as u64;
                    }
                    st.label("match-true", matched);
                    if nt && matched > 0 {
                        let first = u.topics.iter().find(|t| spec::matches(&f, t)).cloned();
                        st.sample_at(i / WORKERS as u64, || {
                            json!({"filter": f, "matches_topics": matched, "e.g.": first})
                        });
                    }
                }
            }
        }
        st
    });

    // phase 2: covering soundness over all ordered pairs of valid filters of
    // length <= l_cover
    let n_cf = count_strings(FILTER_ALPHA.len(), l_cover);
    let valid: Vec<(String, TopicFilter, Vec<u64>)> = (0..n_cf)
        .map(|i| nth_string(FILTER_ALPHA, i))
        .filter(|f| spec::filter_valid(f))
        .filter_map(|f| TopicFilter::from_str(&f).ok().map(|tf| (f.clone(), tf, bitset(&u, &f))))
        .collect();
    let cover = par_shards(WORKERS, |shard| {
        let mut st = Stats::default();
        let mut by_sig: BTreeMap<String, u32> = BTreeMap::new();
        for (i, (f1, tf1, b1)) in valid.iter().enumerate() {
            if i % WORKERS != shard {
                continue;
            }
            for (f2, tf2, b2) in &valid {
                st.evaluations += 1;
                let nt = nontrivial_filter(f1) || nontrivial_filter(f2);
                if nt {
                    st.distinct_counted += 1;
                }
                if tf1.matches_filter(tf2) {
                    st.label("cover-true", 1);
                    // every topic matched by f2 must be matched by f1
                    if let Some(w) = (0..u.words).find(|&w| b2[w] & !b1[w] != 0) {
                        let bit = (b2[w] & !b1[w]).trailing_zeros() as usize;
                        let t = &u.topics[w * 64 + bit];
                        let f = cover_failure(f1, f2, t);
                        // keep a few witnesses per signature, not thousands
                        let n = by_sig.entry(f.signature.clone()).or_default();
                        *n += 1;
                        if *n <= 2 {
                            st.fail(f);
                        }
                    } else if nt {
                        st.sample_at(st.evaluations, || json!({"covering": f1, "covered": f2}));
                    }
                }
            }
        }
        st
    });
    stats.merge(cover);
    stats
}

// --- random unicode -------------------------------------------------------

fn level_pool() -> impl Strategy<Value = String> {
    prop_oneof![
        4 => prop::sample::select(vec![
            "a", "b", "é", "日本", "𝄞", "$SYS", "$", "", "sport", "tennis", "x y", "\u{7f}",
            "a$", "ab", "a\u{300}",
        ])
        .prop_map(str::to_owned),
        1 => "[a-z]{1,12}",
        1 => "\\PC{1,6}".prop_map(|s: String| s.replace(['/', '+', '#'], "_")),
    ]
}

#[derive(Clone, Debug)]
enum FLevel {
    Lit(String),
    Plus,
    Hash,
    /// illegal: wildcard glued to text
    Glued(String, char),
}

fn flevel() -> impl Strategy<Value = FLevel> {
    prop_oneof![
        6 => level_pool().prop_map(FLevel::Lit),
        2 => Just(FLevel::Plus),
        1 => Just(FLevel::Hash),
        1 => (level_pool(), prop::sample::select(vec!['+', '#'])).prop_map(|(s, c)| FLevel::Glued(s, c)),
    ]
}

fn render(levels: &[FLevel]) -> String {
    levels
        .iter()
        .map(|l| match l {
            FLevel::Lit(s) => s.clone(),
            FLevel::Plus => "+".into(),
            FLevel::Hash => "#".into(),
            FLevel::Glued(s, c) => format!("{s}{c}"),
        })
        .collect::<Vec<_>>()
        .join("/")
}

#[derive(Clone, Debug)]
struct RandCase {
    f1: Vec<FLevel>,
    f2: Vec<FLevel>,
    /// fillers used to instantiate wildcards of f2 into concrete topics
    fill: Vec<String>,
    extra: Vec<String>,
}

fn rand_case() -> impl Strategy<Value = RandCase> {
    (
        prop::collection::vec(flevel(), 1..8),
        prop::collection::vec(flevel(), 1..8),
        prop::collection::vec(level_pool(), 8),
        prop::collection::vec(level_pool(), 0..3),
    )
        .prop_map(|(f1, f2, fill, extra)| RandCase { f1, f2, fill, extra })
}

/// a topic name matched by valid filter `f` (by construction)
fn instantiate(levels: &[FLevel], fill: &[String], extra: &[String]) -> Option<String> {
    let mut out: Vec<String> = Vec::new();
    for (i, l) in levels.iter().enumerate() {
        match l {
            FLevel::Lit(s) => out.push(s.clone()),
            FLevel::Plus => out.push(fill[i % fill.len()].clone()),
            FLevel::Hash => out.extend(extra.iter().cloned()),
            FLevel::Glued(..) => return None,
        }
    }
    let t = out.join("/");
    if t.is_empty() || t.contains(['+', '#']) { None } else { Some(t) }
}

fn check_rand(c: &RandCase) -> Result<CaseInfo, Failure> {
    let s1 = render(&c.f1);
    let s2 = render(&c.f2);
    let t1 = check_filter_string(&s1)?;
    let t2 = check_filter_string(&s2)?;
    let mut labels = Vec::new();
    if let Some(tf2) = &t2 {
        if let Some(t) = instantiate(&c.f2, &c.fill, &c.extra) {
            let m = check_match(&s2, tf2, &t)?;
            if m {
                labels.push("rand-match-true");
            }
            if let Some(tf1) = &t1 {
                check_match(&s1, tf1, &t)?;
                if tf1.matches_filter(tf2) {
                    labels.push("rand-cover-true");
                    if m && !spec::matches(&s1, &t) {
                        return Err(cover_failure(&s1, &s2, &t));
                    }
                }
            }
        }
    }
    if let Some(tf1) = &t1 {
        // a filter covers itself, and `#`-less filters match their own text
        if !tf1.matches_filter(tf1) {
            return Err(fail(
                "cover",
                "cover-not-reflexive",
                format!("{s1:?} does not cover itself"),
                json!({"kind": "cover", "f1": s1, "f2": s1, "topic": ""}),
            ));
        }
    }
    let mut info = if nontrivial_filter(&s1) || nontrivial_filter(&s2) {
        CaseInfo::nontrivial(&(s1.as_str(), s2.as_str()))
    } else {
        CaseInfo::trivial()
    };
    info.labels = labels;
    if t1.is_some() {
        info.labels.push("rand-valid");
    } else {
        info.labels.push("rand-invalid");
    }
    Ok(info)
}

fn rand_to_case(c: &RandCase) -> Value {
    json!({"kind": "rand", "f1": render(&c.f1), "f2": render(&c.f2),
           "topic": instantiate(&c.f2, &c.fill, &c.extra)})
}

pub fn run(ctx: &Ctx, started: Instant) -> i32 {
    let l = ctx.tier.pick(5, 6);
    let l_cover = ctx.tier.pick(4, 5);
    let mut stats = exhaustive(ctx, l, l_cover);
    check_level_vectors(&mut stats);

    let cases = ctx.tier.pick(4_000u32, 60_000);
    let rnd = par_shards(WORKERS, |shard| {
        let mut st = Stats::default();
        run_proptest(
            ctx.sub_seed("rand", shard),
            cases,
            &rand_case(),
            &mut st,
            rand_to_case,
            check_rand,
        );
        st
    });
    stats.merge(rnd);

    let report = Report {
        level: "exploration",
        rule: format!(
            "exhaustive: every string of length 1..={l} over {{a,b,$,/,+,#}} (and the empty string) as filter through \
             both validators + Display/levels round trip; every valid one against every topic name of length 1..={} over \
             {{a,b,$,/}}; every ordered pair of valid filters of length <={l_cover} for covering soundness (bitset over the \
             same topics); plus proptest unicode level pools. Non-trivial = filter has a wildcard, a first level starting \
             with '$' or an empty level; distinct = the (filter,topic) / (f1,f2) pair itself (enumerations never repeat)",
            l + 1
        ),
        exhaustive: true,
        assumptions: vec![
            "reference validator/matcher in harness/src/spec/topic.rs transcribes MQTT 5 section 4.7".into(),
            "covering soundness is judged on topic names up to one character longer than the longest enumerated filter".into(),
            "hook verif_hooks::topic_is_valid is a plain wrapper of topic::is_valid".into(),
        ],
        extra: BTreeMap::from([("filter_len".to_owned(), json!(l)), ("cover_len".to_owned(), json!(l_cover))]),
    };
    finish(ctx, started, stats, report)
}

pub fn replay(path: &str) -> i32 {
    let case = super::load_case(path);
    let kind = case["kind"].as_str().unwrap_or("");
    let res: Result<(), Failure> = match kind {
        "filter" => check_filter_string(case["s"].as_str().unwrap_or("")).map(|_| ()),
        "match" => {
            let f = case["filter"].as_str().unwrap_or("");
            let t = case["topic"].as_str().unwrap_or("");
            match TopicFilter::from_str(f) {
                Ok(tf) => check_match(f, &tf, t).map(|_| ()),
                Err(_) => check_filter_string(f).map(|_| ()),
            }
        }
        "cover" | "rand" => {
            let f1 = case["f1"].as_str().unwrap_or("");
            let f2 = case["f2"].as_str().unwrap_or("");
            let t = case["topic"].as_str().unwrap_or("");
            (|| {
                let t1 = check_filter_string(f1)?;
                let t2 = check_filter_string(f2)?;
                if let (Some(a), Some(b)) = (t1, t2) {
                    check_match(f1, &a, t)?;
                    check_match(f2, &b, t)?;
                    if a.matches_filter(&b) && spec::matches(f2, t) && !spec::matches(f1, t) {
                        return Err(cover_failure(f1, f2, t));
                    }
                }
                Ok(())
            })()
        }
        _ => {
            eprintln!("unknown replay kind {kind}");
            return 2;
        }
    };
    match res {
        Ok(()) => {
            println!("C18 replay: property holds on this case");
            0
        }
        Err(f) => {
            println!("  failing: signature={} :: {}", f.signature, f.detail);
            println!("VIOLATION property=C18 replay={path}");
            1
        }
    }
}
