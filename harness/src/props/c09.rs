//! C09 — encoder emits one frame, truthful length, within the peer's maximum
//! packet size; only Reason String / User Properties may be left out; failed
//! encodes append nothing; no limit value panics.

use std::collections::BTreeMap;
use std::num::NonZeroU16;
use std::time::Instant;

use ntex_bytes::{ByteString, Bytes, BytesMut};
use ntex_mqtt::error::EncodeError;
use ntex_mqtt::{QoS, v3::codec as c3, v5::codec as c5, verif_hooks};
use proptest::prelude::*;
use serde::{Deserialize, Serialize};
use serde_json::{Value, json};

use crate::conv::*;
use crate::libio::*;
use crate::runner::*;
use crate::spec::v5::{self as s5, Layout, P5};
use crate::spec::wire::{self, Split};
use crate::strat;

#[derive(Clone, Debug, Serialize, Deserialize)]
pub struct Case {
    pub pkt: P5,
    pub limit: u32,
    pub no_problem_info: bool,
}

fn fail(kind: &str, rule: &str, detail: String) -> Failure {
    Failure::new(rule, format!("C09/{kind}/{rule}"), detail)
}

fn hex(b: &[u8]) -> String {
    let n = b.len().min(48);
    let mut s: String = b[..n].iter().map(|x| format!("{x:02x}")).collect();
    if b.len() > n {
        s.push_str(&format!("..(+{})", b.len() - n));
    }
    s
}

/// packets whose Reason String / User Properties are diagnostics that the
/// encoder may drop to honour the limit
fn droppable(p: &P5) -> bool {
    matches!(
        p,
        P5::ConnAck(_) | P5::PubAck(_) | P5::PubRec(_) | P5::PubRel(_) | P5::PubComp(_) | P5::SubAck(_) | P5::UnsubAck(_) | P5::Disconnect(_) | P5::Auth(_)
    )
}

/// acknowledgements that must not carry diagnostics after Request Problem
/// Information = 0
fn ack_kind(p: &P5) -> bool {
    matches!(
        p,
        P5::PubAck(_) | P5::PubRec(_) | P5::PubRel(_) | P5::PubComp(_) | P5::SubAck(_) | P5::UnsubAck(_) | P5::Auth(_)
    )
}

fn diag(p: &P5) -> (Option<String>, Vec<(String, String)>) {
    match p {
        P5::ConnAck(c) => (c.reason_string.clone(), c.user_props.clone()),
        P5::PubAck(a) | P5::PubRec(a) | P5::PubRel(a) | P5::PubComp(a) => (a.reason_string.clone(), a.user_props.clone()),
        P5::SubAck(a) | P5::UnsubAck(a) => (a.reason_string.clone(), a.user_props.clone()),
        P5::Disconnect(d) => (d.reason_string.clone(), d.user_props.clone()),
        P5::Auth(a) => (a.reason_string.clone(), a.user_props.clone()),
        _ => (None, Vec::new()),
    }
}

fn strip_diag(p: &P5) -> P5 {
    let mut q = p.clone();
    match &mut q {
        P5::ConnAck(c) => {
            c.reason_string = None;
            c.user_props.clear();
        }
        P5::PubAck(a) | P5::PubRec(a) | P5::PubRel(a) | P5::PubComp(a) => {
            a.reason_string = None;
            a.user_props.clear();
        }
        P5::SubAck(a) | P5::UnsubAck(a) => {
            a.reason_string = None;
            a.user_props.clear();
        }
        P5::Disconnect(d) => {
            d.reason_string = None;
            d.user_props.clear();
        }
        P5::Auth(a) => {
            a.reason_string = None;
            a.user_props.clear();
        }
        _ => {}
    }
    q
}

/// is `sub` an ordered sub-list of `full` (whole properties, identical bytes)
fn ordered_sublist(sub: &[(String, String)], full: &[(String, String)]) -> bool {
    let mut it = full.iter();
    sub.iter().all(|s| it.any(|f| f == s))
}

fn connect_declining_problem_info() -> Vec<u8> {
    let c = s5::Connect5 { client_id: "c".into(), req_prob_info: Some(false), clean_start: true, ..Default::default() };
    s5::encode(&P5::Connect(Box::new(c)), &[], &Layout::default())
}

pub fn check_case(c: &Case) -> Result<CaseInfo, Failure> {
    let kind = c.pkt.kind();
    let lib = to_lib5(&c.pkt).map_err(|e| fail(kind, "harness-unrepresentable", e))?;
    let plen = match &c.pkt {
        P5::Publish(p) => p.payload_len,
        _ => 0,
    };
    let payload = wire::payload(7, plen);
    let codec = c5::Codec::new();
    if c.no_problem_info {
        // public path: the same codec instance decodes a CONNECT that declines problem information
        let mut b = BytesMut::from(&connect_declining_problem_info()[..]);
        let r = codec.step(&mut b);
        if !matches!(r, Ok(Some(Item::Packet(c5::Packet::Connect(_), _)))) {
            return Err(fail(kind, "harness-connect", format!("preparatory CONNECT not decoded: {r:?}")));
        }
    }
    let res = catch(|| {
        codec.set_max_outbound_size(c.limit);
        encode5(&codec, &lib, matches!(c.pkt, P5::Publish(_)).then(|| Bytes::copy_from_slice(&payload)))
    })
    .map_err(|p| {
        Failure::new("panic", format!("C09/{kind}/panic/{}", crate::decoding::panic_key(&p)), format!("limit {}: {p}", c.limit))
    })?;

    let full_len = s5::encode(&c.pkt, &payload, &Layout::default()).len() as u64;
    let minimal = strip_diag(&c.pkt);
    let min_len = s5::encode(&minimal, &payload, &Layout::default()).len() as u64;
    let limit = u64::from(c.limit);
    let (want_rs, want_up) = diag(&c.pkt);
    let mut labels: Vec<&'static str> = Vec::new();
    let mut dropped_props = 0usize;
    let mut dropped_reason = false;

    match res {
        Ok(bytes) => {
            // rule 2: exactly one frame with truthful Remaining Length
            let (first, rl, hdr) = match wire::split(&bytes) {
                Split::Frame { first, rl, hdr, complete: true } if hdr + rl as usize == bytes.len() => (first, rl, hdr),
                other => {
                    return Err(fail(kind, "one-frame", format!("limit {}: output {} is not exactly one frame: {other:?}", c.limit, hex(&bytes))));
                }
            };
            let _ = rl;
            // rule 3
            if c.limit != 0 && bytes.len() as u64 > limit {
                return Err(fail(kind, "over-limit", format!("limit {} but frame of {} bytes written: {}", c.limit, bytes.len(), hex(&bytes))));
            }
            // rule 4: every field except diagnostics unchanged
            let got = match &c.pkt {
                P5::Publish(_) => match s5::decode_publish_header(first, rl, &bytes[hdr..]) {
                    Ok(Some((p, hl, _))) => {
                        if bytes[hdr + hl..] != payload[..] {
                            return Err(fail(kind, "fields", "payload bytes differ".into()));
                        }
                        P5::Publish(Box::new(p)).normalize()
                    }
                    other => return Err(fail(kind, "layout-invalid", format!("spec decoder: {other:?} on {}", hex(&bytes)))),
                },
                _ => match s5::decode(first, &bytes[hdr..]) {
                    s5::Verdict::Valid { pkt, .. } => pkt,
                    s5::Verdict::Invalid(r) => {
                        return Err(fail(kind, "layout-invalid", format!("limit {}: spec decoder rejects output {r:?}: {}", c.limit, hex(&bytes))));
                    }
                },
            };
            if !(matches!(c.pkt, P5::Subscribe(_) | P5::Unsubscribe(_)) && c.no_problem_info) && strip_diag(&got) != minimal {
                return Err(fail(kind, "fields", format!("limit {}: non-diagnostic fields changed: got {:?} from {:?}", c.limit, strat::brief(&got), strat::brief(&c.pkt))));
            }
            let (got_rs, got_up) = diag(&got);
            // the library also strips SUBSCRIBE/UNSUBSCRIBE user properties under
            // Request Problem Information = 0; the statement is silent on these
            // (never sent by a server): tolerated, every other field must match
            let sub_like = matches!(c.pkt, P5::Subscribe(_) | P5::Unsubscribe(_));
            let strip_sub = |p: &P5| {
                let mut q = p.clone();
                match &mut q {
                    P5::Subscribe(s) => s.user_props.clear(),
                    P5::Unsubscribe(s) => s.user_props.clear(),
                    _ => {}
                }
                q
            };
            if sub_like && c.no_problem_info {
                if strip_sub(&got) != strip_sub(&c.pkt) {
                    return Err(fail(kind, "fields", format!("limit {}: fields changed: {:?}", c.limit, strat::brief(&got))));
                }
            } else if !droppable(&c.pkt) && got != c.pkt {
                return Err(fail(kind, "fields", format!("limit {}: packet without droppable diagnostics changed: {:?}", c.limit, strat::brief(&got))));
            }
            if !ordered_sublist(&got_up, &want_up) {
                return Err(fail(kind, "props-not-sublist", format!("limit {}: emitted user properties {:?} are not an ordered sub-list of {:?}", c.limit, strat::brief(&got_up), strat::brief(&want_up))));
            }
            if got_rs.is_some() && got_rs != want_rs {
                return Err(fail(kind, "reason-altered", format!("limit {}: reason string {:?} emitted for {:?}", c.limit, strat::brief(&got_rs), strat::brief(&want_rs))));
            }
            dropped_props = want_up.len() - got_up.len();
            dropped_reason = want_rs.is_some() && got_rs.is_none();
            let flag_applies = c.no_problem_info && ack_kind(&c.pkt);
            if flag_applies {
                // rule 6
                if got_rs.is_some() || !got_up.is_empty() {
                    return Err(fail(kind, "problem-info", format!("CONNECT declined problem information but {kind} carries reason string / user properties: {}", hex(&bytes))));
                }
                labels.push("problem-info-stripped");
            } else if (dropped_props > 0 || dropped_reason) && (c.limit == 0 || limit >= full_len + 32) {
                return Err(fail(kind, "dropped-without-need", format!("limit {} (full frame {full_len}): dropped {dropped_props} user properties, reason dropped={dropped_reason}", c.limit)));
            }
            if dropped_props > 0 || dropped_reason {
                labels.push("diagnostics-dropped");
            }
        }
        Err((e, appended)) => {
            // rule 5
            if !appended.is_empty() {
                return Err(fail(kind, "failed-encode-left-bytes", format!("encode failed with {e:?} but {} bytes were appended: {}", appended.len(), hex(&appended))));
            }
            match e {
                EncodeError::OverMaxPacketSize => {
                    if c.limit == 0 || min_len + 32 <= limit {
                        return Err(fail(kind, "oversize-without-need", format!("limit {} but packet without diagnostics needs only {min_len} bytes: OverMaxPacketSize", c.limit)));
                    }
                    labels.push("over-size-error");
                }
                other => {
                    return Err(fail(kind, "encode-error", format!("valid packet refused with {other:?} (limit {})", c.limit)));
                }
            }
            // codec state unchanged: a following small packet still encodes
            let follow = catch(|| {
                codec.set_max_outbound_size(0);
                encode5(&codec, &Lib5::Packet(c5::Packet::PingResponse), None)
            });
            if !matches!(follow, Ok(Ok(ref b)) if b == &[0xD0, 0]) {
                return Err(fail(kind, "state-after-failure", format!("after a failed encode PINGRESP gives {follow:?}")));
            }
        }
    }

    let lbucket = match c.limit {
        0 => 0u32,
        1..=5 => 1,
        6..=15 => 2,
        16..=64 => 3,
        65..=4096 => 4,
        _ => 5,
    };
    let nt = c.limit != 0 && (dropped_props > 0 || dropped_reason || labels.contains(&"over-size-error") || c.limit < 16)
        || labels.contains(&"problem-info-stripped");
    let mut info = if nt {
        CaseInfo::nontrivial(&(kind, lbucket, dropped_props.min(5), dropped_reason, labels.contains(&"over-size-error"), c.no_problem_info))
    } else {
        CaseInfo::trivial()
    };
    info.labels = labels;
    Ok(info)
}

// --- encodes that must fail and leave nothing behind ---------------------------------

fn failing_encodes(st: &mut Stats) {
    let long = || ByteString::from("x".repeat(65_536));
    let pid = NonZeroU16::new(7);
    let mut cases5: Vec<(&str, Lib5, Option<Bytes>)> = Vec::new();
    let base = c5::Publish { dup: false, retain: false, qos: QoS::AtLeastOnce, packet_id: pid, topic: ByteString::from("t"), payload_size: 3, properties: c5::PublishProperties::default() };
    cases5.push(("publish-topic-too-long", Lib5::Publish(c5::Publish { topic: long(), ..base.clone() }), Some(Bytes::from_static(b"abc"))));
    cases5.push(("publish-qos0-with-id", Lib5::Publish(c5::Publish { qos: QoS::AtMostOnce, ..base.clone() }), Some(Bytes::from_static(b"abc"))));
    cases5.push(("publish-qos1-without-id", Lib5::Publish(c5::Publish { packet_id: None, ..base.clone() }), Some(Bytes::from_static(b"abc"))));
    cases5.push(("publish-qos2-without-id", Lib5::Publish(c5::Publish { qos: QoS::ExactlyOnce, packet_id: None, ..base.clone() }), Some(Bytes::from_static(b"abc"))));
    let mut props = c5::PublishProperties::default();
    props.user_properties.push((ByteString::from("k"), long()));
    cases5.push(("publish-user-property-too-long", Lib5::Publish(c5::Publish { properties: props, ..base.clone() }), Some(Bytes::from_static(b"abc"))));
    let mut props = c5::PublishProperties::default();
    props.correlation_data = Some(Bytes::from(vec![0u8; 65_536]));
    cases5.push(("publish-correlation-too-long", Lib5::Publish(c5::Publish { properties: props, ..base.clone() }), Some(Bytes::from_static(b"abc"))));
    let mut props = c5::PublishProperties::default();
    props.content_type = Some(long());
    cases5.push(("publish-content-type-too-long", Lib5::Publish(c5::Publish { properties: props, ..base.clone() }), Some(Bytes::from_static(b"abc"))));
    cases5.push((
        "subscribe-filter-too-long",
        Lib5::Packet(c5::Packet::Subscribe(c5::Subscribe { packet_id: pid.unwrap(), id: None, user_properties: vec![], topic_filters: vec![(ByteString::from("a"), c5::SubscriptionOptions::default()), (long(), c5::SubscriptionOptions::default())] })),
        None,
    ));
    cases5.push((
        "unsubscribe-filter-too-long",
        Lib5::Packet(c5::Packet::Unsubscribe(c5::Unsubscribe { packet_id: pid.unwrap(), user_properties: vec![], topic_filters: vec![ByteString::from("a"), long()] })),
        None,
    ));
    cases5.push((
        "puback-reason-too-long",
        Lib5::Packet(c5::Packet::PublishAck(c5::PublishAck { packet_id: pid.unwrap(), reason_code: c5::PublishAckReason::Success, properties: vec![], reason_string: Some(long()) })),
        None,
    ));
    cases5.push((
        "disconnect-user-property-too-long",
        Lib5::Packet(c5::Packet::Disconnect(c5::Disconnect { user_properties: vec![(ByteString::from("k"), ByteString::from("v")), (long(), ByteString::from("v"))], ..c5::Disconnect::default() })),
        None,
    ));
    cases5.push((
        "connect-client-id-too-long",
        Lib5::Packet(c5::Packet::Connect(Box::new(c5::Connect { client_id: long(), ..c5::Connect::default() }))),
        None,
    ));
    for (name, item, pl) in cases5 {
        st.evaluations += 1;
        st.nontrivial.insert(hash_of(&("failing5", name)));
        let codec = c5::Codec::new();
        match catch(|| encode5(&codec, &item, pl.clone())) {
            Err(p) => st.fail(
                Failure::new("panic", format!("C09/failing/{name}/panic"), p).with_case(json!({"kind": "failing", "name": name, "ver": 5})),
            ),
            Ok(Ok(b)) => st.fail(
                fail("failing", &format!("{name}/accepted"), format!("invalid packet encoded: {}", hex(&b))).with_case(json!({"kind": "failing", "name": name, "ver": 5})),
            ),
            Ok(Err((e, appended))) => {
                if !appended.is_empty() {
                    st.fail(
                        Failure::new(
                            "failed-encode-left-bytes",
                            format!("C09/v5/failed-encode-left-bytes/{name}"),
                            format!("{name}: encode failed with {e:?} but left {} bytes in the buffer: {}", appended.len(), hex(&appended)),
                        )
                        .with_case(json!({"kind": "failing", "name": name, "ver": 5})),
                    );
                } else {
                    // the codec must not be left expecting a payload
                    let follow = encode5(&codec, &Lib5::Packet(c5::Packet::PingResponse), None);
                    if !matches!(follow, Ok(ref b) if b == &[0xD0, 0]) {
                        st.fail(
                            Failure::new("state-after-failure", format!("C09/v5/state-after-failure/{name}"), format!("{name}: after the failed encode PINGRESP gives {follow:?}"))
                                .with_case(json!({"kind": "failing", "name": name, "ver": 5})),
                        );
                    }
                }
            }
        }
    }

    // v3
    let base3 = c3::Publish { dup: false, retain: false, qos: QoS::AtLeastOnce, topic: ByteString::from("t"), packet_id: pid, payload_size: 3 };
    let cases3: Vec<(&str, Lib3, Option<Bytes>)> = vec![
        ("publish-topic-too-long", Lib3::Publish(c3::Publish { topic: long(), ..base3.clone() }), Some(Bytes::from_static(b"abc"))),
        ("publish-qos0-with-id", Lib3::Publish(c3::Publish { qos: QoS::AtMostOnce, ..base3.clone() }), Some(Bytes::from_static(b"abc"))),
        ("publish-qos1-without-id", Lib3::Publish(c3::Publish { packet_id: None, ..base3.clone() }), Some(Bytes::from_static(b"abc"))),
        (
            "subscribe-filter-too-long",
            Lib3::Packet(c3::Packet::Subscribe { packet_id: pid.unwrap(), topic_filters: vec![(ByteString::from("a"), QoS::AtMostOnce), (long(), QoS::AtMostOnce)] }),
            None,
        ),
        ("unsubscribe-filter-too-long", Lib3::Packet(c3::Packet::Unsubscribe { packet_id: pid.unwrap(), topic_filters: vec![ByteString::from("a"), long()] }), None),
        (
            "connect-username-too-long",
            Lib3::Packet(c3::Packet::Connect(Box::new(c3::Connect { client_id: ByteString::from("c"), username: Some(long()), ..c3::Connect::default() }))),
            None,
        ),
    ];
    for (name, item, pl) in cases3 {
        st.evaluations += 1;
        st.nontrivial.insert(hash_of(&("failing3", name)));
        let codec = c3::Codec::new();
        match catch(|| encode3(&codec, &item, pl.clone())) {
            Err(p) => st.fail(Failure::new("panic", format!("C09/failing3/{name}/panic"), p).with_case(json!({"kind": "failing", "name": name, "ver": 3}))),
            Ok(Ok(b)) => st.fail(fail("failing3", &format!("{name}/accepted"), format!("invalid packet encoded: {}", hex(&b))).with_case(json!({"kind": "failing", "name": name, "ver": 3}))),
            Ok(Err((e, appended))) => {
                if !appended.is_empty() {
                    st.fail(
                        Failure::new(
                            "failed-encode-left-bytes",
                            format!("C09/v3/failed-encode-left-bytes/{name}"),
                            format!("{name}: encode failed with {e:?} but left {} bytes in the buffer: {}", appended.len(), hex(&appended)),
                        )
                        .with_case(json!({"kind": "failing", "name": name, "ver": 3})),
                    );
                }
            }
        }
    }
}

// --- v3 max size + reported sizes ---------------------------------------------------

fn v3_limits(ctx: &Ctx, st: &mut Stats) {
    use crate::spec::v3::P3;
    let vals = gen_values(ctx.sub_seed("v3", 0), ctx.tier.pick(3_000, 60_000), &(strat::p3(), 0u32..200));
    for (p, lim) in vals {
        let plen = match &p {
            P3::Publish(pb) if pb.payload_len <= 5_000 => pb.payload_len,
            P3::Publish(_) => continue,
            _ => 0,
        };
        let Ok(lib) = to_lib3(&p) else { continue };
        let payload = wire::payload(3, plen);
        let codec = c3::Codec::new();
        codec.set_max_size(lim);
        st.evaluations += 1;
        let res = catch(|| encode3(&codec, &lib, matches!(p, P3::Publish(_)).then(|| Bytes::copy_from_slice(&payload))));
        let case = json!({"kind": "v3", "pkt": p, "limit": lim});
        match res {
            Err(pn) => st.fail(Failure::new("panic", format!("C09/v3/panic/{}", crate::decoding::panic_key(&pn)), pn).with_case(case)),
            Ok(Ok(b)) => {
                let want = crate::spec::v3::encode(&p, &payload);
                if b != want {
                    st.fail(fail("v3", "one-frame", format!("v3 output {} differs from the reference {}", hex(&b), hex(&want))).with_case(case));
                }
            }
            Ok(Err((e, appended))) => {
                st.nontrivial.insert(hash_of(&("v3-limit", p.kind(), lim / 8)));
                if !appended.is_empty() {
                    st.fail(Failure::new("failed-encode-left-bytes", "C09/v3/failed-encode-left-bytes/limit", format!("{e:?} left {} bytes", appended.len())).with_case(case));
                } else if !(matches!(e, EncodeError::OverMaxPacketSize) && matches!(p, P3::Publish(_)) && lim != 0) {
                    st.fail(fail("v3", "encode-error", format!("valid v3 packet refused with {e:?} (max size {lim})")).with_case(case));
                }
            }
        }
    }
}

fn reported_sizes(ctx: &Ctx, st: &mut Stats) {
    // rule 2, second half: size reported by the library (Decoded size of its
    // own frame = Remaining Length is checked in C01); here the hook relation
    // var_int_len_from_size(len + var_int_len(len)) == len
    let upto: u64 = ctx.tier.pick(1 << 20, 1 << 28);
    let sub = par_shards(WORKERS, |shard| {
        let mut s = Stats::default();
        let mut n = shard as u64;
        while n < upto {
            let len = n as u32;
            let total = len + verif_hooks::var_int_len(len as usize);
            s.evaluations += 1;
            if verif_hooks::var_int_len(len as usize) as usize != wire::varint_len(len) {
                s.fail(Failure::new("var-int-len", "C09/var-int-len", format!("var_int_len({len}) = {}", verif_hooks::var_int_len(len as usize))).with_case(json!({"kind": "varlen", "n": len})));
                break;
            }
            if total <= 268_435_455 + 4 && verif_hooks::var_int_len_from_size(total) != len {
                s.fail(Failure::new("var-int-len", "C09/var-int-len-from-size", format!("var_int_len_from_size({total}) = {}, expected {len}", verif_hooks::var_int_len_from_size(total))).with_case(json!({"kind": "varlen", "n": len})));
                break;
            }
            n += WORKERS as u64;
        }
        s
    });
    st.merge(sub);
    for b in [127u32, 128, 16_383, 16_384, 2_097_151, 2_097_152, 268_435_455] {
        for d in 0..3 {
            let len = b.saturating_sub(1) + d;
            if len > 268_435_455 {
                continue;
            }
            st.evaluations += 1;
            st.nontrivial.insert(hash_of(&("varlen", len)));
            let total = len + wire::varint_len(len) as u32;
            if verif_hooks::var_int_len_from_size(total) != len {
                st.fail(Failure::new("var-int-len", "C09/var-int-len-from-size", format!("var_int_len_from_size({total}) != {len}")).with_case(json!({"kind": "varlen", "n": len})));
            }
        }
    }
}

fn limits_for(rng: &mut SplitMix) -> Vec<u32> {
    let mut v: Vec<u32> = (1..=64).collect();
    v.push(0);
    for _ in 0..6 {
        v.push(65 + rng.below(4032) as u32);
    }
    v.extend_from_slice(&[65_535, 65_536, 1 << 21, (1 << 28) - 1, 1 << 28, u32::MAX]);
    v
}

pub fn run(ctx: &Ctx, started: Instant) -> i32 {
    let packets_per_shard = ctx.tier.pick(4_000usize, 40_000);
    let mut stats = par_shards(WORKERS, |shard| {
        let mut st = Stats::default();
        let pkts = gen_values(ctx.sub_seed("acks", shard), packets_per_shard, &strat::p5_acks());
        let mut rng = SplitMix(ctx.sub_seed("limits", shard));
        for (i, pkt) in pkts.into_iter().enumerate() {
            // keep the frames moderate: limits up to 64 are the interesting region
            let flag = i % 2 == 1;
            for limit in limits_for(&mut rng) {
                let c = Case { pkt: pkt.clone(), limit, no_problem_info: flag };
                match check_case(&c) {
                    Ok(info) => {
                        let idx = st.evaluations;
                        st.record(&info);
                        if info.nontrivial.is_some() {
                            st.sample_at(idx, || json!({"pkt": strat::brief(&c.pkt), "limit": c.limit, "no_problem_info": c.no_problem_info, "outcome": info.labels}));
                        }
                    }
                    Err(f) => st.fail(f.with_case(json!({"kind": "limit", "case": c}))),
                }
            }
        }
        // sampled (packet, limit) pairs over all packet kinds incl. PUBLISH, with shrinking
        let strategy = (strat::p5(), prop_oneof![3 => 0u32..80, 1 => 80u32..70_000, 1 => any::<u32>()], any::<bool>())
            .prop_filter_map("small publish", |(pkt, limit, no_problem_info)| {
                let ok = match &pkt {
                    P5::Publish(p) => p.payload_len <= 2_000,
                    _ => true,
                };
                ok.then_some(Case { pkt, limit, no_problem_info })
            });
        run_proptest(
            ctx.sub_seed("pairs", shard),
            ctx.tier.pick(1_500, 40_000),
            &strategy,
            &mut st,
            |c| json!({"kind": "limit", "brief": strat::brief(&c.pkt), "limit": c.limit, "case": c}),
            check_case,
        );
        for s in &mut st.samples {
            if let Some(o) = s.as_object_mut() {
                o.remove("case");
            }
        }
        st
    });
    failing_encodes(&mut stats);
    v3_limits(ctx, &mut stats);
    reported_sizes(ctx, &mut stats);
    conn_limits(&mut stats);
    let report = Report {
        level: "exploration",
        rule: "ack-heavy proptest packets (PUBACK family, SUBACK/UNSUBACK with up to 80 codes, CONNACK, DISCONNECT, AUTH, reason strings up to 65535 bytes, \
               up to 40 user properties) x every outbound limit 1..=64, 0, sampled 65..4096 and {65535, 65536, 2^21, 2^28-1, 2^28, u32::MAX} x Request-Problem-Information \
               on/off (flag set through the public path: the codec decodes a CONNECT); sampled (any packet, any limit) pairs with shrinking; encodes that must fail \
               (over-long strings/binary, QoS 0 with id, QoS>0 without) checked for leftover bytes; v3 packets x max size; var_int_len / var_int_len_from_size relation; connection level (v5 server): CONNECT Maximum Packet Size 8..300 x handshake accepted / refused with a bare code / refused with a CONNACK carrying a reason string of 0..250 bytes and 0..8 user properties: no frame the server writes (CONNACK, the DISCONNECT after a later protocol error) exceeds the announced maximum; and a CONNECT that declines problem information x CONNACK capability flags rewritten by the handshake service: SUBACK / UNSUBACK built with a reason string and a user property go out without them (with them when nothing was declined). \
               Non-trivial = limit in force and (something dropped, over-size error, or limit < 16), or problem info stripped, or a failing encode; distinct = (kind, limit bucket, \
               #props dropped, reason dropped, outcome, flag)"
            .into(),
        exhaustive: false,
        assumptions: vec![
            "'only diagnostics may be dropped' is judged with the reference decoder: all non Reason-String/User-Property fields equal, emitted user properties an ordered sub-list, reason string absent or identical".into(),
            "an over-size error is accepted whenever the packet without diagnostics is within 32 bytes of the limit (covers the library's documented conservative reserve)".into(),
            "Request Problem Information = 0 is required to strip diagnostics from PUBACK/PUBREC/PUBREL/PUBCOMP/SUBACK/UNSUBACK/AUTH only (CONNACK and DISCONNECT may keep them, MQTT 5 3.1.2.11.7)".into(),
        ],
        extra: BTreeMap::new(),
    };
    finish(ctx, started, stats, report)
}

// ---------------------------------------------------------------------------------------------
// connection level: the limit the peer announced in CONNECT is in force for everything the server writes,
// the CONNACK of a refused handshake included
// ---------------------------------------------------------------------------------------------

#[derive(Clone, Copy, Debug, PartialEq, Eq, Hash, Serialize, Deserialize)]
pub struct ConnCase {
    /// Maximum Packet Size in the client's CONNECT
    pub max: u32,
    /// 0 accept, 1 refuse with a bare reason code, 2 refuse with a CONNACK that carries diagnostics
    pub outcome: u8,
    pub reason_len: u16,
    pub props: u8,
}

pub async fn run_conn(c: ConnCase) -> Result<CaseInfo, Failure> {
    use crate::bed::any::{Cfg, Eut};
    use crate::bed::v5::{Hs5, WireTail};
    let mut cfg = Cfg::default();
    cfg.v5.connect.max_packet_size = Some(c.max);
    cfg.v5.hs = match c.outcome % 3 {
        0 => Hs5::default(),
        1 => Hs5::Refuse(0x87),
        _ => Hs5::RefuseWith { code: 0x87, reason_len: c.reason_len, props: c.props },
    };
    let eut = Eut::start(crate::bed::Role::V5Server, &cfg).await;
    let _ = eut.handshake(&cfg).await;
    if c.outcome % 3 == 0 {
        // a protocol error after an accepted handshake: the DISCONNECT is subject to the limit too
        eut.peer_send(&P5::PubAck(s5::Ack5 { pid: 9, ..Default::default() }), &[]);
        eut.settle().await;
    }
    let (pk, tail) = eut.packets();
    let fail = |rule: &str, d: String| Failure::new(rule, format!("C09/conn/{rule}"), format!("{d}; case {c:?}")).with_case(json!({"kind": "conn", "case": c}));
    if let WireTail::Garbage { at, why } = &tail {
        return Err(fail("wire-garbage", format!("output does not parse at {at}: {why}")));
    }
    let mut start = 0usize;
    for w in &pk {
        let len = w.end - start;
        start = w.end;
        if len as u32 > c.max {
            return Err(fail("frame-above-peer-maximum", format!("{:?} frame of {len} bytes written to a peer that announced Maximum Packet Size {}", w.pkt.kind(), c.max)));
        }
    }
    let connack = pk.iter().find_map(|w| if let P5::ConnAck(a) = &w.pkt { Some(a.clone()) } else { None });
    match (c.outcome % 3, &connack) {
        // (a CONNACK that cannot fit the announced maximum may be missing altogether)
        (0, Some(a)) if a.reason != 0 => return Err(fail("accepted-connack", format!("accepted handshake, CONNACK carries {:#x}", a.reason))),
        (0, _) => {}
        // a refusal that does not fit may be dropped altogether, never sent as success
        (_, Some(a)) if a.reason != 0x87 => return Err(fail("refusal-connack", format!("refused with 0x87, CONNACK carries {:#x}", a.reason))),
        _ => {}
    }
    eut.finish().await;
    let shed = c.outcome % 3 == 2 && connack.as_ref().is_some_and(|a| a.reason_string.is_none() || a.user_props.len() < usize::from(c.props));
    let mut info = if c.outcome % 3 != 0 { CaseInfo::nontrivial(&("conn", c)) } else { CaseInfo::trivial() };
    info.labels.push("conn-limit");
    if shed {
        info.labels.push("conn-connack-diagnostics-shed");
    }
    if c.outcome % 3 != 0 && connack.is_none() {
        info.labels.push("conn-refusal-not-sent");
    }
    Ok(info)
}

/// connection level: a CONNECT that declines problem information keeps diagnostics off the acknowledgements, whatever the
/// handshake service writes into the CONNACK afterwards (capability flags are kept in the same codec state)
#[derive(Clone, Copy, Debug, PartialEq, Eq, Hash, Serialize, Deserialize)]
pub struct InfoCase {
    pub decline: bool,
    pub no_retain: bool,
    pub no_sub_ids: bool,
}

pub async fn run_info(c: InfoCase) -> Result<CaseInfo, Failure> {
    use crate::bed::any::{Cfg, Eut};
    use crate::bed::{CtlPlan, Role};
    let mut cfg = Cfg::default();
    cfg.v5.connect.req_prob_info = c.decline.then_some(false);
    cfg.v5.no_retain = c.no_retain;
    cfg.v5.no_sub_ids = c.no_sub_ids;
    let eut = Eut::start(Role::V5Server, &cfg).await;
    let _ = eut.handshake(&cfg).await;
    let fail = |rule: &str, d: String| Failure::new(rule, format!("C09/conn/{rule}"), format!("{d}; case {c:?}")).with_case(json!({"kind": "info", "case": c}));
    if eut.done().is_some() {
        return Err(fail("harness-handshake", format!("{:?}", eut.done())));
    }
    let app = eut.app().clone();
    app.ctl_plans.borrow_mut().insert(0, CtlPlan::AckDiag);
    app.ctl_plans.borrow_mut().insert(1, CtlPlan::AckDiag);
    eut.peer_send(&P5::Subscribe(s5::Sub5 { pid: 1, filters: vec![("a/b".into(), s5::SubOpts::default())], ..Default::default() }), &[]);
    eut.settle().await;
    eut.peer_send(&P5::Unsubscribe(s5::Unsub5 { pid: 2, filters: vec!["a/b".into()], ..Default::default() }), &[]);
    eut.settle().await;
    let (pk, _) = eut.packets();
    let acks: Vec<&s5::SubAck5> = pk.iter().filter_map(|w| match &w.pkt { P5::SubAck(a) | P5::UnsubAck(a) => Some(a), _ => None }).collect();
    if acks.len() != 2 {
        return Err(fail("acks-missing", format!("{} of 2 acknowledgements written", acks.len())));
    }
    for a in &acks {
        let has = a.reason_string.is_some() || !a.user_props.is_empty();
        if c.decline && has {
            return Err(fail("problem-info-not-stripped", format!("the CONNECT declined problem information, yet an acknowledgement carries {:?} / {:?}", a.reason_string, a.user_props)));
        }
        if !c.decline && !has {
            return Err(fail("problem-info-lost", format!("problem information was not declined, yet the acknowledgement of packet {} lost its reason string and user property", a.pid)));
        }
    }
    eut.finish().await;
    let mut info = CaseInfo::nontrivial(&("info", c));
    info.labels.push("conn-problem-info");
    Ok(info)
}

fn conn_limits(stats: &mut Stats) {
    {
        let mut work = Vec::new();
        for decline in [false, true] {
            for no_retain in [false, true] {
                for no_sub_ids in [false, true] {
                    work.push(InfoCase { decline, no_retain, no_sub_ids });
                }
            }
        }
        let mut st = Stats::default();
        crate::bed::run_list_bed("C09", work, &mut st, |c| json!({"kind": "info", "case": c}), run_info);
        stats.merge(st);
    }
    let mut work = Vec::new();
    for max in [8u32, 12, 16, 24, 40, 64, 100, 300] {
        work.push(ConnCase { max, outcome: 0, reason_len: 0, props: 0 });
        work.push(ConnCase { max, outcome: 1, reason_len: 0, props: 0 });
        for reason_len in [0u16, 3, 20, 60, 250] {
            for props in [0u8, 1, 3, 8] {
                work.push(ConnCase { max, outcome: 2, reason_len, props });
            }
        }
    }
    let mut st = Stats::default();
    crate::bed::run_list_bed("C09", work, &mut st, |c| json!({"kind": "conn", "case": c}), run_conn);
    stats.merge(st);
}

pub fn replay(path: &str) -> i32 {
    let case = super::load_case(path);
    match case["kind"].as_str() {
        Some("info") => {
            let res = serde_json::from_value::<InfoCase>(case["case"].clone()).map_err(|e| e.to_string()).map(|c| crate::bed::run_isolated("C09", c, &run_info));
            super::report_replay("C09", path, res)
        }
        Some("conn") => {
            let res = serde_json::from_value::<ConnCase>(case["case"].clone()).map_err(|e| e.to_string()).map(|c| crate::bed::run_isolated("C09", c, &run_conn));
            super::report_replay("C09", path, res)
        }
        Some("limit") => {
            let res = serde_json::from_value::<Case>(case["case"].clone()).map_err(|e| e.to_string()).map(|c| check_case(&c));
            super::report_replay("C09", path, res)
        }
        Some("failing") | Some("v3") | Some("varlen") => {
            // deterministic groups: re-run them all
            let mut st = Stats::default();
            failing_encodes(&mut st);
            let want = case["name"].as_str().unwrap_or("");
            let f = st.failures.into_iter().find(|f| f.case["name"].as_str() == Some(want));
            super::report_replay("C09", path, Ok(match f {
                Some(f) => Err(f),
                None => Ok(CaseInfo::trivial()),
            }))
        }
        other => {
            eprintln!("unknown replay kind {other:?}");
            2
        }
    }
}

#[allow(dead_code)]
fn unused(_: Value) {}
