//! C15 — MQTT 5 DISCONNECT: at most once, never after the peer's, names the
//! cause.  All ordered pairs (thorough: triples) of close initiators with
//! three kinds of separators, v5 server and v5 client; random longer mixes.

use std::collections::BTreeMap;
use std::time::Instant;

use proptest::prelude::*;
use serde::{Deserialize, Serialize};
use serde_json::json;

use crate::bed::any::{Cfg, Eut};
use crate::bed::v5::WireTail;
use crate::bed::*;
use crate::runner::*;
use crate::spec::v5::{self as s5, P5};

#[derive(Clone, Copy, Debug, PartialEq, Eq, Hash, Serialize, Deserialize)]
pub enum Init {
    /// sink.close()
    AppClose,
    /// sink.close_with_reason(code)
    AppCloseReason(u8),
    AppCloseNoReason,
    AppForceClose,
    /// protocol handler answers PINGREQ (false) / SUBSCRIBE (true) with disconnect_with(code) (server)
    CtlDisconnect(bool, u8),
    /// alias-only PUBLISH with an alias never bound: 0x94
    UnknownAlias,
    /// QoS 2 PUBLISH against Maximum QoS 1: 0x9B
    QosAboveMax,
    /// RETAIN although announced unavailable: 0x9A (server)
    RetainUnavailable,
    /// SUBSCRIBE with a subscription identifier although announced unavailable: 0xA1 (server)
    SubIdUnavailable,
    /// second QoS 1 PUBLISH while the first is being handled, Receive Maximum 1: 0x93
    ReceiveMaxExceeded,
    /// frame above the inbound maximum: 0x95
    Oversize,
    /// malformed Remaining Length
    Malformed,
    /// PUBACK nobody waits for
    WrongAck,
    /// publish handler fails with an error that maps to no acknowledgement
    HandlerErr,
    /// protocol handler fails (server)
    CtlErr,
    /// peer's DISCONNECT: 0 no session expiry, 1 session expiry 0, 2 session expiry 60
    PeerDisconnect(u8),
    /// peer's DISCONNECT whose protocol handler is parked until the end: later initiators act while it is being handled
    PeerDisconnectHeld,
}

#[derive(Clone, Debug, PartialEq, Eq, Hash, Serialize, Deserialize)]
pub struct Case {
    pub role: Role,
    pub inits: Vec<Init>,
    /// separator after initiator i: 0 nothing, 1 a few yields, 2 settle
    pub seps: Vec<u8>,
    pub stop: StopAnswer,
    /// session expiry interval of the CONNECT (server role): None or Some(60)
    pub connect_expiry: bool,
    /// the control service keeps the Stop notification open until the end: later initiators act while it is being handled
    #[serde(default)]
    pub hold_stop: bool,
    /// server role: the handshake service writes this Session Expiry Interval into the CONNACK (the rule about the
    /// peer's DISCONNECT stays tied to the value in CONNECT)
    #[serde(default)]
    pub connack_expiry: Option<u32>,
    /// a publish sent through the non-blocking API is outstanding; its acknowledgement callback closes the sink when it is
    /// told that the connection is gone (one more close initiator, inside the teardown)
    #[serde(default)]
    pub noblock: bool,
    /// the endpoint announced a Topic Alias Maximum of 0 (aliases switched off) instead of 4
    #[serde(default)]
    pub no_aliases: bool,
}

fn fail(c: &Case, rule: &str, detail: String) -> Failure {
    Failure::new(rule, format!("C15/{}/{rule}", c.role.name()), detail)
}

/// dedicated DISCONNECT reason code of an error cause
fn dedicated(i: Init) -> Option<u8> {
    match i {
        Init::UnknownAlias => Some(0x94),
        Init::QosAboveMax => Some(0x9B),
        Init::RetainUnavailable => Some(0x9A),
        Init::SubIdUnavailable => Some(0xA1),
        Init::ReceiveMaxExceeded => Some(0x93),
        Init::Oversize => Some(0x95),
        _ => None,
    }
}

fn is_error_cause(i: Init) -> bool {
    dedicated(i).is_some() || matches!(i, Init::Malformed | Init::WrongAck | Init::HandlerErr | Init::CtlErr)
}

pub fn initiators(role: Role) -> Vec<Init> {
    let mut v = vec![
        Init::AppClose,
        Init::AppCloseReason(0x8B),
        Init::AppCloseNoReason,
        Init::AppForceClose,
        Init::UnknownAlias,
        Init::ReceiveMaxExceeded,
        Init::Oversize,
        Init::Malformed,
        Init::WrongAck,
        Init::HandlerErr,
        Init::PeerDisconnect(0),
        Init::PeerDisconnect(1),
        Init::PeerDisconnect(2),
        Init::PeerDisconnectHeld,
    ];
    if role.is_server() {
        v.extend([Init::QosAboveMax, Init::CtlDisconnect(false, 0x98), Init::CtlDisconnect(true, 0x00), Init::RetainUnavailable, Init::SubIdUnavailable, Init::CtlErr]);
    }
    v
}

async fn apply(c: &Case, eut: &Eut, i: Init, pid: &mut u16) {
    let app = eut.app();
    *pid += 1;
    let id = *pid;
    let publish = |qos: u8, id: u16| s5::Publish5 { topic: "t/x".into(), qos, pid: (qos > 0).then_some(id), payload_len: 1, ..Default::default() };
    match i {
        Init::AppClose => eut.app_close(0, 0),
        Init::AppCloseReason(code) => eut.app_close(2, code),
        Init::AppCloseNoReason => eut.app_close(3, 0),
        Init::AppForceClose => eut.app_close(1, 0),
        Init::CtlDisconnect(sub, code) => {
            let seq = app.ctl_seq.get();
            app.ctl_plans.borrow_mut().insert(seq, CtlPlan::Disconnect(code));
            if sub {
                eut.peer_send(&P5::Subscribe(s5::Sub5 { pid: id, filters: vec![("a".into(), s5::SubOpts::default())], ..Default::default() }), &[]);
            } else {
                eut.peer_send(&P5::PingReq, &[]);
            }
        }
        Init::UnknownAlias => eut.peer_send(&P5::Publish(Box::new(s5::Publish5 { topic: String::new(), topic_alias: Some(7), qos: 0, payload_len: 1, ..Default::default() })), &[1]),
        Init::QosAboveMax => eut.peer_send(&P5::Publish(Box::new(publish(2, id))), &[1]),
        // (the server checks RETAIN only on QoS 1/2 publishes; a retained QoS 0 publish is accepted: noted in DESIGN.md)
        Init::RetainUnavailable => eut.peer_send(&P5::Publish(Box::new(s5::Publish5 { retain: true, ..publish(1, id) })), &[1]),
        Init::SubIdUnavailable => eut.peer_send(&P5::Subscribe(s5::Sub5 { pid: id, sub_id: Some(5), filters: vec![("a".into(), s5::SubOpts::default())], ..Default::default() }), &[]),
        Init::ReceiveMaxExceeded => {
            app.hold(G_PUB, app.pub_seq.get());
            let mut b = eut.encode(&P5::Publish(Box::new(publish(1, id))), &[1]);
            *pid += 1;
            b.extend(eut.encode(&P5::Publish(Box::new(publish(1, *pid))), &[1]));
            eut.peer().send(&b);
        }
        Init::Oversize => eut.peer().send(&[0x30, 0x88, 0x27]),
        Init::Malformed => eut.peer().send(&[0x30, 0xff, 0xff, 0xff, 0xff, 0x01]),
        Init::WrongAck => eut.peer_send(&P5::PubAck(s5::Ack5 { pid: 60_000, ..Default::default() }), &[]),
        Init::HandlerErr => {
            let seq = app.pub_seq.get();
            app.pub_plans.borrow_mut().insert(seq, PubPlan { outcome: Outcome::Err, read: ReadPlan::Eager });
            eut.peer_send(&P5::Publish(Box::new(publish(1, id))), &[1]);
        }
        Init::CtlErr => {
            let seq = app.ctl_seq.get();
            app.ctl_plans.borrow_mut().insert(seq, CtlPlan::Err);
            eut.peer_send(&P5::Subscribe(s5::Sub5 { pid: id, filters: vec![("e".into(), s5::SubOpts::default())], ..Default::default() }), &[]);
        }
        Init::PeerDisconnectHeld => {
            app.hold(G_CTL, app.ctl_seq.get());
            eut.peer_send(&P5::Disconnect(s5::Disc5::default()), &[]);
        }
        Init::PeerDisconnect(k) => {
            let se = match k {
                0 => None,
                1 => Some(0),
                _ => Some(60),
            };
            eut.peer_send(&P5::Disconnect(s5::Disc5 { reason: 0, session_expiry: se, ..Default::default() }), &[]);
        }
    }
    let _ = c;
}

pub async fn run_case(c: Case) -> Result<CaseInfo, Failure> {
    let mut cfg = Cfg::default();
    cfg.v5.max_qos = 1;
    cfg.v5.max_size = 512;
    cfg.v5.max_receive = 1;
    cfg.v5.max_topic_alias = if c.no_aliases { 0 } else { 4 };
    cfg.v5.no_retain = true;
    cfg.v5.no_sub_ids = true;
    cfg.v5.connect.session_expiry = c.connect_expiry.then_some(60);
    if c.role == Role::V5Server && c.connack_expiry.is_some() {
        cfg.v5.hs_with = Some(crate::bed::v5::Override5 { session_expiry: c.connack_expiry, ..Default::default() });
    }
    cfg.v5.connect.receive_max = Some(8);
    if c.role == Role::V5Client {
        // the client's own limits travel in its CONNECT
        cfg.v5.connect.max_packet_size = Some(512);
        cfg.v5.connect.receive_max = Some(1);
        cfg.v5.connect.topic_alias_max = if c.no_aliases { None } else { Some(4) };
        cfg.v5.connack.max_qos = Some(1);
    }
    let eut = Eut::start(c.role, &cfg).await;
    eut.handshake(&cfg).await;
    if eut.done().is_some() {
        return Err(fail(&c, "harness-handshake", format!("{:?}", eut.done())));
    }
    let app = eut.app().clone();
    app.stop_answer.set(c.stop);
    app.hold_stop.set(c.hold_stop);
    if c.hold_stop {
        app.hold(G_STOP, 0);
    }
    let mut nb_fut = None;
    if c.noblock {
        eut.noblock().reenter.set(true);
        let mut f = eut.send(crate::bed::v5::SendSpec { kind: crate::bed::v5::SendKind::NoBlock, topic: "s/nb".into(), payload: vec![1], pid: None, user_prop: None });
        let _ = poll_once(&mut f).await;
        nb_fut = Some(f);
        eut.settle().await;
    }
    let base = eut.packets().0.len();
    let mut pid = 10u16;
    // wire length at the moment the peer's DISCONNECT was seen handled
    let mut peer_disc_handled_at: Option<usize> = None;
    let mut peer_disc_sent: Option<Init> = None;
    for (k, i) in c.inits.iter().enumerate() {
        apply(&c, &eut, *i, &mut pid).await;
        if matches!(i, Init::PeerDisconnect(_) | Init::PeerDisconnectHeld) && peer_disc_sent.is_none() {
            peer_disc_sent = Some(*i);
        }
        match c.seps.get(k).copied().unwrap_or(2) % 3 {
            0 => {}
            1 => yields(3).await,
            _ => {
                eut.settle().await;
            }
        }
        if peer_disc_sent.is_some() && peer_disc_handled_at.is_none() {
            let ev = app.events();
            let delivered = ev.iter().any(|e| matches!(e, Ev::CtlEnter { kind: CtlKind::Disconnect, .. }));
            let stop_seen = ev.iter().any(|e| matches!(e, Ev::Stop(_)));
            let stop_done = ev.iter().any(|e| matches!(e, Ev::ControlExit { stop: true }));
            // a fixed point in time: the peer's DISCONNECT has been handled and the endpoint is either idle
            // (nothing of the teardown has begun) or parked in the held Stop notification
            if delivered && (!stop_seen || (c.hold_stop && !stop_done)) && c.seps.get(k).copied().unwrap_or(2) % 3 == 2 {
                eut.peer().pump();
                peer_disc_handled_at = Some(eut.packets().0.len());
            }
        }
    }
    if std::env::var_os("VERIF_TRACE").is_some() {
        eprintln!("C15 events before release: {:?}; snapshot {peer_disc_handled_at:?}", app.events());
    }
    app.open_all();
    eut.settle().await;
    eut.peer().pump();
    let (pk, tail) = eut.packets();
    let ours: Vec<(usize, &s5::Disc5)> = pk.iter().enumerate().skip(base).filter_map(|(k, w)| if let P5::Disconnect(d) = &w.pkt { Some((k, d)) } else { None }).collect();
    let describe = || format!("initiators {:?} separators {:?} stop answer {:?}; written after the handshake: {:?}; stops {:?}", c.inits, c.seps, c.stop, pk[base..].iter().map(|w| match &w.pkt { P5::Disconnect(d) => format!("DISCONNECT({:#x})", d.reason), p => p.kind().to_string() }).collect::<Vec<_>>(), app.stops());
    if let WireTail::Garbage { at, why } = &tail {
        return Err(fail(&c, "wire-garbage", format!("output stops parsing at {at}: {why}; {}", describe())));
    }
    // (1) at most one DISCONNECT
    if ours.len() > 1 {
        return Err(Failure::new("disconnect-twice", format!("C15/{}/disconnect-twice", c.role.name()), format!("{} DISCONNECT packets written; {}", ours.len(), describe())));
    }
    // (2) nothing after our DISCONNECT
    if let Some((k, _)) = ours.first() {
        if *k + 1 != pk.len() || !matches!(tail, WireTail::Clean) {
            return Err(Failure::new("bytes-after-disconnect", format!("C15/{}/bytes-after-disconnect", c.role.name()), format!("packets or bytes follow the endpoint's DISCONNECT; {}", describe())));
        }
    }
    // (3) none after the peer's DISCONNECT was handled, except to report the protocol error of that very packet
    if let (Some(at), Some((k, d))) = (peer_disc_handled_at, ours.first()) {
        let expiry_error = matches!(peer_disc_sent, Some(Init::PeerDisconnect(2))) && !c.connect_expiry && c.role.is_server() && d.reason == 0x82;
        if *k >= at && !expiry_error {
            return Err(Failure::new(
                "disconnect-after-peers",
                format!("C15/{}/disconnect-after-peers", c.role.name()),
                format!("DISCONNECT({:#x}) was written after the peer's DISCONNECT had been handled; {}", d.reason, describe()),
            ));
        }
    }
    // (3b) a valid DISCONNECT of the peer as the only initiator: the endpoint has received it, whatever it makes of it,
    // so nothing but the report of a protocol error in that very packet may follow (non-zero expiry against CONNECT expiry 0)
    if c.inits.len() == 1 {
        if let (Some(init @ (Init::PeerDisconnect(_) | Init::PeerDisconnectHeld)), Some((_, d))) = (peer_disc_sent, ours.first()) {
            // invalid: a non-zero expiry against CONNECT expiry 0 [MQTT-3.14.2-2]; any expiry in a DISCONNECT sent by a server
            let invalid = if c.role.is_server() { matches!(init, Init::PeerDisconnect(2)) && !c.connect_expiry } else { matches!(init, Init::PeerDisconnect(1 | 2)) };
            if !invalid {
                return Err(Failure::new(
                    "disconnect-after-peers",
                    format!("C15/{}/disconnect-after-peers", c.role.name()),
                    format!("DISCONNECT({:#x}) was written in answer to a valid DISCONNECT of the peer (CONNECT session expiry {:?}, CONNACK session expiry {:?}); {}", d.reason, c.connect_expiry.then_some(60), c.connack_expiry, describe()),
                ));
            }
        }
    }
    // (4) an error cause that comes first, with no packet from the application, is named
    let first = c.inits[0];
    let app_packet = matches!(c.stop, StopAnswer::Own(_));
    let mut named = false;
    if is_error_cause(first) && !app_packet {
        // later initiators may have written their own DISCONNECT first only when nothing separates them from the cause
        // (with the Stop notification held open the cause is still being handled when the later initiators act)
        // (with a non-blocking publish outstanding the acknowledgement callback closes the sink during the teardown: one more
        // application close, which may write the single DISCONNECT before the library writes its own: which of the two names the cause is not judged)
        let alone = (c.inits.len() == 1 || (c.seps.first().copied().unwrap_or(2) % 3 == 2 && !c.hold_stop)) && !c.noblock;
        match ours.first() {
            Some((_, d)) => {
                if alone || (c.inits[1..].iter().all(|i| is_error_cause(*i)) && !c.noblock) {
                    if d.reason == 0 {
                        return Err(Failure::new("error-named-normal", format!("C15/{}/error-named-normal/{first:?}", c.role.name()), format!("the connection ended because of {first:?} but the DISCONNECT claims normal disconnection; {}", describe())));
                    }
                }
                if alone {
                    if let Some(code) = dedicated(first) {
                        if d.reason != code {
                            return Err(Failure::new(
                                "dedicated-code",
                                format!("C15/{}/dedicated-code/{first:?}", c.role.name()),
                                format!("cause {first:?} has the dedicated reason code {code:#x}, the DISCONNECT carries {:#x}; {}", d.reason, describe()),
                            ));
                        }
                        named = true;
                    }
                }
            }
            None => {
                // the only initiator on a writable transport: a DISCONNECT must be there (a failing control service excepted)
                if c.inits.len() == 1 && c.stop == StopAnswer::None {
                    return Err(Failure::new("error-not-reported", format!("C15/{}/error-not-reported/{first:?}", c.role.name()), format!("cause {first:?} ended the connection without any DISCONNECT; {}", describe())));
                }
            }
        }
    }
    eut.finish().await;
    // nothing may be written during teardown either
    let (pk2, _) = eut.packets();
    let n2 = pk2.iter().skip(base).filter(|w| matches!(w.pkt, P5::Disconnect(_))).count();
    if n2 > 1 {
        return Err(Failure::new("disconnect-twice", format!("C15/{}/disconnect-twice", c.role.name()), format!("{n2} DISCONNECT packets after teardown; {}", describe())));
    }
    let nt = c.inits.len() >= 2 || dedicated(first).is_some();
    let mut info = if nt { CaseInfo::nontrivial(&c) } else { CaseInfo::trivial() };
    if named {
        info.labels.push("dedicated-code-checked");
    }
    if peer_disc_handled_at.is_some() {
        info.labels.push("after-peer-disconnect");
    }
    if !ours.is_empty() {
        info.labels.push("disconnect-written");
    }
    if c.inits.len() >= 2 {
        info.labels.push("several-initiators");
    }
    info.labels.push(c.role.name());
    Ok(info)
}

fn all_cases(thorough: bool) -> Vec<Case> {
    let mut out = Vec::new();
    for role in [Role::V5Server, Role::V5Client] {
        let inits = initiators(role);
        let stops = [StopAnswer::None, StopAnswer::Own(0x89), StopAnswer::Fail];
        // singles
        for a in &inits {
            for stop in stops {
                for connect_expiry in [false, true] {
                    for hold_stop in [false, true] {
                        out.push(Case { role, inits: vec![*a], seps: vec![2], stop, connect_expiry, hold_stop, connack_expiry: None, noblock: false, no_aliases: false });
                        if *a == Init::UnknownAlias {
                            out.push(Case { role, inits: vec![*a], seps: vec![2], stop, connect_expiry, hold_stop, connack_expiry: None, noblock: false, no_aliases: true });
                        }
                        if !hold_stop {
                            out.push(Case { role, inits: vec![*a], seps: vec![2], stop, connect_expiry, hold_stop, connack_expiry: None, noblock: true, no_aliases: false });
                        }
                        if role == Role::V5Server && matches!(a, Init::PeerDisconnect(_) | Init::PeerDisconnectHeld) {
                            for ce in [0u32, 30] {
                                out.push(Case { role, inits: vec![*a], seps: vec![2], stop, connect_expiry, hold_stop, connack_expiry: Some(ce), noblock: false, no_aliases: false });
                            }
                        }
                    }
                }
            }
        }
        // ordered pairs (with repetition) x separator x stop answer
        for a in &inits {
            for b in &inits {
                for sep in 0..3u8 {
                    for stop in stops {
                        for hold_stop in [false, true] {
                            out.push(Case { role, inits: vec![*a, *b], seps: vec![sep, 2], stop, connect_expiry: false, hold_stop, connack_expiry: None, noblock: false, no_aliases: false });
                        }
                    }
                }
            }
        }
        if thorough {
            for a in &inits {
                for b in &inits {
                    for d in &inits {
                        for seps in [[0u8, 0], [0, 2], [2, 0], [1, 1], [2, 2]] {
                            out.push(Case { role, inits: vec![*a, *b, *d], seps: vec![seps[0], seps[1], 2], stop: StopAnswer::None, connect_expiry: false, hold_stop: seps[0] == 2, connack_expiry: None, noblock: false, no_aliases: false });
                        }
                    }
                }
            }
        }
    }
    out
}

fn case_strategy(role: Role) -> BoxedStrategy<Case> {
    let inits = initiators(role);
    (
        prop::collection::vec(prop::sample::select(inits), 2..6),
        prop::collection::vec(0u8..3, 6),
        prop_oneof![3 => Just(StopAnswer::None), 1 => Just(StopAnswer::Own(0x89)), 1 => Just(StopAnswer::Fail)],
        any::<bool>(),
        any::<bool>(),
        prop::option::weighted(0.3, prop::sample::select(vec![0u32, 30])),
    )
        .prop_map(move |(inits, seps, stop, connect_expiry, hold_stop, ce)| Case { role, inits, seps, stop, connect_expiry, hold_stop, connack_expiry: if role == Role::V5Server { ce } else { None }, noblock: false, no_aliases: false })
        .boxed()
}

pub fn check_case(c: &Case) -> Result<CaseInfo, Failure> {
    run_isolated("C15", c.clone(), &run_case)
}

pub fn run(ctx: &Ctx, started: Instant) -> i32 {
    let thorough = ctx.tier == Tier::Thorough;
    let cases = all_cases(thorough);
    let total = cases.len();
    let per_shard = ctx.tier.pick(4_000u32, 40_000);
    let stats = par_shards(WORKERS, |shard| {
        let mut st = Stats::default();
        let mine: Vec<Case> = cases.iter().enumerate().filter(|(i, _)| i % WORKERS == shard).map(|(_, c)| c.clone()).collect();
        run_list_bed("C15", mine, &mut st, |c| json!({"case": c}), run_case);
        run_proptest_bed("C15", ctx.sub_seed("rand", shard), per_shard, &case_strategy([Role::V5Server, Role::V5Client][shard % 2]), &mut st, |c| json!({"case": c}), run_case);
        st
    });
    let report = Report {
        level: "exploration",
        rule: format!(
            "enumerated core of {total} cases: every single initiator and every ordered pair (thorough: triple) with repetition of close initiators {{application close / close_with_reason / close_with_no_reason / force_close; protocol handler answering PINGREQ or SUBSCRIBE with \
             disconnect_with; peer violations with dedicated codes (unknown topic alias 0x94, QoS above maximum 0x9B, RETAIN unavailable 0x9A, subscription identifier unavailable 0xA1, Receive Maximum exceeded 0x93, frame above the maximum 0x95); malformed bytes; unsolicited PUBACK; \
             publish handler error; protocol handler error; peer DISCONNECT without / with zero / with non-zero session expiry (against CONNECT expiry 0 / 60 and a CONNACK in which the handshake wrote expiry 0 / 30), or with its protocol handler parked while the later initiators act}} x separators {{none, yields, settle}} x control service answering Stop with nothing / its own DISCONNECT / an error, at once or held open while the later initiators act, v5 server and v5 client; random mixes of 2..5 initiators. \
             Oracle on the reference-decoded output: at most one DISCONNECT, nothing after it, none after the peer's DISCONNECT was handled (except 0x82 for a non-zero session expiry against CONNECT expiry 0), an error cause that comes first and is not overtaken never yields reason 0x00 and \
             carries its dedicated code, a lone error cause is reported at all. Non-trivial = at least 2 initiators or a dedicated-code cause; distinct = the case"
        ),
        exhaustive: true,
        assumptions: vec![
            "keep-alive timeout (0x8D) is covered by C20 (real time)".into(),
            "when two initiators are not separated by a settle, which of them writes the single DISCONNECT is not judged (only that it is single and, if both are errors, not 0x00)".into(),
        ],
        extra: BTreeMap::new(),
    };
    finish(ctx, started, stats, report)
}

pub fn replay(path: &str) -> i32 {
    let case = super::load_case(path);
    let res = serde_json::from_value::<Case>(case["case"].clone()).map_err(|e| e.to_string()).map(|c| check_case(&c));
    super::report_replay("C15", path, res)
}
