//! C05 — the outbound in-flight window never exceeds the negotiated limit.
//! Harness-owned sender schedule: creation, polling order, cancellation,
//! acknowledgements singly or batched, write back-pressure on/off.

use std::collections::BTreeMap;
use std::time::Instant;

use proptest::prelude::*;
use serde::{Deserialize, Serialize};
use serde_json::json;

use crate::bed::v5::SendKind;
use crate::bed::*;
use crate::runner::*;
use crate::sinkbed::*;

#[derive(Clone, Debug, PartialEq, Eq, Hash, Serialize, Deserialize)]
pub struct Case {
    pub role: Role,
    pub limit: u16,
    pub how: LimitHow,
    pub ops: Vec<Op>,
    /// server roles: sink futures created (and polled once) while the handshake service is still running; true = dropped at once
    #[serde(default)]
    pub pre: Vec<(SendKind, bool)>,
}

fn fail(c: &Case, rule: &str, detail: String) -> Failure {
    Failure::new(rule, format!("C05/{}/{rule}", c.role.name()), detail)
}

pub async fn run_case(c: Case) -> Result<CaseInfo, Failure> {
    let mut w = World::start_pre(c.role, c.limit, c.how, 64, None, &|_| {}, &c.pre).await.map_err(|f| fail(&c, "harness-handshake", f.detail))?;
    // the negotiated window is visible through credit()
    if w.eut.credit() != Some(w.limit) {
        return Err(fail(&c, "initial-credit", format!("send limit {} established via {:?} but credit() = {:?}", c.limit, c.how, w.eut.credit())));
    }
    let mut trace: Vec<u8> = Vec::new();
    let mut waited = false;
    for op in &c.ops {
        if w.ended() {
            break;
        }
        // a server never subscribes: those sink operations only make sense for client roles
        if c.role.is_server() && matches!(op, Op::Send { kind: SendKind::Subscribe | SendKind::Unsubscribe, .. } | Op::Create { kind: SendKind::Subscribe | SendKind::Unsubscribe, .. }) {
            continue;
        }
        // at most one streamed publish per history
        if matches!(op, Op::StreamStart { .. }) && !w.streams.is_empty() {
            continue;
        }
        w.apply(*op).await.map_err(|f| fail(&c, &f.rule, f.detail))?;
        if w.ended() {
            break;
        }
        trace.push(match op {
            Op::StreamStart { bad, .. } => 9 + bad,
            Op::Chunk { .. } => 13,
            Op::Create { .. } => 1,
            Op::Send { .. } => 2,
            Op::Poll(_) => 3,
            Op::DropFut(_) => 4,
            Op::Ack { batch, .. } => 5 + u8::from(*batch),
            Op::Window(o) => 7 + u8::from(*o),
            _ => 0,
        });
        if !w.stalled {
            let o = w.outstanding_pubs();
            if o > w.limit {
                let overtaken = w.parked_then_ran;
                return Err(Failure::new(
                    "window-exceeded",
                    format!("C05/{}/window-exceeded", c.role.name()),
                    format!(
                        "send limit {} but {o} QoS>0 PUBLISH frames are on the wire without their final acknowledgement (a parked sender was resumed: {overtaken}); futures {:?}",
                        w.limit,
                        w.results_summary()
                    ),
                ));
            }
            if matches!(op, Op::Settle | Op::Ack { .. }) {
                let all = w.outstanding_all();
                if let Some(cr) = w.eut.credit() {
                    if cr != w.limit.saturating_sub(all) && all <= w.limit {
                        return Err(fail(&c, "credit-mismatch", format!("limit {} outstanding {all} but credit() = {cr}; futures {:?}", w.limit, w.results_summary())));
                    }
                }
            }
        }
        if w.slots.iter().any(|s| s.fut.is_some() && s.first_polled.is_some()) && w.outstanding_all() >= w.limit {
            waited = true;
        }
    }
    // final: lift stall and look once more
    let ended_early = w.ended();
    w.apply(Op::Window(true)).await.map_err(|f| fail(&c, &f.rule, f.detail))?;
    w.apply(Op::Settle).await.map_err(|f| fail(&c, &f.rule, f.detail))?;
    let o = w.outstanding_pubs();
    if o > w.limit && !ended_early {
        return Err(Failure::new("window-exceeded", format!("C05/{}/window-exceeded", c.role.name()), format!("send limit {} but {o} unacknowledged PUBLISH frames on the wire at the end", w.limit)));
    }
    let senders = w.slots.len();
    let nt = waited && w.parked_then_ran && senders >= 2;
    w.eut.finish().await;
    let mut info = if nt { CaseInfo::nontrivial(&(c.role, c.limit, c.how, &trace)) } else { CaseInfo::trivial() };
    if waited {
        info.labels.push("sender-parked");
    }
    if w.parked_then_ran {
        info.labels.push("parked-sender-proceeded");
    }
    if w.max_outstanding_pubs == w.limit {
        info.labels.push("window-full");
    }
    info.labels.push(c.role.name());
    Ok(info)
}

pub fn send_kind() -> BoxedStrategy<SendKind> {
    prop_oneof![5 => Just(SendKind::Qos1), 2 => Just(SendKind::Qos2), 1 => Just(SendKind::Subscribe), 1 => Just(SendKind::Unsubscribe), 1 => Just(SendKind::Ready)].boxed()
}

pub fn op_strategy() -> BoxedStrategy<Op> {
    prop_oneof![
        5 => (send_kind(), any::<bool>()).prop_map(|(kind, again)| Op::Send { kind, again, own_id: 0 }),
        2 => (send_kind(), any::<bool>()).prop_map(|(kind, again)| Op::Create { kind, again, own_id: 0 }),
        6 => any::<u8>().prop_map(Op::Poll),
        1 => any::<u8>().prop_map(Op::DropFut),
        4 => (1u8..4, any::<bool>()).prop_map(|(n, batch)| Op::Ack { n, batch }),
        1 => any::<bool>().prop_map(Op::Window),
        1 => (0u8..4).prop_map(Op::Yield),
        1 => Just(Op::Settle),
        2 => any::<u8>().prop_map(Op::Release),
        1 => any::<u8>().prop_map(Op::DropReceipt),
        1 => (0u8..4).prop_map(Op::Inbound),
        1 => prop::sample::select(vec![0u8, 3]).prop_map(|bad| Op::StreamStart { qos: 1, declared: 6, bad }),
        1 => prop::sample::select(vec![1u8, 3]).prop_map(|len| Op::Chunk { stream: 0, len }),
    ]
    .boxed()
}

fn case_strategy(role: Role) -> BoxedStrategy<Case> {
    (1u16..5, prop::sample::select(vec![LimitHow::Config, LimitHow::Handshake, LimitHow::PeerLower, LimitHow::PeerHigher, LimitHow::HandshakeAbovePeer, LimitHow::HandshakeBelowPeer]), prop::collection::vec(op_strategy(), 3..26), prop_oneof![3 => Just(Vec::new()), 1 => prop::collection::vec((send_kind(), any::<bool>()), 1..5)])
        .prop_map(move |(limit, how, ops, pre)| Case { role, limit, how, ops, pre: if role.is_server() { pre.into_iter().map(|(k, d)| (if matches!(k, SendKind::Subscribe | SendKind::Unsubscribe) { SendKind::Qos1 } else { k }, d)).collect() } else { Vec::new() } })
        .boxed()
}

pub fn check_case(c: &Case) -> Result<CaseInfo, Failure> {
    run_isolated("C05", c.clone(), &run_case)
}

pub fn run(ctx: &Ctx, started: Instant) -> i32 {
    let per_shard = ctx.tier.pick(12_000u32, 150_000);
    let stats = par_shards(WORKERS, |shard| {
        let mut st = Stats::default();
        run_proptest_bed("C05", ctx.sub_seed("rand", shard), per_shard, &case_strategy(Role::ALL[shard % 4]), &mut st, |c| json!({"case": c}), run_case);
        st
    });
    let report = Report {
        level: "exploration",
        rule: "histories of 3..25 ops for send limits 1..4 established via config / HandshakeAck::max_send / peer Receive Maximum lower or higher than the configured value (client: CONNACK Receive Maximum): create or create+poll a sink future \
               (QoS 1, QoS 2, subscribe, unsubscribe, ready(), at most one streamed QoS 1 publish created with or without a first poll; optionally 'send again on completion'), poll / drop any owned future in any order, peer acknowledgements in order of receipt singly or batched in one write, QoS 2 release / receipt drop, \
               peer window stall and release with a 64-byte write watermark, inbound packets that make the endpoint write responses, yields. Oracle after every op with an open window: QoS>0 PUBLISH frames on the wire minus final acknowledgements sent by the peer <= limit; after settle/ack also \
               credit() == limit - outstanding. Non-trivial = a sender was parked on a full window and later proceeded with >= 2 senders; distinct = (role, limit, how, op-kind trace)"
            .into(),
        exhaustive: false,
        assumptions: vec![
            "only the awaiting send APIs are used (the statement excludes the non-blocking ones)".into(),
            "the peer answers each request in order of receipt (PUBACK / PUBREC / PUBCOMP / SUBACK / UNSUBACK)".into(),
        ],
        extra: BTreeMap::new(),
    };
    finish(ctx, started, stats, report)
}

pub fn replay(path: &str) -> i32 {
    let case = super::load_case(path);
    let res = serde_json::from_value::<Case>(case["case"].clone()).map_err(|e| e.to_string()).map(|c| check_case(&c));
    super::report_replay("C05", path, res)
}
