//! bed smoke test (not a property): `verif-check SMOKE`
use std::time::Instant;

use crate::bed::v5::*;
use crate::bed::*;
use crate::runner::Ctx;
use crate::spec::v5 as s5;

pub fn run(_ctx: &Ctx, _started: Instant) -> i32 {
    for role in [Role::V5Server, Role::V5Client] {
        let t = Instant::now();
        let n = 200;
        let r = with_system(async move {
            let mut out = String::new();
            for i in 0..n {
                let cfg = Cfg5::default();
                let eut = Eut5::start(role, &cfg).await;
                let hs = eut.handshake(&cfg).await;
                let p = s5::Publish5 { qos: 1, pid: Some(5), topic: "t/a".into(), payload_len: 3, ..Default::default() };
                eut.peer.send(&enc_pub(&p, b"abc"));
                eut.settle().await;
                let (pk, tail) = eut.packets();
                eut.peer.close();
                eut.settle().await;
                if i == 0 {
                    out = format!(
                        "{role:?}: handshake wrote {:?}\n after publish: {:?} tail {:?}\n log {:?}\n done {:?}",
                        hs.iter().map(|p| p.pkt.kind()).collect::<Vec<_>>(),
                        pk.iter().map(|p| p.pkt.kind()).collect::<Vec<_>>(),
                        tail,
                        eut.app.events(),
                        eut.done.0.borrow()
                    );
                }
            }
            out
        });
        println!("{r:?}\n{n} cases in {:?}", t.elapsed());
    }
    0
}

pub fn replay(_: &str) -> i32 {
    2
}
