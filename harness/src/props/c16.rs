//! C16 — no sequence of well-formed peer packets can panic or hang an
//! endpoint.  Exhaustive sequences over an alphabet of packet templates,
//! after (or instead of) the handshake, against idle and busy application
//! states; longer random sequences.

use std::collections::BTreeMap;
use std::time::Instant;

use proptest::prelude::*;
use serde::{Deserialize, Serialize};
use serde_json::json;

use crate::bed::any::{Cfg, Eut};
use crate::bed::v5::{BoxFut, SendKind, SendRes, SendSpec, WireTail};
use crate::bed::*;
use crate::runner::*;
use crate::spec::v5::{self as s5, P5};

#[derive(Clone, Copy, Debug, PartialEq, Eq, Hash, Serialize, Deserialize)]
pub enum AppState {
    Idle,
    /// outstanding QoS 1, QoS 2, subscribe and unsubscribe sends (ids 1..4)
    BusySends,
    /// the same four sends issued in rotated order, so that each kind is the oldest outstanding one (ids follow the order)
    BusySendsRot(u8),
    /// a QoS 2 send whose PUBREC has been received (receipt held by the application)
    BusyReceipt,
    /// two inbound publishes (ids 1, 2) inside gated handlers
    BusyHandlers,
    /// the sequence replaces the handshake
    NoHandshake,
    /// two publishes sent through the non-blocking API (ids 1, 2; the acknowledgement callback looks at the sink) and an awaited QoS 1 send (id 3)
    BusyNoBlock,
    /// every publish and protocol handler the sequence starts stays suspended until the sequence is over (a request
    /// that is being handled while the next packets arrive)
    GatedAll,
    /// a QoS 2 send (id 1) whose future was dropped after the PUBLISH was written, and an awaited QoS 1 send (id 2)
    BusyAbandoned,
}

#[derive(Clone, Debug, PartialEq, Eq, Hash, Serialize, Deserialize)]
pub struct Case {
    pub role: Role,
    pub state: AppState,
    /// indices into the template alphabet
    pub seq: Vec<u8>,
}

/// the template alphabet, in reference form; `None` payload marker handled below
pub fn templates(v5: bool) -> Vec<(&'static str, Vec<u8>)> {
    let l = s5::Layout::default();
    let e5 = |p: &P5, payload: &[u8]| s5::encode(p, payload, &l);
    let e = |p: P5, payload: &[u8]| -> Vec<u8> {
        if v5 {
            e5(&p, payload)
        } else {
            crate::bed::any::down(&p).map(|p3| crate::spec::v3::encode(&p3, payload)).unwrap_or_default()
        }
    };
    let publ = |qos: u8, id: u16, n: u32| P5::Publish(Box::new(s5::Publish5 { qos, pid: (qos > 0).then_some(id), topic: "t/a".into(), payload_len: n, ..Default::default() }));
    let ack = |id: u16| s5::Ack5 { pid: id, ..Default::default() };
    let mut t: Vec<(&'static str, Vec<u8>)> = vec![
        ("CONNECT", e(P5::Connect(Box::new(s5::Connect5 { client_id: "x".into(), clean_start: true, ..Default::default() })), &[])),
        ("CONNACK", e(P5::ConnAck(Box::default()), &[])),
        ("PUB0", e(publ(0, 0, 2), b"hi")),
        ("PUB1-1", e(publ(1, 1, 2), b"hi")),
        ("PUB1-2", e(publ(1, 2, 0), &[])),
        ("PUB2-1", e(publ(2, 1, 1), b"x")),
        ("PUB2-2", e(publ(2, 2, 0), &[])),
        ("PUBACK-1", e(P5::PubAck(ack(1)), &[])),
        ("PUBACK-2", e(P5::PubAck(ack(2)), &[])),
        ("PUBREC-1", e(P5::PubRec(ack(1)), &[])),
        ("PUBREC-2", e(P5::PubRec(ack(2)), &[])),
        ("PUBREL-1", e(P5::PubRel(ack(1)), &[])),
        ("PUBREL-2", e(P5::PubRel(ack(2)), &[])),
        ("PUBCOMP-1", e(P5::PubComp(ack(1)), &[])),
        ("PUBCOMP-2", e(P5::PubComp(ack(2)), &[])),
        ("SUBSCRIBE-1", e(P5::Subscribe(s5::Sub5 { pid: 1, filters: vec![("a/#".into(), s5::SubOpts::default())], ..Default::default() }), &[])),
        ("SUBACK-1", e(P5::SubAck(s5::SubAck5 { pid: 1, codes: vec![0], ..Default::default() }), &[])),
        ("SUBACK-3", e(P5::SubAck(s5::SubAck5 { pid: 3, codes: vec![1], ..Default::default() }), &[])),
        ("UNSUBSCRIBE-2", e(P5::Unsubscribe(s5::Unsub5 { pid: 2, filters: vec!["a/#".into()], ..Default::default() }), &[])),
        ("UNSUBACK-2", e(P5::UnsubAck(s5::SubAck5 { pid: 2, codes: if v5 { vec![0] } else { vec![] }, ..Default::default() }), &[])),
        ("UNSUBACK-4", e(P5::UnsubAck(s5::SubAck5 { pid: 4, codes: if v5 { vec![0] } else { vec![] }, ..Default::default() }), &[])),
        ("PINGREQ", e(P5::PingReq, &[])),
        ("PINGRESP", e(P5::PingResp, &[])),
        ("DISCONNECT", e(P5::Disconnect(s5::Disc5::default()), &[])),
    ];
    // a PUBLISH whose payload arrives in two pieces: head = frame minus the last 5 payload bytes
    let streamed = e(publ(1, 1, 8), b"12345678");
    t.push(("PUB1-1-head", streamed[..streamed.len() - 5].to_vec()));
    t.push(("payload-tail", b"45678".to_vec()));
    if v5 {
        t.push(("DISCONNECT-expiry", e5(&P5::Disconnect(s5::Disc5 { session_expiry: Some(5), ..Default::default() }), &[])));
        t.push(("AUTH", e5(&P5::Auth(s5::Auth5 { reason: 0x18, auth_method: Some("m".into()), ..Default::default() }), &[])));
        t.push(("PUB1-alias", e5(&P5::Publish(Box::new(s5::Publish5 { qos: 1, pid: Some(2), topic: String::new(), topic_alias: Some(3), ..Default::default() })), &[])));
        t.push(("PUBACK-1-neg", e5(&P5::PubAck(s5::Ack5 { pid: 1, reason: 0x80, reason_string: Some("no".into()), ..Default::default() }), &[])));
    }
    // (added last: the indices of the templates above are used by saved replay files)
    // a CONNECT with unusual but well-formed contents: the largest keep-alive, a session kept, user name and password
    t.push(("CONNECT-odd", e(P5::Connect(Box::new(s5::Connect5 { client_id: "y".into(), clean_start: false, keep_alive: 65_535, username: Some("u".into()), password: Some(b"p".to_vec()), ..Default::default() })), &[])));
    t
}

fn fail(c: &Case, rule: &str, detail: String) -> Failure {
    Failure::new(rule, format!("C16/{}/{rule}", c.role.name()), detail)
}

fn names(c: &Case, t: &[(&'static str, Vec<u8>)]) -> Vec<&'static str> {
    c.seq.iter().map(|i| t[usize::from(*i) % t.len()].0).collect()
}

/// which packets are unexpected in the protocol state reached so far (coarse
/// reference state model, only used for classification)
fn unexpected(c: &Case, t: &[(&'static str, Vec<u8>)]) -> bool {
    let server = c.role.is_server();
    names(c, t).iter().any(|n| {
        let n = *n;
        (n == "CONNECT" || n == "CONNECT-odd") && c.state != AppState::NoHandshake
            || n == "CONNACK" && (server || c.state != AppState::NoHandshake)
            || (server && (n.starts_with("SUBACK") || n.starts_with("UNSUBACK") || n == "PINGRESP"))
            || (!server && (n.starts_with("SUBSCRIBE") || n.starts_with("UNSUBSCRIBE") || n == "PINGREQ"))
            || n.starts_with("PUBACK") || n.starts_with("PUBREC") || n.starts_with("PUBCOMP") || n.starts_with("PUBREL")
            || n == "payload-tail"
            || n == "AUTH"
    })
}

pub async fn run_case(c: Case) -> Result<CaseInfo, Failure> {
    let mut cfg = Cfg::default();
    cfg.v3.min_chunk_size = 4;
    cfg.v5.min_chunk_size = 4;
    let t = templates(c.role.is_v5());
    if c.state == AppState::NoHandshake {
        // (a client whose CONNECT names an authentication method: whatever the server sends instead of CONNACK is still unexpected)
        cfg.v5.connect.auth_method = Some("m".into());
    }
    let eut = Eut::start(c.role, &cfg).await;
    let app = eut.app().clone();
    let mut futs: Vec<Option<BoxFut<SendRes>>> = Vec::new();
    let mut labels: Vec<&'static str> = Vec::new();

    if c.state != AppState::NoHandshake {
        eut.handshake(&cfg).await;
        if eut.done().is_some() {
            return Err(fail(&c, "harness-handshake", format!("{:?}", eut.done())));
        }
    } else {
        eut.settle().await;
    }
    match c.state {
        AppState::BusySends | AppState::BusySendsRot(_) => {
            let mut kinds = vec![SendKind::Qos1, SendKind::Qos2, SendKind::Subscribe, SendKind::Unsubscribe];
            if let AppState::BusySendsRot(k) = c.state {
                kinds.rotate_left(usize::from(k) % 4);
            }
            for kind in kinds {
                let mut fut = eut.send(SendSpec { kind, topic: "s/t".into(), payload: b"p".to_vec(), pid: None, user_prop: None });
                // polled at once: the sends register (and take their ids) in this order
                let waker = futures_noop_waker();
                let mut cx = std::task::Context::from_waker(&waker);
                if fut.as_mut().poll(&mut cx).is_pending() {
                    futs.push(Some(fut));
                }
            }
        }
        AppState::BusyNoBlock => {
            eut.noblock().reenter.set(true);
            for kind in [SendKind::NoBlock, SendKind::NoBlock, SendKind::Qos1] {
                let mut fut = eut.send(SendSpec { kind, topic: "s/t".into(), payload: b"p".to_vec(), pid: None, user_prop: None });
                let waker = futures_noop_waker();
                let mut cx = std::task::Context::from_waker(&waker);
                if fut.as_mut().poll(&mut cx).is_pending() {
                    futs.push(Some(fut));
                }
            }
        }
        AppState::GatedAll => {
            app.default_open.set(false);
        }
        AppState::BusyAbandoned => {
            for (kind, keep) in [(SendKind::Qos2, false), (SendKind::Qos1, true)] {
                let mut fut = eut.send(SendSpec { kind, topic: "s/t".into(), payload: b"p".to_vec(), pid: None, user_prop: None });
                let waker = futures_noop_waker();
                let mut cx = std::task::Context::from_waker(&waker);
                if fut.as_mut().poll(&mut cx).is_pending() && keep {
                    futs.push(Some(fut));
                }
            }
        }
        AppState::BusyReceipt => {
            futs.push(Some(eut.send(SendSpec { kind: SendKind::Qos2, topic: "s/t".into(), payload: b"p".to_vec(), pid: None, user_prop: None })));
        }
        AppState::BusyHandlers => {
            app.hold(G_PUB, 0);
            app.hold(G_PUB, 1);
            eut.peer_send(&P5::Publish(Box::new(s5::Publish5 { qos: 1, pid: Some(1), topic: "t/a".into(), ..Default::default() })), &[]);
            eut.peer_send(&P5::Publish(Box::new(s5::Publish5 { qos: 2, pid: Some(2), topic: "t/a".into(), ..Default::default() })), &[]);
        }
        _ => {}
    }
    // poll application futures once so that the packets are written
    let poll_all = |futs: &mut Vec<Option<BoxFut<SendRes>>>| {
        let mut outs = Vec::new();
        for f in futs.iter_mut() {
            if let Some(fut) = f {
                let waker = futures_noop_waker();
                let mut cx = std::task::Context::from_waker(&waker);
                if let std::task::Poll::Ready(r) = fut.as_mut().poll(&mut cx) {
                    outs.push(r);
                    *f = None;
                }
            }
        }
        outs
    };
    let _ = poll_all(&mut futs);
    eut.settle().await;
    if c.state == AppState::BusyReceipt {
        // the peer answers the QoS 2 publish with PUBREC
        let (pk, _) = eut.packets();
        if let Some(id) = pk.iter().find_map(|w| if let P5::Publish(p) = &w.pkt { p.pid } else { None }) {
            eut.peer_send(&P5::PubRec(s5::Ack5 { pid: id, ..Default::default() }), &[]);
            eut.settle().await;
            let _ = poll_all(&mut futs);
        }
    }

    // --- the sequence
    for i in &c.seq {
        let (_, bytes) = &t[usize::from(*i) % t.len()];
        if bytes.is_empty() {
            continue;
        }
        eut.peer().send(bytes);
        if !eut.settle().await {
            return Err(fail(&c, "no-quiescence", format!("endpoint keeps running without reaching a fixed point after {:?}", names(&c, &t))));
        }
        // application tasks awaiting sink futures run too (their conversions run in the application's task)
        let _ = poll_all(&mut futs);
        eut.settle().await;
    }
    // --- quiescence with all gates open
    app.open_all();
    if !eut.settle().await {
        return Err(fail(&c, "no-quiescence", format!("no fixed point after opening all gates: {:?}", names(&c, &t))));
    }
    let _ = poll_all(&mut futs);
    eut.settle().await;
    let (_, tail) = eut.packets();
    if let WireTail::Garbage { at, why } = &tail {
        return Err(fail(&c, "wire-garbage", format!("endpoint wrote bytes that do not parse at {at}: {why}")));
    }
    let stops = app.stops();
    if stops.len() > 1 {
        return Err(fail(&c, "stop-twice", format!("control service saw {} Stop notifications: {stops:?}", stops.len())));
    }
    let ended = eut.done().is_some() || !stops.is_empty() || eut.sink_open() == Some(false);
    if !ended {
        // (4) everything the peer wrote was consumed, unless a streamed payload is still owed
        let streaming = names(&c, &t).iter().any(|n| *n == "PUB1-1-head");
        if eut.peer().unread() > 0 && !streaming {
            return Err(fail(&c, "input-not-consumed", format!("{} bytes left unread on a live connection after {:?}; log {:?}", eut.peer().unread(), names(&c, &t), crate::props::c03::brief_log(&app.events()))));
        }
        if c.state == AppState::NoHandshake {
            // handshake not completed (e.g. nothing but a partial frame): fine, nothing else to probe - except that a client
            // which was sent a complete packet other than CONNACK first cannot go on waiting for a CONNACK as if nothing
            // had happened (nobody would ever answer the server)
            let first = c.seq.first().map(|i| t[usize::from(*i) % t.len()].0);
            if !c.role.is_server() && first.is_some_and(|n| n != "CONNACK" && n != "PUB1-1-head" && n != "payload-tail") && !app.events().iter().any(|e| matches!(e, Ev::Handshake)) {
                return Err(fail(&c, "connect-neither-fails-nor-completes", format!("the server answered the CONNECT with {:?}: the connect attempt has neither failed nor completed and nothing was written; log {:?}", names(&c, &t), crate::props::c03::brief_log(&app.events()))));
            }
            labels.push("handshake-incomplete");
        } else if !streaming {
            // (2) alive and responsive
            let before = eut.packets().0.len();
            if c.role.is_server() {
                eut.peer_send(&P5::PingReq, &[]);
            } else {
                eut.peer_send(&P5::Publish(Box::new(s5::Publish5 { qos: 1, pid: Some(77), topic: "probe".into(), ..Default::default() })), &[]);
            }
            eut.settle().await;
            let (pk, _) = eut.packets();
            let answered = pk[before.min(pk.len())..].iter().any(|w| matches!(&w.pkt, P5::PingResp) || matches!(&w.pkt, P5::PubAck(a) if a.pid == 77));
            let ended_now = eut.done().is_some() || !app.stops().is_empty() || eut.sink_open() == Some(false);
            if !answered && !ended_now {
                return Err(fail(
                    &c,
                    "unresponsive",
                    format!("connection neither ended nor answering a probe after {:?} in state {:?}; log {:?}", names(&c, &t), c.state, crate::props::c03::brief_log(&app.events())),
                ));
            }
            labels.push("alive-responsive");
        }
    } else {
        labels.push("ended");
    }
    // teardown: peer closes; the connection task must finish, pending sends resolve
    eut.finish().await;
    let outs = poll_all(&mut futs);
    let _ = outs;
    if eut.done().is_none() {
        return Err(fail(&c, "task-not-finished", format!("connection task still running after the peer closed; sequence {:?}; log {:?}", names(&c, &t), crate::props::c03::brief_log(&app.events()))));
    }
    if futs.iter().any(Option::is_some) {
        return Err(fail(&c, "send-never-resolves", format!("a pending send future did not resolve after the connection ended; sequence {:?}", names(&c, &t))));
    }
    let stops = app.stops();
    if stops.len() > 1 {
        return Err(fail(&c, "stop-twice", format!("{stops:?}")));
    }
    let mut info = if unexpected(&c, &t) { CaseInfo::nontrivial(&c) } else { CaseInfo::trivial() };
    info.labels = labels;
    info.labels.push(c.role.name());
    Ok(info)
}

/// a waker that does nothing: application futures are polled explicitly by the driver
pub fn futures_noop_waker() -> std::task::Waker {
    use std::task::{RawWaker, RawWakerVTable, Waker};
    fn clone(_: *const ()) -> RawWaker {
        RawWaker::new(std::ptr::null(), &VTABLE)
    }
    fn noop(_: *const ()) {}
    static VTABLE: RawWakerVTable = RawWakerVTable::new(clone, noop, noop, noop);
    unsafe { Waker::from_raw(RawWaker::new(std::ptr::null(), &VTABLE)) }
}

pub fn check_case(c: &Case) -> Result<CaseInfo, Failure> {
    run_isolated("C16", c.clone(), &run_case)
}

fn exhaustive(ctx: &Ctx) -> Stats {
    let len = ctx.tier.pick(3usize, 4);
    par_shards(WORKERS, |shard| {
        let mut st = Stats::default();
        let mut work: Vec<Case> = Vec::new();
        for role in Role::ALL {
            let a = templates(role.is_v5()).len();
            let states: Vec<AppState> = match ctx.tier {
                Tier::Quick => vec![AppState::Idle, AppState::BusySends, AppState::NoHandshake, AppState::GatedAll],
                Tier::Thorough => vec![AppState::Idle, AppState::BusySends, AppState::NoHandshake, AppState::GatedAll],
            };
            // quick: every sequence of length <= 3; thorough: length 4 over the whole alphabet as well
            for l in 1..=len {
                let total = a.pow(l as u32);
                for state in &states {
                    let mut work: Vec<Case> = Vec::new();
                    let mut idx = shard;
                    while idx < total {
                        let mut x = idx;
                        let seq: Vec<u8> = (0..l).map(|_| { let v = (x % a) as u8; x /= a; v }).collect();
                        work.push(Case { role, state: *state, seq });
                        idx += WORKERS;
                    }
                    run_list_bed("C16", work, &mut st, |c| json!({"case": c, "names": names(c, &templates(c.role.is_v5()))}), run_case);
                }
            }
            // length <= 2 (quick) / 3 (thorough) against the other busy states
            let l2 = len.min(3) - usize::from(len == 3);
            for l in 1..=l2 {
                let total = a.pow(l as u32);
                for state in [AppState::BusyReceipt, AppState::BusyHandlers, AppState::BusySendsRot(1), AppState::BusySendsRot(2), AppState::BusySendsRot(3), AppState::BusyNoBlock, AppState::BusyAbandoned] {
                    let mut idx = shard;
                    while idx < total {
                        let mut x = idx;
                        let seq: Vec<u8> = (0..l).map(|_| { let v = (x % a) as u8; x /= a; v }).collect();
                        work.push(Case { role, state, seq });
                        idx += WORKERS;
                    }
                }
            }
        }
        run_list_bed("C16", work, &mut st, |c| json!({"case": c, "names": names(c, &templates(c.role.is_v5()))}), run_case);
        st
    })
}

fn case_strategy(role: Role) -> BoxedStrategy<Case> {
    (
        prop::sample::select(vec![AppState::Idle, AppState::BusySends, AppState::BusySendsRot(1), AppState::BusySendsRot(2), AppState::BusySendsRot(3), AppState::BusyReceipt, AppState::BusyHandlers, AppState::BusyNoBlock, AppState::NoHandshake, AppState::GatedAll, AppState::BusyAbandoned]),
        prop::collection::vec(0u8..40, 4..13),
    )
        .prop_map(move |(state, seq)| Case { role, state, seq })
        .boxed()
}

pub fn run(ctx: &Ctx, started: Instant) -> i32 {
    let mut stats = exhaustive(ctx);
    let per_shard = ctx.tier.pick(4_000u32, 100_000);
    let rnd = par_shards(WORKERS, |shard| {
        let mut st = Stats::default();
        run_proptest_bed("C16", ctx.sub_seed("rand", shard), per_shard, &case_strategy(Role::ALL[shard % 4]), &mut st, |c| json!({"case": c, "names": names(c, &templates(c.role.is_v5()))}), run_case);
        st
    });
    stats.merge(rnd);
    let report = Report {
        level: "exploration",
        rule: "alphabet of 27 (v3) / 31 (v5) well-formed packet templates (every packet type either peer could emit, ids 1/2, PUBLISH QoS 0/1/2, a PUBLISH head whose payload is still owed and a payload tail, \
               acknowledgements of every type, CONNECT (plain and with the largest keep-alive, user name, password)/CONNACK, DISCONNECT with/without session expiry, AUTH, PING both directions); every sequence of length <=3 (thorough: <=4) after the handshake against an idle \
               application, against outstanding QoS1/QoS2/subscribe/unsubscribe sends, against an application whose handlers all stay suspended until the sequence is over, and replacing the handshake; length <=2 (3) against a held QoS 2 receipt, two gated inbound handlers , the outstanding sends in the three rotated orders (each kind oldest) two publishes sent through the non-blocking API whose acknowledgement callback looks at the sink, and a QoS 2 send whose future was dropped after the PUBLISH was written; random sequences of \
               4..12 packets. Oracle: no panic in any task (application futures are polled by the driver), settle reaches a fixed point, at quiescence the connection is ended (at most one Stop) or alive and \
               answering a probe, all input consumed, after the peer closes the connection task finishes and every pending send resolves. Non-trivial = the sequence contains a packet unexpected in its protocol state; \
               distinct = (role, app state, sequence)"
            .into(),
        exhaustive: true,
        assumptions: vec![
            "exhaustive over the stated template alphabet and lengths only".into(),
            "'alive' probe: PINGREQ for servers, an inbound QoS 1 PUBLISH (id 77) for clients".into(),
        ],
        extra: BTreeMap::new(),
    };
    finish(ctx, started, stats, report)
}

pub fn replay(path: &str) -> i32 {
    let case = super::load_case(path);
    let res = serde_json::from_value::<Case>(case["case"].clone()).map_err(|e| e.to_string()).map(|c| check_case(&c));
    super::report_replay("C16", path, res)
}
