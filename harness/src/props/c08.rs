//! C08 — everything written to the wire is a sequence of complete well-formed
//! packets.  Histories of sink operations (plain, failing and streamed sends)
//! interleaved with inbound traffic that makes the dispatcher write responses,
//! back-pressure stalls and close paths; the complete byte stream captured on
//! the peer side is parsed with the reference decoder and matched against what
//! the application was told.

use std::collections::BTreeMap;
use std::time::Instant;

use proptest::prelude::*;
use serde::{Deserialize, Serialize};
use serde_json::json;

use crate::bed::v5::{SendErr, SendKind, SendRes, WireTail};
use crate::bed::*;
use crate::runner::*;
use crate::sinkbed::*;
use crate::spec::v5::P5;
use crate::spec::wire::{Split, split};

#[derive(Clone, Debug, PartialEq, Eq, Hash, Serialize, Deserialize)]
pub struct Case {
    pub role: Role,
    pub limit: u16,
    pub write_hw: u16,
    pub peer_max: Option<u32>,
    pub ops: Vec<Op>,
}

fn fail(c: &Case, rule: &str, detail: String) -> Failure {
    Failure::new(rule, format!("C08/{}/{rule}", c.role.name()), detail)
}

fn tag_of(s: &str) -> Option<usize> {
    s.strip_prefix("s/").and_then(|x| x.parse().ok())
}

fn local_error(r: &Option<SendRes>) -> bool {
    matches!(r, Some(SendRes::Err(SendErr::Encode(_) | SendErr::PacketIdInUse(_))))
}

/// header of an incomplete PUBLISH frame at the end of the stream: (topic, payload bytes so far)
fn partial_publish(role: Role, tail: &[u8]) -> Option<(String, Vec<u8>)> {
    let Split::Frame { first, rl, hdr, .. } = split(tail) else { return None };
    if first >> 4 != 3 {
        return None;
    }
    let body = &tail[hdr..];
    if role.is_v5() {
        match crate::spec::v5::decode_publish_header(first, rl, body) {
            Ok(Some((p, hl, _))) => Some((p.topic, body[hl.min(body.len())..].to_vec())),
            _ => None,
        }
    } else {
        match crate::spec::v3::decode_publish_header(first, rl, body) {
            Ok(Some((p, hl, _))) => Some((p.topic, body[hl.min(body.len())..].to_vec())),
            _ => None,
        }
    }
}

fn expected_payload(i: usize) -> Vec<u8> {
    vec![i as u8; 1 + i % 3]
}

struct Facts {
    local_failure: bool,
    aborted_stream: bool,
    completed_stream: bool,
    response_during_stream: bool,
    send_during_stream: bool,
    incomplete_tail: bool,
}

fn judge(c: &Case, w: &World, ended: bool) -> Result<Facts, Failure> {
    let wire = w.eut.peer().wire.borrow().clone();
    let (pk, tail) = w.eut.packets();
    let describe = |n: usize| -> String { w.results_summary().join(" ") + &format!(" | streams (declared, accepted, live, aborted, start error) {:?} | {} packets", w.streams.iter().map(|s| (s.declared, s.accepted.len(), s.live, s.aborted, s.start_err.clone())).collect::<Vec<_>>(), n) };
    let viol = |rule: &str, detail: String| -> Failure { Failure::new(rule, format!("C08/{}/{rule}", c.role.name()), detail) };
    // payload bytes of streamed publishes in wire order
    let mut streamed_on_wire: Vec<u8> = Vec::new();
    let mut partial_stream: Option<(usize, usize)> = None;
    match &tail {
        WireTail::Clean => {}
        WireTail::Garbage { at, why } => {
            let from = at.saturating_sub(8);
            return Err(viol("stream-garbage", format!("output stops parsing at byte {at} ({why}); bytes around: {}; {}", super::c02::to_hex(&wire[from..wire.len().min(at + 24)]), describe(pk.len()))));
        }
        WireTail::Incomplete(n) => {
            let tb = &wire[wire.len() - n..];
            match partial_publish(c.role, tb) {
                Some((topic, so_far)) => match tag_of(&topic) {
                    Some(t) if t >= 1000 && t - 1000 < w.streams.len() => {
                        let st = &w.streams[t - 1000];
                        if st.handle.is_none() || st.fut_slot.is_some_and(|i| local_error(&w.slots[i].result)) {
                            return Err(viol("failed-send-left-bytes", format!("stream #{} failed to start ({:?}) but its PUBLISH header is on the wire; {}", t - 1000, st.start_err, describe(pk.len()))));
                        }
                        if so_far.len() > st.declared as usize {
                            return Err(viol("declared-size", format!("stream #{} declared {} bytes, {} follow its header", t - 1000, st.declared, so_far.len())));
                        }
                        if !ended && (!st.live || st.aborted) {
                            // the application gave the stream up: the connection must not go on with a short payload
                            return Err(viol(
                                "incomplete-frame-connection-continues",
                                format!("streamed publish #{} (declared {}, supplied {}, handle dropped: {}, aborted: {}) is incomplete on the wire ({} payload bytes) and the connection was not aborted; {}", t - 1000, st.declared, st.accepted.len(), !st.live, st.aborted, so_far.len(), describe(pk.len())),
                            ));
                        }
                        partial_stream = Some((t - 1000, so_far.len()));
                        streamed_on_wire.extend_from_slice(&so_far);
                    }
                    Some(t) if t < w.slots.len() => {
                        if !ended {
                            return Err(viol("incomplete-frame-connection-continues", format!("PUBLISH of send #{t} is incomplete on the wire ({n} bytes) and the connection is alive; {}", describe(pk.len()))));
                        }
                        if local_error(&w.slots[t].result) {
                            return Err(viol("failed-send-left-bytes", format!("send #{t} returned {:?} but part of its frame is on the wire", w.slots[t].result)));
                        }
                    }
                    _ => return Err(viol("unknown-frame", format!("incomplete PUBLISH with topic {:?} at the end of the stream", topic.chars().take(40).collect::<String>()))),
                },
                None => {
                    if !ended {
                        return Err(viol("incomplete-frame-connection-continues", format!("{n} trailing bytes {} do not form a complete packet and the connection is alive; {}", super::c02::to_hex(&tb[..tb.len().min(24)]), describe(pk.len()))));
                    }
                }
            }
        }
    }
    // every complete frame belongs to an operation that did not fail locally, once, with the right payload
    let mut seen: BTreeMap<usize, usize> = BTreeMap::new();
    let mut head: Vec<u8> = Vec::new();
    for wp in &pk {
        let (topic, is_pub) = match &wp.pkt {
            P5::Publish(p) => (p.topic.clone(), true),
            P5::Subscribe(s) => (s.filters.first().map(|f| f.0.clone()).unwrap_or_default(), false),
            P5::Unsubscribe(u) => (u.filters.first().cloned().unwrap_or_default(), false),
            _ => continue,
        };
        let Some(t) = tag_of(&topic) else {
            return Err(viol("unknown-frame", format!("request with unknown topic {:?} on the wire", topic.chars().take(40).collect::<String>())));
        };
        *seen.entry(t).or_default() += 1;
        if t >= 1000 {
            let Some(st) = w.streams.get(t - 1000) else { return Err(viol("unknown-frame", format!("tag {t}"))) };
            if !is_pub || st.handle.is_none() || st.fut_slot.is_some_and(|i| local_error(&w.slots[i].result)) {
                return Err(viol("failed-send-left-bytes", format!("stream #{} failed to start ({:?} / {:?}) but a frame for it is on the wire; {}", t - 1000, st.start_err, st.fut_slot.map(|i| w.slots[i].result.clone()), describe(pk.len()))));
            }
            if wp.payload.len() != st.declared as usize {
                return Err(viol("declared-size", format!("stream #{} declared {} bytes, frame carries {}", t - 1000, st.declared, wp.payload.len())));
            }
            head.extend_from_slice(&wp.payload);
        } else {
            let Some(sl) = w.slots.get(t) else { return Err(viol("unknown-frame", format!("tag {t}"))) };
            let kind_ok = match (&wp.pkt, sl.kind) {
                (P5::Publish(p), SendKind::Qos0) => p.qos == 0,
                (P5::Publish(p), SendKind::Qos1 | SendKind::NoBlock) => p.qos == 1,
                (P5::Publish(p), SendKind::Qos2) => p.qos == 2,
                (P5::Subscribe(_), SendKind::Subscribe) | (P5::Unsubscribe(_), SendKind::Unsubscribe) => true,
                _ => false,
            };
            if !kind_ok || sl.chunk_of.is_some() || sl.stream_of.is_some() || sl.release_of.is_some() {
                return Err(viol("unknown-frame", format!("frame {:?} does not match operation #{t} ({:?})", wp.pkt.kind(), sl.kind)));
            }
            if local_error(&sl.result) {
                return Err(viol("failed-send-left-bytes", format!("send #{t} ({:?}) returned {:?} but its frame is on the wire; {}", sl.kind, sl.result, describe(pk.len()))));
            }
            if is_pub && wp.payload != expected_payload(t) {
                return Err(viol("payload-mismatch", format!("send #{t}: payload on the wire {:?}, supplied {:?}", wp.payload, expected_payload(t))));
            }
        }
    }
    if let Some((t, n)) = seen.iter().find(|(_, n)| **n > 1) {
        return Err(viol("frame-duplicated", format!("operation with tag {t} appears {n} times on the wire; {}", describe(pk.len()))));
    }
    // the payload bytes of streamed publishes are exactly the chunks the application got accepted, in order
    head.extend_from_slice(&streamed_on_wire);
    let all = &w.accepted_all;
    let ok = if ended { all.starts_with(&head) } else { *all == head };
    if !ok {
        let rule = if head.len() > all.len() || !all.starts_with(&head) { "foreign-bytes-in-streamed-payload" } else { "accepted-chunk-not-written" };
        return Err(viol(
            rule,
            format!("payload bytes of streamed publishes on the wire: {} ; chunks the application supplied (accepted, in order): {} ; connection ended: {ended}; partial last frame: {partial_stream:?}; {}", super::c02::to_hex(&head), super::c02::to_hex(all), describe(pk.len())),
        ));
    }
    // what the application was told went out did go out
    for (i, sl) in w.slots.iter().enumerate() {
        if sl.chunk_of.is_some() || sl.release_of.is_some() {
            continue;
        }
        let tag = sl.stream_of.map_or(i, |si| 1000 + si);
        let acked = matches!(sl.result, Some(SendRes::PubAck(_) | SendRes::Receipt(..) | SendRes::SubAck(_) | SendRes::UnsubAck(_)));
        let sent_alive = matches!(sl.result, Some(SendRes::Sent)) && !ended;
        if (acked || sent_alive) && !seen.contains_key(&tag) {
            return Err(viol("successful-send-not-on-wire", format!("operation #{i} ({:?}) ended as {:?} but no complete frame for it is on the wire; {}", sl.kind, sl.result, describe(pk.len()))));
        }
    }
    let during = w.slots.iter().any(|s| matches!(&s.result, Some(SendRes::Err(SendErr::Encode(e))) if e.contains("ExpectPayload")));
    Ok(Facts {
        local_failure: w.slots.iter().any(|s| local_error(&s.result)) || w.streams.iter().any(|s| s.start_err.as_ref().is_some_and(|e| !matches!(e, SendErr::Disconnected))),
        aborted_stream: w.streams.iter().any(|s| s.aborted),
        completed_stream: w.streams.iter().enumerate().any(|(si, s)| s.declared > 0 && seen.contains_key(&(1000 + si))),
        response_during_stream: w.response_during_stream,
        send_during_stream: during,
        incomplete_tail: !matches!(tail, WireTail::Clean),
    })
}

pub async fn run_case(c: Case) -> Result<CaseInfo, Failure> {
    let mut w = World::start_with(c.role, c.limit, LimitHow::Config, usize::from(c.write_hw), c.peer_max).await.map_err(|f| fail(&c, "harness-handshake", f.detail))?;
    let mut trace: Vec<u8> = Vec::new();
    for op in &c.ops {
        if w.eut.done().is_some() {
            break;
        }
        if c.role.is_server() && matches!(op, Op::Send { kind: SendKind::Subscribe | SendKind::Unsubscribe, .. } | Op::SendBad { kind: SendKind::Subscribe | SendKind::Unsubscribe, .. }) {
            continue;
        }
        trace.push(match op {
            Op::Send { kind, own_id, .. } => 10 + *kind as u8 + if *own_id != 0 { 50 } else { 0 },
            Op::SendBad { how, .. } => 2 + 70 * (how % 3),
            Op::Poll(_) => 3,
            Op::Ack { .. } => 5,
            Op::StreamStart { qos, bad, declared } => 20 + qos % 2 + 2 * bad + if *declared == 0 { 10 } else { 0 },
            Op::Chunk { len, .. } => 30 + len % 6,
            Op::StreamDrop(_) => 37,
            Op::Inbound(k) => 40 + k % 4,
            Op::Hold(h) => 45 + u8::from(*h),
            Op::Window(o) => 47 + u8::from(*o),
            Op::Close(k) => 50 + k % 2,
            Op::PeerFault(k) => 53 + k % 3,
            Op::Release(_) => 6,
            _ => 0,
        });
        w.apply(*op).await.map_err(|f| fail(&c, &f.rule, f.detail))?;
    }
    // lift stalls, let every handler finish, flush
    w.eut.peer().window(1 << 30);
    w.stalled = false;
    w.eut.app().open_all();
    w.eut.settle().await;
    w.poll_all();
    w.eut.settle().await;
    w.eut.peer().pump();
    let ended = w.ended() || w.eut.peer().is_closed_by_us();
    let facts = judge(&c, &w, ended)?;
    w.eut.finish().await;
    let nt = facts.local_failure || facts.aborted_stream || facts.response_during_stream || facts.send_during_stream;
    let mut info = if nt { CaseInfo::nontrivial(&(c.role, &trace)) } else { CaseInfo::trivial() };
    for (on, l) in [
        (facts.local_failure, "failing-send"),
        (facts.aborted_stream, "aborted-stream"),
        (facts.completed_stream, "completed-stream"),
        (facts.response_during_stream, "response-due-during-stream"),
        (facts.send_during_stream, "send-during-stream"),
        (facts.incomplete_tail, "incomplete-tail"),
        (ended, "connection-ended"),
    ] {
        if on {
            info.labels.push(l);
        }
    }
    info.labels.push(c.role.name());
    Ok(info)
}

pub fn op_strategy() -> BoxedStrategy<Op> {
    let kind = prop_oneof![3 => Just(SendKind::Qos0), 3 => Just(SendKind::Qos1), 2 => Just(SendKind::Qos2), 1 => Just(SendKind::Subscribe), 1 => Just(SendKind::Unsubscribe), 2 => Just(SendKind::NoBlock)];
    let kind2 = prop_oneof![2 => Just(SendKind::Qos0), 2 => Just(SendKind::Qos1), 1 => Just(SendKind::Qos2), 1 => Just(SendKind::Subscribe), 1 => Just(SendKind::Unsubscribe), 1 => Just(SendKind::NoBlock)];
    prop_oneof![
        6 => (kind, prop_oneof![6 => Just(0u8), 1 => 1u8..3]).prop_map(|(kind, own_id)| Op::Send { kind, again: false, own_id }),
        2 => (kind2, 0u8..3, prop_oneof![3 => Just(0u8), 1 => 1u8..3]).prop_map(|(kind, how, own)| Op::SendBad { kind, how: how | own << 2 }),
        4 => (0u8..2, prop_oneof![1 => Just(0u8), 6 => 1u8..12, 1 => Just(200u8)], prop_oneof![6 => Just(0u8), 1 => Just(1u8), 1 => Just(2u8), 2 => Just(3u8)]).prop_map(|(qos, declared, bad)| Op::StreamStart { qos, declared, bad }),
        8 => (0u8..2, prop_oneof![1 => Just(0u8), 2 => Just(1u8), 2 => Just(2u8), 4 => Just(3u8), 1 => Just(4u8), 2 => Just(5u8)]).prop_map(|(stream, len)| Op::Chunk { stream, len }),
        1 => (0u8..2).prop_map(Op::StreamDrop),
        3 => (0u8..4).prop_map(Op::Inbound),
        1 => any::<bool>().prop_map(Op::Hold),
        3 => (1u8..4, any::<bool>()).prop_map(|(n, batch)| Op::Ack { n, batch }),
        1 => any::<bool>().prop_map(Op::Window),
        1 => any::<u8>().prop_map(Op::Poll),
        1 => Just(Op::Settle),
        1 => any::<u8>().prop_map(Op::Release),
        1 => (0u8..3).prop_map(Op::Close),
        1 => (0u8..3).prop_map(Op::PeerFault),
    ]
    .boxed()
}

fn case_strategy(role: Role) -> BoxedStrategy<Case> {
    (1u16..5, prop_oneof![3 => Just(0u16), 1 => Just(48u16)], prop_oneof![2 => Just(None), 1 => Just(Some(64u32))], prop::collection::vec(op_strategy(), 2..25), any::<bool>())
        .prop_map(move |(limit, write_hw, peer_max, mut ops, calm)| {
            if calm {
                // no close / fault: the connection must survive and every frame must be complete
                ops.retain(|o| !matches!(o, Op::Close(_) | Op::PeerFault(_)));
            }
            Case { role, limit, write_hw, peer_max, ops }
        })
        .boxed()
}

/// deterministic scenarios around each listed failure
fn fixed_cases() -> Vec<Case> {
    let mut out = Vec::new();
    let q1 = Op::Send { kind: SendKind::Qos1, again: false, own_id: 0 };
    let q0 = Op::Send { kind: SendKind::Qos0, again: false, own_id: 0 };
    for role in Role::ALL {
        for qos in 0..2u8 {
            for how in 0..3u8 {
                for kind in [SendKind::Qos0, SendKind::Qos1, SendKind::Qos2, SendKind::Subscribe, SendKind::Unsubscribe] {
                    // a failing send between two good ones
                    out.push(Case { role, limit: 4, write_hw: 0, peer_max: Some(64), ops: vec![q1, Op::SendBad { kind, how }, q0, Op::Ack { n: 3, batch: false }, q1, Op::Ack { n: 1, batch: false }] });
                }
            }
            for bad in 1..3u8 {
                // a failing stream start, then the handle is used and dropped, then traffic
                out.push(Case { role, limit: 4, write_hw: 0, peer_max: None, ops: vec![q1, Op::StreamStart { qos, declared: 5, bad }, Op::Chunk { stream: 0, len: 3 }, Op::StreamDrop(0), q0, q1, Op::Ack { n: 3, batch: true }] });
            }
            for split in [vec![3u8], vec![1, 3], vec![0, 2, 3], vec![1, 1, 3], vec![5, 3]] {
                for mid in [None, Some(Op::Inbound(0)), Some(Op::Inbound(1)), Some(Op::Inbound(2)), Some(q0), Some(q1), Some(Op::Send { kind: SendKind::Subscribe, again: false, own_id: 0 })] {
                    let mut ops = vec![Op::StreamStart { qos, declared: 9, bad: 0 }];
                    for (k, l) in split.iter().enumerate() {
                        if k == split.len() - 1 {
                            if let Some(m) = mid {
                                ops.push(m);
                            }
                        }
                        ops.push(Op::Chunk { stream: 0, len: *l });
                    }
                    ops.push(q1);
                    ops.push(Op::Ack { n: 3, batch: false });
                    out.push(Case { role, limit: 4, write_hw: 0, peer_max: None, ops });
                }
            }
            // the stream is created while a slot is free, parks behind another send, and is given up before it starts
            if qos == 1 {
                out.push(Case { role, limit: 1, write_hw: 0, peer_max: None, ops: vec![Op::StreamStart { qos, declared: 9, bad: 3 }, q1, Op::Poll(0), Op::Poll(1), Op::StreamDrop(0), Op::Ack { n: 1, batch: false }, Op::Poll(0), Op::Settle, q0, Op::Settle] });
                out.push(Case { role, limit: 1, write_hw: 0, peer_max: None, ops: vec![Op::StreamStart { qos, declared: 9, bad: 3 }, q1, Op::Poll(0), Op::Poll(1), Op::Chunk { stream: 0, len: 5 }, Op::Ack { n: 1, batch: false }, Op::Poll(0), Op::Poll(1), Op::Chunk { stream: 0, len: 3 }, Op::Chunk { stream: 0, len: 3 }, Op::Settle] });
            }
            // under-delivery then drop; over-delivery; drop before the first chunk; zero-length stream
            out.push(Case { role, limit: 4, write_hw: 0, peer_max: None, ops: vec![Op::StreamStart { qos, declared: 9, bad: 0 }, Op::Chunk { stream: 0, len: 5 }, Op::StreamDrop(0), q0, Op::Settle] });
            out.push(Case { role, limit: 4, write_hw: 0, peer_max: None, ops: vec![Op::StreamStart { qos, declared: 9, bad: 0 }, Op::Chunk { stream: 0, len: 5 }, Op::Chunk { stream: 0, len: 4 }, q0, Op::Settle] });
            out.push(Case { role, limit: 4, write_hw: 0, peer_max: None, ops: vec![Op::StreamStart { qos, declared: 9, bad: 0 }, Op::StreamDrop(0), q0, Op::Settle] });
            out.push(Case { role, limit: 4, write_hw: 0, peer_max: None, ops: vec![Op::StreamStart { qos, declared: 0, bad: 0 }, Op::Chunk { stream: 0, len: 0 }, Op::Chunk { stream: 0, len: 1 }, Op::StreamDrop(0), q0, q1, Op::Ack { n: 2, batch: false }] });
            // held handler released during the stream
            out.push(Case { role, limit: 4, write_hw: 0, peer_max: None, ops: vec![Op::Hold(true), Op::Inbound(0), Op::StreamStart { qos, declared: 9, bad: 0 }, Op::Chunk { stream: 0, len: 5 }, Op::Hold(false), Op::Chunk { stream: 0, len: 3 }, q1, Op::Ack { n: 2, batch: false }] });
            // close paths during a stream
            for k in 0..3u8 {
                out.push(Case { role, limit: 4, write_hw: 0, peer_max: None, ops: vec![Op::StreamStart { qos, declared: 9, bad: 0 }, Op::Chunk { stream: 0, len: 5 }, Op::Close(k), Op::Chunk { stream: 0, len: 3 }, q0] });
                out.push(Case { role, limit: 4, write_hw: 0, peer_max: None, ops: vec![Op::StreamStart { qos, declared: 9, bad: 0 }, Op::Chunk { stream: 0, len: 5 }, Op::PeerFault(k), Op::Chunk { stream: 0, len: 3 }, q0] });
            }
            // stalled peer: chunks wait for the write buffer
            out.push(Case { role, limit: 4, write_hw: 48, peer_max: None, ops: vec![Op::Window(false), Op::StreamStart { qos, declared: 200, bad: 0 }, Op::Chunk { stream: 0, len: 2 }, Op::Chunk { stream: 0, len: 2 }, Op::Inbound(1), Op::Window(true), Op::Chunk { stream: 0, len: 3 }, Op::Chunk { stream: 0, len: 3 }, q1, Op::Ack { n: 2, batch: false }] });
        }
    }
    out
}

pub fn check_case(c: &Case) -> Result<CaseInfo, Failure> {
    run_isolated("C08", c.clone(), &run_case)
}

pub fn run(ctx: &Ctx, started: Instant) -> i32 {
    let fixed = fixed_cases();
    let per_shard = ctx.tier.pick(8_000u32, 100_000);
    let stats = par_shards(WORKERS, |shard| {
        let mut st = Stats::default();
        let mine: Vec<Case> = fixed.iter().enumerate().filter(|(i, _)| i % WORKERS == shard).map(|(_, c)| c.clone()).collect();
        run_list_bed("C08", mine, &mut st, |c| json!({"case": c}), run_case);
        run_proptest_bed("C08", ctx.sub_seed("rand", shard), per_shard, &case_strategy(Role::ALL[shard % 4]), &mut st, |c| json!({"case": c}), run_case);
        st
    });
    let report = Report {
        level: "exploration",
        rule: format!(
            "{} deterministic scenarios (failing send of every kind and cause between good sends; failing stream start then use/drop of the handle; streams of 9 bytes in 5 chunkings with a response, a send or nothing due before the last chunk; under-delivery then drop, \
             over-delivery, drop before the first chunk, zero-length stream; held handler released mid-stream; every close / fault path mid-stream; stalled peer), and proptest histories of 2..24 ops over plain sends (QoS 0/1/2, subscribe, unsubscribe, automatic and \
             caller-chosen ids), failing sends (over-long topic, over-long user property, over the peer's Maximum Packet Size 64, id in use, send while a payload is owed), streamed sends (QoS 0/1, declared 0..11 and 200 bytes, chunk classes empty/1/half/rest/one too many/3, \
             drops), inbound PUBLISH QoS 0/1, PINGREQ and SUBSCRIBE with handlers optionally held and released later, acknowledgements, back-pressure stalls with a 48-byte write buffer, application close / force close and peer close / read / write faults; four roles. \
             Oracle: the complete output parses with the reference decoder as whole packets (an incomplete last frame only for a live stream in progress with every accepted byte written, or after the connection was aborted); every request frame belongs to exactly \
             one operation that did not fail locally and carries the payload the application supplied (streams: exactly the accepted chunks, declared size); acknowledged sends and, on a live connection, QoS 0 sends and fully supplied streams are on the wire. \
             Non-trivial = a locally failing send, an aborted stream, a response or send due while a payload was owed; distinct = (role, op trace)",
            fixed.len()
        ),
        exhaustive: false,
        assumptions: vec![
            "whether the connection survives a response that falls due inside a streamed payload is not judged (the statement allows aborting)".into(),
            "a StreamingPayload is dropped only after its pending chunk future (the application cannot do otherwise: the future borrows it)".into(),
        ],
        extra: BTreeMap::new(),
    };
    finish(ctx, started, stats, report)
}

pub fn replay(path: &str) -> i32 {
    let case = super::load_case(path);
    let res = serde_json::from_value::<Case>(case["case"].clone()).map_err(|e| e.to_string()).map(|c| check_case(&c));
    super::report_replay("C08", path, res)
}
