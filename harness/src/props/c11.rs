//! C11 — inbound packet identifiers stay reserved until their exchange is
//! acknowledged.  Model: set of reserved ids with the release point of each
//! exchange; histories over the id alphabet {1,2,3}.

use std::collections::BTreeMap;
use std::rc::Rc;
use std::time::Instant;

use proptest::prelude::*;
use serde::{Deserialize, Serialize};
use serde_json::json;

use crate::bed::any::{Cfg, Eut};
use crate::bed::v5::WireTail;
use crate::bed::*;
use crate::runner::*;
use crate::spec::v5::{self as s5, P5};

#[derive(Clone, Copy, Debug, PartialEq, Eq, Hash, Serialize, Deserialize)]
pub enum Op {
    /// PUBLISH with this QoS (1|2) and id; `deferred` handler; v5 negative ack code (0 = success)
    Pub { qos: u8, id: u16, deferred: bool, neg: u8 },
    Sub { id: u16, deferred: bool },
    Unsub { id: u16, deferred: bool },
    Rel { id: u16 },
    /// open the k-th oldest still gated handler
    Open(u8),
}

#[derive(Clone, Debug, PartialEq, Eq, Hash, Serialize, Deserialize)]
pub struct Case {
    pub role: Role,
    pub ops: Vec<Op>,
}

#[derive(Clone, Copy, Debug, PartialEq, Eq, Hash)]
enum KindM {
    Pub1,
    Pub2,
    Sub,
    Unsub,
}

#[derive(Clone, Copy, Debug, PartialEq, Eq)]
enum St {
    /// handler entered, not finished (gate closed)
    InHandler { kind: KindM, gate: (u8, u32), neg: u8 },
    /// handler finished, acknowledgement not yet seen on the wire (held back by response ordering)
    Limbo { kind: KindM, neg: u8 },
    /// QoS 2: PUBREC on the wire, waiting for PUBREL
    AwaitRel,
    /// QoS 2: PUBREL delivered, PUBCOMP not yet seen on the wire (ambiguous for the peer)
    RelSent,
}

fn fail(c: &Case, rule: &str, detail: String) -> Failure {
    Failure::new(rule, format!("C11/{}/{rule}", c.role.name()), detail)
}

pub async fn run_case(c: Case) -> Result<CaseInfo, Failure> {
    let cfg = Cfg::default();
    let eut = Eut::start(c.role, &cfg).await;
    eut.handshake(&cfg).await;
    let app = eut.app().clone();
    let v5 = c.role.is_v5();
    let mut reserved: BTreeMap<u16, St> = BTreeMap::new();
    let mut seen_wire = eut.packets().0.len();
    let (mut npub, mut nctl) = (0u32, 0u32);
    let mut labels: Vec<&'static str> = Vec::new();
    let mut sig: Vec<(u8, u8, bool)> = Vec::new(); // (kind of reuse, kind of first use, released?)
    let mut used_before: BTreeMap<u16, KindM> = BTreeMap::new();
    let mut known: Vec<String> = Vec::new();
    let mut skipped = 0u32;
    let mut blocked = false;
    let mut expect_0x92: Vec<u16> = Vec::new();
    let mut v3_end: Option<(usize, String, bool)> = None;

    // absorb new wire packets into the model; returns the new packets
    macro_rules! absorb {
        () => {{
            let (pk, tail) = eut.packets();
            if !matches!(tail, WireTail::Clean) {
                return Err(fail(&c, "wire-garbage", format!("{tail:?}")));
            }
            let newp: Vec<P5> = pk[seen_wire..].iter().map(|w| w.pkt.clone()).collect();
            seen_wire = pk.len();
            for p in &newp {
                match p {
                    P5::PubAck(a) => {
                        if matches!(reserved.get(&a.pid), Some(St::InHandler { kind: KindM::Pub1, .. } | St::Limbo { kind: KindM::Pub1, .. })) && a.reason != 0x91 {
                            reserved.remove(&a.pid);
                        }
                    }
                    P5::PubRec(a) => {
                        if let Some(St::InHandler { kind: KindM::Pub2, neg, .. } | St::Limbo { kind: KindM::Pub2, neg }) = reserved.get(&a.pid).copied() {
                            if a.reason != 0x91 {
                                if neg >= 0x80 {
                                    // a negative PUBREC ends the exchange (MQTT 5 4.3.3)
                                    reserved.remove(&a.pid);
                                } else {
                                    reserved.insert(a.pid, St::AwaitRel);
                                }
                            }
                        }
                    }
                    P5::PubComp(a) => {
                        if matches!(reserved.get(&a.pid), Some(St::AwaitRel | St::RelSent)) && a.reason == 0 {
                            reserved.remove(&a.pid);
                        }
                    }
                    P5::SubAck(a) => {
                        if matches!(reserved.get(&a.pid), Some(St::InHandler { kind: KindM::Sub, .. } | St::Limbo { kind: KindM::Sub, .. })) && !a.codes.contains(&0x91) {
                            reserved.remove(&a.pid);
                        }
                    }
                    P5::UnsubAck(a) => {
                        if matches!(reserved.get(&a.pid), Some(St::InHandler { kind: KindM::Unsub, .. } | St::Limbo { kind: KindM::Unsub, .. })) && !a.codes.contains(&0x91) {
                            reserved.remove(&a.pid);
                        }
                    }
                    _ => {}
                }
            }
            newp
        }};
    }

    let ended = |eut: &Eut| eut.done().is_some() || !eut.app().stops().is_empty() || eut.sink_open() == Some(false);

    for (step, op) in c.ops.iter().enumerate() {
        if ended(&eut) {
            break;
        }
        match *op {
            Op::Pub { .. } | Op::Sub { .. } | Op::Unsub { .. } => {
                let (kind, id, deferred, neg) = match *op {
                    Op::Pub { qos, id, deferred, neg } => (if qos == 2 { KindM::Pub2 } else { KindM::Pub1 }, id, deferred, if v5 { neg } else { 0 }),
                    Op::Sub { id, deferred } => (KindM::Sub, id, deferred, 0),
                    Op::Unsub { id, deferred } => (KindM::Unsub, id, deferred, 0),
                    _ => unreachable!(),
                };
                if !c.role.is_server() && matches!(kind, KindM::Sub | KindM::Unsub | KindM::Pub2) {
                    skipped += 1;
                    continue; // clients: no SUBSCRIBE from a server; QoS 2 reception is a known finding of C03
                }
                let state = reserved.get(&id).copied();
                // protocol handlers are serialised by the library: keep at most one control packet in
                // progress so that queueing of control packets (C04's subject) does not blur the model
                let ctl_in_progress = reserved.values().any(|s| matches!(s, St::InHandler { gate, .. } if gate.0 == G_CTL) || matches!(s, St::Limbo { kind: KindM::Sub | KindM::Unsub, .. } | St::RelSent));
                if matches!(kind, KindM::Sub | KindM::Unsub) && ctl_in_progress {
                    skipped += 1;
                    continue;
                }
                if matches!(state, Some(St::Limbo { .. } | St::RelSent)) {
                    skipped += 1;
                    continue; // neither clearly in use nor clearly released for the peer
                }
                let enters_before = app.log.borrow().iter().filter(|e| matches!(e, Ev::PubEnter { .. } | Ev::CtlEnter { .. })).count();
                let is_pub = matches!(kind, KindM::Pub1 | KindM::Pub2);
                let gate = if is_pub { (G_PUB, npub) } else { (G_CTL, nctl) };
                let in_use = state.is_some();
                if !in_use {
                    if deferred {
                        app.hold(gate.0, gate.1);
                    }
                    if is_pub && neg != 0 {
                        app.pub_plans.borrow_mut().insert(gate.1, PubPlan { outcome: Outcome::NegAck(neg), read: ReadPlan::Eager });
                    }
                }
                let pkt = match kind {
                    // a reuse attempt at an even step carries the DUP flag, as a retransmission would
                    KindM::Pub1 => P5::Publish(Box::new(s5::Publish5 { qos: 1, dup: in_use && step % 2 == 0, pid: Some(id), topic: "t/a".into(), ..Default::default() })),
                    KindM::Pub2 => P5::Publish(Box::new(s5::Publish5 { qos: 2, dup: in_use && step % 2 == 0, pid: Some(id), topic: "t/a".into(), ..Default::default() })),
                    KindM::Sub => P5::Subscribe(s5::Sub5 { pid: id, filters: vec![("a/b".into(), s5::SubOpts::default()), ("c".into(), s5::SubOpts::default())], ..Default::default() }),
                    KindM::Unsub => P5::Unsubscribe(s5::Unsub5 { pid: id, filters: vec!["a/b".into()], ..Default::default() }),
                };
                if let Some(first) = used_before.get(&id) {
                    sig.push((kind as u8, *first as u8, !in_use));
                    labels.push(if in_use { "reuse-while-in-use" } else { "reuse-after-release" });
                }
                used_before.insert(id, kind);
                eut.peer_send(&pkt, &[]);
                eut.settle().await;
                if eut.peer().unread() > 0 {
                    // the endpoint paused reading (a released control request is still running):
                    // the packet has not been looked at yet, nothing to judge
                    labels.push("reader-paused");
                    blocked = true;
                    break;
                }
                let newp = absorb!();
                let enters_after = app.log.borrow().iter().filter(|e| matches!(e, Ev::PubEnter { .. } | Ev::CtlEnter { .. })).count();
                if in_use {
                    // A1: never delivered to a handler
                    if enters_after != enters_before {
                        return Err(fail(&c, "in-use-id-delivered", format!("step {step}: {kind:?} with in-use id {id} ({state:?}) reached a handler")));
                    }
                    if v5 {
                        let ok = newp.iter().any(|p| match (kind, p) {
                            (KindM::Pub1 | KindM::Pub2, P5::PubAck(a) | P5::PubRec(a)) => a.pid == id && a.reason == 0x91,
                            (KindM::Sub, P5::SubAck(a)) | (KindM::Unsub, P5::UnsubAck(a)) => a.pid == id && !a.codes.is_empty() && a.codes.iter().all(|c| *c == 0x91),
                            _ => false,
                        });
                        if !ok {
                            return Err(fail(&c, "in-use-not-answered-0x91", format!("step {step}: {kind:?} with in-use id {id}: answered {:?}", newp.iter().map(P5::kind).collect::<Vec<_>>())));
                        }
                        if ended(&eut) {
                            return Err(fail(&c, "in-use-ended-connection", format!("step {step}: MQTT 5 connection ended on an in-use identifier: {:?}", app.stops())));
                        }
                    } else {
                        // the violation is reported once earlier responses have drained: judged at the end
                        v3_end = Some((step, format!("{kind:?} with in-use id {id}"), true));
                        break;
                    }
                } else {
                    // A3: accepted.  Protocol (control) handlers run one at a time: while an earlier one
                    // is gated the new one is queued and enters later (counted at the end)
                    let ctl_busy = reserved.values().any(|s| matches!(s, St::InHandler { gate, .. } if gate.0 == G_CTL));
                    let queued = !is_pub && ctl_busy && enters_after == enters_before;
                    if enters_after != enters_before + 1 && !queued {
                        // v5 server: the id of a completed QoS 2 exchange is never released
                        let first_was_q2 = sig.last().is_some_and(|s| s.1 == KindM::Pub2 as u8 && s.2);
                        if v5 && c.role.is_server() && first_was_q2 && newp.iter().any(|p| matches!(p, P5::PubAck(a) | P5::PubRec(a) | P5::PubComp(a) if a.pid == id && a.reason == 0x91) || matches!(p, P5::SubAck(a) | P5::UnsubAck(a) if a.pid == id && a.codes.contains(&0x91))) {
                            return Err(Failure::new(
                                "released-id-refused",
                                format!("C11/{}/released-id-refused/after-qos2-exchange", c.role.name()),
                                format!("step {step}: id {id} refused with 0x91 although its QoS 2 exchange had completed (PUBCOMP written)"),
                            ));
                        }
                        return Err(fail(&c, "released-id-refused", format!("step {step}: {kind:?} with free id {id} did not reach a handler; answered {:?}, stops {:?}", newp, app.stops())));
                    }
                    if is_pub {
                        npub += 1;
                    } else {
                        nctl += 1;
                    }
                    if deferred {
                        reserved.insert(id, St::InHandler { kind, gate, neg });
                    } else if !matches!(reserved.get(&id), Some(St::AwaitRel)) {
                        // finished immediately; if its acknowledgement is not on the wire yet it is in limbo
                        let acked = newp.iter().any(|p| match (kind, p) {
                            (KindM::Pub1, P5::PubAck(a)) | (KindM::Pub2, P5::PubRec(a)) => a.pid == id,
                            (KindM::Sub, P5::SubAck(a)) | (KindM::Unsub, P5::UnsubAck(a)) => a.pid == id,
                            _ => false,
                        });
                        if !acked {
                            reserved.insert(id, St::Limbo { kind, neg });
                        } else if kind == KindM::Pub2 && neg < 0x80 {
                            reserved.insert(id, St::AwaitRel);
                        }
                    }
                }
            }
            Op::Rel { id } => {
                let ctl_in_progress = reserved.values().any(|s| matches!(s, St::InHandler { gate, .. } if gate.0 == G_CTL) || matches!(s, St::Limbo { kind: KindM::Sub | KindM::Unsub, .. } | St::RelSent));
                if ctl_in_progress {
                    skipped += 1;
                    continue;
                }
                match reserved.get(&id).copied() {
                    Some(St::AwaitRel) => {
                        reserved.insert(id, St::RelSent);
                        eut.peer_send(&P5::PubRel(s5::Ack5 { pid: id, ..Default::default() }), &[]);
                        eut.settle().await;
                        if eut.peer().unread() > 0 {
                            labels.push("reader-paused");
                            blocked = true;
                            break;
                        }
                        nctl += 1;
                        let newp = absorb!();
                        let comp = newp.iter().any(|p| matches!(p, P5::PubComp(a) if a.pid == id && a.reason == 0));
                        // the PUBCOMP may be held back by response ordering: then the id stays AwaitRel in the model
                        if !comp && reserved.get(&id).is_none() {
                            return Err(fail(&c, "harness-model", "PUBCOMP accounting".into()));
                        }
                        labels.push("qos2-released");
                    }
                    None => {
                        let ctl_before = app.log.borrow().iter().filter(|e| matches!(e, Ev::CtlEnter { kind: CtlKind::PubRel, .. })).count();
                        eut.peer_send(&P5::PubRel(s5::Ack5 { pid: id, ..Default::default() }), &[]);
                        eut.settle().await;
                        if eut.peer().unread() > 0 {
                            labels.push("reader-paused");
                            blocked = true;
                            break;
                        }
                        let newp = absorb!();
                        let ctl_after = app.log.borrow().iter().filter(|e| matches!(e, Ev::CtlEnter { kind: CtlKind::PubRel, .. })).count();
                        labels.push("pubrel-unknown-id");
                        if ctl_after != ctl_before {
                            return Err(fail(&c, "unknown-pubrel-delivered", format!("step {step}: PUBREL for unused id {id} reached the protocol handler")));
                        }
                        if v5 {
                            // the answer may be held back by response ordering: counted at the end
                            let _ = &newp;
                            expect_0x92.push(id);
                        } else {
                            v3_end = Some((step, format!("PUBREL for unused id {id}"), false));
                            break;
                        }
                    }
                    Some(_) => {
                        skipped += 1; // PUBREL for an id in another state: misbehaving peer, not judged
                    }
                }
            }
            Op::Open(k) => {
                let gated: Vec<(u16, (u8, u32))> = reserved.iter().filter_map(|(id, s)| if let St::InHandler { gate, .. } = s { Some((*id, *gate)) } else { None }).collect();
                if gated.is_empty() {
                    continue;
                }
                let mut ordered = gated.clone();
                ordered.sort_by_key(|(_, g)| (g.0, g.1));
                let (id, gate) = ordered[usize::from(k) % ordered.len()];
                if let Some(St::InHandler { kind, neg, .. }) = reserved.get(&id).copied() {
                    reserved.insert(id, St::Limbo { kind, neg });
                }
                app.open(gate.0, gate.1);
                eut.settle().await;
                let _ = absorb!();
            }
        }
    }
    // tail: open everything, the connection must be healthy unless a v3 violation ended it
    app.open_all();
    eut.settle().await;
    let _ = absorb!();
    {
        let log = app.log.borrow();
        let pe = log.iter().filter(|e| matches!(e, Ev::PubEnter { .. })).count() as u32;
        let ce = log.iter().filter(|e| matches!(e, Ev::CtlEnter { .. })).count() as u32;
        if v3_end.is_none() && !blocked && (pe != npub || ce != nctl) {
            return Err(fail(&c, "accepted-not-delivered", format!("{npub} publishes / {nctl} control packets were accepted by the model, handlers entered {pe} / {ce} times")));
        }
    }
    if !expect_0x92.is_empty() {
        let (pk, _) = eut.packets();
        for id in [1u16, 2, 3] {
            let want = expect_0x92.iter().filter(|x| **x == id).count();
            let got = pk.iter().filter(|w| matches!(&w.pkt, P5::PubComp(a) if a.pid == id && a.reason == 0x92)).count();
            if got != want {
                return Err(fail(&c, "unknown-pubrel-not-0x92", format!("{want} PUBREL for unused id {id} were sent, {got} PUBCOMP with reason 0x92 written")));
            }
        }
    }
    if let Some((step, what, dup)) = &v3_end {
        let stops = app.stops();
        let violation = stops.iter().any(|s| matches!(s, StopKind::Protocol(d) if d.contains("2_2_1_3")));
        if *dup && !violation && c.role.is_server() {
            return Err(fail(&c, "in-use-not-violation", format!("step {step}: MQTT 3.1.1 {what}: connection not ended with protocol violation 2.2.1-3: stops {stops:?}")));
        }
        if !(eut.done().is_some() || !stops.is_empty() || eut.sink_open() == Some(false)) {
            return Err(fail(&c, "v3-not-ended", format!("step {step}: MQTT 3.1.1 {what} did not end the connection")));
        }
    }
    eut.finish().await;
    known.sort();
    known.dedup();
    let mut info = if sig.is_empty() { CaseInfo::trivial() } else { CaseInfo::nontrivial(&(c.role, &sig)) };
    labels.sort_unstable();
    labels.dedup();
    info.labels = labels;
    info.labels.push(c.role.name());
    if skipped > 0 {
        info.labels.push("ops-skipped-ambiguous");
    }
    info.known = known;
    Ok(info)
}

/// Deterministic scenarios: reuse of a QoS 2 id while the PUBREL is being handled (PUBCOMP not produced yet).
#[derive(Clone, Copy, Debug, PartialEq, Eq, Hash, Serialize, Deserialize)]
pub struct RelWindow {
    pub role: Role,
    /// what re-uses the id: 1 PUBLISH QoS 1, 2 PUBLISH QoS 2, 3 SUBSCRIBE
    pub reuse: u8,
    /// v5: reason code of the PUBREC (0 or the non-error 0x10)
    pub rec_reason: u8,
    /// the reuse attempt comes while the PUBREL handler runs (true) or before the PUBREL (false)
    pub during_rel: bool,
    /// a re-using PUBLISH carries the DUP flag (as a retransmission would)
    #[serde(default)]
    pub dup: bool,
}

pub async fn run_rel_window(x: RelWindow) -> Result<CaseInfo, Failure> {
    let role = x.role;
    let ff = |rule: &str, detail: String| Failure::new(rule, format!("C11/{}/{rule}", role.name()), detail);
    let cfg = Cfg::default();
    let eut = Eut::start(role, &cfg).await;
    eut.handshake(&cfg).await;
    let app = eut.app().clone();
    let v5 = role.is_v5();
    if v5 && x.rec_reason != 0 {
        app.pub_plans.borrow_mut().insert(0, PubPlan { outcome: Outcome::NegAck(x.rec_reason), read: ReadPlan::Eager });
    }
    let q2 = P5::Publish(Box::new(s5::Publish5 { qos: 2, pid: Some(1), topic: "t/a".into(), ..Default::default() }));
    eut.peer_send(&q2, &[]);
    eut.settle().await;
    let (pk, _) = eut.packets();
    if !pk.iter().any(|w| matches!(&w.pkt, P5::PubRec(a) if a.pid == 1 && a.reason < 0x80)) {
        return Err(ff("harness-scenario", format!("no PUBREC for the first publish: {:?}", pk.iter().map(|w| w.pkt.kind()).collect::<Vec<_>>())));
    }
    if x.during_rel {
        // the protocol handler of the PUBREL is held: PUBCOMP cannot have been produced
        app.hold(G_CTL, 0);
        eut.peer_send(&P5::PubRel(s5::Ack5 { pid: 1, ..Default::default() }), &[]);
        eut.settle().await;
        if !app.events().iter().any(|e| matches!(e, Ev::CtlEnter { kind: CtlKind::PubRel, .. })) {
            return Err(Failure::new(
                "pubrel-not-delivered",
                format!("C11/{}/pubrel-not-delivered", role.name()),
                format!("PUBREL for id 1 (PUBREC reason {:#x}) did not reach the protocol handler; written {:?}", x.rec_reason, eut.packets().0.iter().map(|w| format!("{:?}", w.pkt)).collect::<Vec<_>>()),
            ));
        }
    }
    let enters_before = app.events().iter().filter(|e| matches!(e, Ev::PubEnter { .. } | Ev::CtlEnter { kind: CtlKind::Subscribe, .. })).count();
    let wire_before = eut.packets().0.len();
    let reuse = match x.reuse {
        1 => P5::Publish(Box::new(s5::Publish5 { qos: 1, dup: x.dup, pid: Some(1), topic: "t/b".into(), ..Default::default() })),
        2 => P5::Publish(Box::new(s5::Publish5 { qos: 2, dup: x.dup, pid: Some(1), topic: "t/b".into(), ..Default::default() })),
        _ => P5::Subscribe(s5::Sub5 { pid: 1, filters: vec![("a/b".into(), s5::SubOpts::default())], ..Default::default() }),
    };
    eut.peer_send(&reuse, &[]);
    eut.settle().await;
    let paused = eut.peer().unread() > 0;
    let delivered = |app: &App| app.events().iter().filter(|e| matches!(e, Ev::PubEnter { .. } | Ev::CtlEnter { kind: CtlKind::Subscribe, .. })).count() != enters_before;
    if delivered(&app) {
        return Err(Failure::new(
            "in-use-id-delivered",
            format!("C11/{}/in-use-id-delivered/qos2-before-pubcomp", role.name()),
            format!("id 1 is in a QoS 2 exchange (PUBREC reason {:#x}, PUBREL {}), PUBCOMP not produced, but packet kind {} re-using it reached a handler", x.rec_reason, if x.during_rel { "being handled" } else { "not sent yet" }, x.reuse),
        ));
    }
    if v5 && !paused {
        let (pk, _) = eut.packets();
        let answered = pk[wire_before..].iter().any(|w| match &w.pkt {
            P5::PubAck(a) | P5::PubRec(a) => a.pid == 1 && a.reason == 0x91,
            P5::SubAck(a) => a.pid == 1 && a.codes.iter().all(|c| *c == 0x91),
            _ => false,
        });
        // the answer may be queued behind the PUBCOMP that is still to come: judged after the gate opens
        if !answered && !x.during_rel {
            return Err(ff("in-use-not-answered-0x91", format!("reuse kind {} of id 1 before PUBREL: written {:?}", x.reuse, pk[wire_before..].iter().map(|w| format!("{:?}", w.pkt)).collect::<Vec<_>>())));
        }
    }
    app.open_all();
    eut.settle().await;
    if delivered(&app) && !paused {
        return Err(Failure::new(
            "in-use-id-delivered",
            format!("C11/{}/in-use-id-delivered/qos2-before-pubcomp", role.name()),
            format!("packet kind {} re-using id 1 of an open QoS 2 exchange reached a handler after the gates were opened", x.reuse),
        ));
    }
    let (pk, _) = eut.packets();
    if v5 {
        if !paused {
            let n91 = pk.iter().filter(|w| match &w.pkt {
                P5::PubAck(a) | P5::PubRec(a) => a.pid == 1 && a.reason == 0x91,
                P5::SubAck(a) => a.pid == 1 && a.codes.iter().all(|c| *c == 0x91),
                _ => false,
            }).count();
            if n91 != 1 || !app.stops().is_empty() {
                return Err(ff("in-use-not-answered-0x91", format!("reuse kind {} of id 1: {n91} answers with 0x91, stops {:?}; written {:?}", x.reuse, app.stops(), pk.iter().map(|w| format!("{:?}", w.pkt)).collect::<Vec<_>>())));
            }
        }
        if x.during_rel {
            let comps: Vec<u8> = pk.iter().filter_map(|w| if let P5::PubComp(a) = &w.pkt { (a.pid == 1).then_some(a.reason) } else { None }).collect();
            if comps != vec![0] {
                return Err(ff("pubcomp", format!("exactly one successful PUBCOMP expected for id 1, got reasons {comps:?}")));
            }
        }
    } else {
        let stops = app.stops();
        if !paused && !stops.iter().any(|s| matches!(s, StopKind::Protocol(d) if d.contains("2_2_1_3"))) {
            return Err(ff("in-use-not-violation", format!("MQTT 3.1.1: reuse kind {} of id 1 inside its QoS 2 exchange did not end the connection with protocol violation 2.2.1-3: stops {stops:?}", x.reuse)));
        }
    }
    eut.finish().await;
    let mut info = CaseInfo::nontrivial(&x).label("reuse-inside-qos2-exchange");
    if paused {
        info.labels.push("reader-paused");
    }
    if x.during_rel {
        info.labels.push("pubrel-handler-running");
    }
    Ok(info)
}

pub fn rel_window_cases() -> Vec<RelWindow> {
    let mut out = Vec::new();
    for role in [Role::V3Server, Role::V5Server] {
        for reuse in 1..4u8 {
            for during_rel in [false, true] {
                for rec_reason in if role.is_v5() { vec![0u8, 0x10] } else { vec![0u8] } {
                    out.push(RelWindow { role, reuse, rec_reason, during_rel, dup: false });
                    if reuse != 3 {
                        out.push(RelWindow { role, reuse, rec_reason, during_rel, dup: true });
                    }
                }
            }
        }
    }
    out
}

/// Deterministic scenarios: the application closes the connection, `handle_qos_after_disconnect` lets publishes already
/// received still be handled; an id in use by one of them is still in use for the next.
#[derive(Clone, Copy, Debug, PartialEq, Eq, Hash, Serialize, Deserialize)]
pub struct AfterClose {
    pub role: Role,
    pub qos: u8,
    pub second_qos: u8,
    /// the first handler with the id is still running when the second PUBLISH is dispatched
    pub deferred: bool,
}

pub async fn run_after_close(x: AfterClose) -> Result<CaseInfo, Failure> {
    let role = x.role;
    let mut cfg = Cfg::default();
    cfg.v3.handle_qos_after_disconnect = Some(2);
    cfg.v5.handle_qos_after_disconnect = Some(2);
    let eut = Eut::start(role, &cfg).await;
    eut.handshake(&cfg).await;
    let app = eut.app().clone();
    // the handler of the first publish closes the connection as soon as it is entered: the publishes pipelined behind
    // it are dispatched on a connection that is already closed
    let closer: Rc<dyn Fn()> = match &eut {
        Eut::V3(e) => {
            let s = e.sink();
            Rc::new(move || {
                if let Some(s) = &s {
                    s.force_close();
                }
            })
        }
        Eut::V5(e) => {
            let s = e.sink();
            Rc::new(move || {
                if let Some(s) = &s {
                    s.force_close();
                }
            })
        }
    };
    *app.on_pub_enter.borrow_mut() = Some(Rc::new(move |seq: u32| {
        if seq == 0 {
            closer();
        }
    }));
    if x.deferred {
        app.hold(G_PUB, 1);
    }
    let mut bytes = eut.encode(&P5::Publish(Box::new(s5::Publish5 { qos: 0, topic: "t/a".into(), ..Default::default() })), &[]);
    bytes.extend(eut.encode(&P5::Publish(Box::new(s5::Publish5 { qos: x.qos, pid: Some(7), topic: "t/b".into(), ..Default::default() })), &[]));
    bytes.extend(eut.encode(&P5::Publish(Box::new(s5::Publish5 { qos: x.second_qos, pid: Some(7), topic: "t/c".into(), ..Default::default() })), &[]));
    eut.peer().send(&bytes);
    eut.settle().await;
    let topics = |app: &App| -> Vec<String> { app.pub_enters().iter().map(|(_, s)| s.topic.clone()).collect() };
    let first_handled = topics(&app).iter().any(|t| t == "t/b");
    // QoS 1 with an immediate handler: the exchange is over as far as the endpoint is concerned (its PUBACK is produced),
    // the second PUBLISH is a fresh use of the id; every other combination leaves the id in use
    let in_use = first_handled && (x.deferred || x.qos == 2);
    let check = |app: &App, when: &str| -> Result<(), Failure> {
        if in_use && topics(app).iter().any(|t| t == "t/c") {
            return Err(Failure::new(
                "in-use-id-delivered",
                format!("C11/{}/in-use-id-delivered/after-close", role.name()),
                format!("{when}: the application closed the connection, publishes are still handled (handle_qos_after_disconnect); id 7 of a QoS {} PUBLISH ({}) was re-used by a QoS {} PUBLISH that reached the handler; handlers saw {:?}", x.qos, if x.deferred { "handler running" } else { "awaiting PUBREL" }, x.second_qos, topics(app)),
            ));
        }
        Ok(())
    };
    check(&app, "before the handler of the first use finished")?;
    app.open_all();
    eut.settle().await;
    if x.qos == 2 || x.deferred {
        // (QoS 2: no PUBREL was ever sent, the id stays in use; QoS 1 deferred: the second PUBLISH was dispatched while
        // the first handler ran, it must not show up later either)
        check(&app, "after all handlers finished")?;
    }
    eut.finish().await;
    Ok(if in_use { CaseInfo::nontrivial(&x).label("reuse-after-application-close") } else { CaseInfo::trivial().label("after-close-first-use-not-handled") })
}

pub fn after_close_cases() -> Vec<AfterClose> {
    let mut out = Vec::new();
    for role in [Role::V3Server, Role::V5Server] {
        for qos in [1u8, 2] {
            for second_qos in [1u8, 2] {
                for deferred in [false, true] {
                    if qos == 1 && !deferred {
                        continue;
                    }
                    out.push(AfterClose { role, qos, second_qos, deferred });
                }
            }
        }
    }
    out
}

fn op_strategy() -> BoxedStrategy<Op> {
    prop_oneof![
        4 => (1u8..3, 1u16..4, any::<bool>(), prop_oneof![4 => Just(0u8), 1 => Just(0x87u8), 1 => Just(0x10u8)]).prop_map(|(qos, id, deferred, neg)| Op::Pub { qos, id, deferred, neg }),
        2 => (1u16..4, any::<bool>()).prop_map(|(id, deferred)| Op::Sub { id, deferred }),
        2 => (1u16..4, any::<bool>()).prop_map(|(id, deferred)| Op::Unsub { id, deferred }),
        2 => (1u16..4).prop_map(|id| Op::Rel { id }),
        3 => (0u8..4).prop_map(Op::Open),
    ]
    .boxed()
}

fn case_strategy(role: Role) -> BoxedStrategy<Case> {
    prop::collection::vec(op_strategy(), 2..11).prop_map(move |ops| Case { role, ops }).boxed()
}

fn exhaustive(ctx: &Ctx) -> Stats {
    // every history of `n` packet ops over ids {1,2}, with an optional gate opening after each
    let n = ctx.tier.pick(3usize, 4);
    let mut alphabet: Vec<Op> = Vec::new();
    for id in [1u16, 2] {
        for deferred in [false, true] {
            alphabet.push(Op::Pub { qos: 1, id, deferred, neg: 0 });
            alphabet.push(Op::Pub { qos: 2, id, deferred, neg: 0 });
            alphabet.push(Op::Sub { id, deferred });
        }
        // v5: PUBREC with a non-error reason code keeps the exchange open
        alphabet.push(Op::Pub { qos: 2, id, deferred: false, neg: 0x10 });
        alphabet.push(Op::Unsub { id, deferred: false });
        alphabet.push(Op::Rel { id });
    }
    let a = alphabet.len();
    let total = a.pow(n as u32);
    par_shards(WORKERS, |shard| {
        let mut st = Stats::default();
        let mut work: Vec<Case> = Vec::new();
        let mut idx = shard;
        while idx < total {
            let mut x = idx;
            let mut pk: Vec<Op> = Vec::new();
            for _ in 0..n {
                pk.push(alphabet[x % a]);
                x /= a;
            }
            // gate placement variants: no opening, open after each packet, open after the second
            for variant in 0..3u8 {
                let mut ops = Vec::new();
                for (i, p) in pk.iter().enumerate() {
                    ops.push(*p);
                    if variant == 1 || (variant == 2 && i == 1) {
                        ops.push(Op::Open(0));
                    }
                }
                for role in [Role::V3Server, Role::V5Server] {
                    work.push(Case { role, ops: ops.clone() });
                }
                if pk.iter().all(|o| matches!(o, Op::Pub { qos: 1, .. } | Op::Rel { .. })) {
                    for role in [Role::V3Client, Role::V5Client] {
                        work.push(Case { role, ops: ops.clone() });
                    }
                }
            }
            idx += WORKERS;
        }
        run_list_bed("C11", work, &mut st, |c| json!({"case": c}), run_case);
        st
    })
}

pub fn check_case(c: &Case) -> Result<CaseInfo, Failure> {
    run_isolated("C11", c.clone(), &run_case)
}

pub fn run(ctx: &Ctx, started: Instant) -> i32 {
    let mut stats = exhaustive(ctx);
    {
        let mut st = Stats::default();
        run_list_bed("C11", rel_window_cases(), &mut st, |x| json!({"rel_window": x}), run_rel_window);
        stats.merge(st);
    }
    {
        let mut st = Stats::default();
        run_list_bed("C11", after_close_cases(), &mut st, |x| json!({"after_close": x}), run_after_close);
        stats.merge(st);
    }
    let per_shard = ctx.tier.pick(8_000u32, 100_000);
    let rnd = par_shards(WORKERS, |shard| {
        let mut st = Stats::default();
        run_proptest_bed("C11", ctx.sub_seed("rand", shard), per_shard, &case_strategy(Role::ALL[shard % 4]), &mut st, |c| json!({"case": c}), run_case);
        st
    });
    stats.merge(rnd);
    let report = Report {
        level: "exploration",
        rule: "exhaustive: every history of 3 (quick) / 4 (thorough) packet ops over {PUBLISH QoS1/QoS2 (immediate or gated), SUBSCRIBE (immediate or gated), UNSUBSCRIBE, PUBREL} x ids {1,2} x three gate-opening \
               placements, v3/v5 servers (and clients for the PUBLISH/PUBREL subset); random: 2..10 ops over ids {1,2,3} with v5 negative acks (0x87) and the non-error PUBREC/PUBACK code 0x10 and arbitrary gate openings; deterministic: reuse of a QoS 2 id by PUBLISH QoS 1/2 or SUBSCRIBE before the PUBREL and while the PUBREL's protocol handler is held (PUBCOMP not produced), PUBREC reason 0 / 0x10, v3 and v5 servers; reuse of an id on a connection the application has closed while publishes are still handled (handle_qos_after_disconnect). Model: reserved-id map with per-exchange \
               release point observed on the wire; a reuse attempt is only judged when the id is clearly in use (handler gated / awaiting PUBREL) or clearly released (acknowledgement on the wire). \
               Non-trivial = history contains a reuse attempt; distinct = (role, (kind of reuse, kind of first use, released?) list)"
            .into(),
        exhaustive: true,
        assumptions: vec![
            "PUBREL for an id reserved by a non-QoS-2 exchange, and reuse while an acknowledgement is generated but not yet written, are peer misbehaviour / ambiguous and skipped (counted under ops-skipped-ambiguous)".into(),
            "MQTT 5: PUBACK or PUBREC with reason 0x91 both count as the Packet-Identifier-in-use answer to a duplicate PUBLISH".into(),
        ],
        extra: BTreeMap::new(),
    };
    finish(ctx, started, stats, report)
}

pub fn replay(path: &str) -> i32 {
    let case = super::load_case(path);
    if !case["rel_window"].is_null() {
        let res = serde_json::from_value::<RelWindow>(case["rel_window"].clone()).map_err(|e| e.to_string()).map(|x| run_isolated("C11", x, &run_rel_window));
        return super::report_replay("C11", path, res);
    }
    if !case["after_close"].is_null() {
        let res = serde_json::from_value::<AfterClose>(case["after_close"].clone()).map_err(|e| e.to_string()).map(|x| run_isolated("C11", x, &run_after_close));
        return super::report_replay("C11", path, res);
    }
    let res = serde_json::from_value::<Case>(case["case"].clone()).map_err(|e| e.to_string()).map(|c| check_case(&c));
    super::report_replay("C11", path, res)
}
