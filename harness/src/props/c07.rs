//! C07 — however a connection ends, it is torn down completely and exactly
//! once.  Fault enumeration: every termination cause at every step index of
//! every base scenario (and, for peer close / read error, at every byte offset
//! of the inbound packet being delivered), four roles, with the Stop
//! notification handled immediately or held open.

use std::collections::BTreeMap;
use std::time::Instant;

use proptest::strategy::{BoxedStrategy, Strategy};
use serde::{Deserialize, Serialize};
use serde_json::json;

use crate::bed::v5::{SendKind, SendRes};
use crate::bed::*;
use crate::runner::*;
use crate::sinkbed::*;
use crate::spec::v5::{self as s5, P5};

#[derive(Clone, Copy, Debug, PartialEq, Eq, Hash, Serialize, Deserialize)]
pub enum Cause {
    PeerClose,
    ReadError,
    WriteError,
    /// malformed Remaining Length
    Garbage,
    /// frame above the configured inbound maximum
    Oversize,
    /// PUBACK nobody waits for
    WrongAck,
    /// v3 server: PUBREL with an unknown id
    PubRelUnknown,
    /// v5: alias-only PUBLISH with an alias never bound
    UnknownAlias,
    /// v3 server: QoS 1 PUBLISH with the id of one still being handled
    DupId,
    /// packet type the role never receives (server: SUBACK, client: SUBSCRIBE)
    Unexpected,
    /// a further PUBLISH whose handler fails
    HandlerErr,
    /// a further PUBLISH whose handler is suspended first and fails when released (older handlers may still be running)
    HandlerErrLate,
    /// three further publishes with suspended handlers: the first is released and completes, then the second fails while the
    /// third is still running (the failing handler is the oldest pending one, a newer one is in flight behind it)
    HandlerErrFront,
    /// server: SUBSCRIBE whose protocol handler fails
    CtlErr,
    /// control service fails on a back-pressure notification
    BackpressureErr,
    /// application: 0 close, 1 force_close, 2 close_with_reason (v5), 3 close_with_no_reason (v5)
    AppClose(u8),
    PeerDisconnect,
    /// the peer acknowledges everything outstanding and closes in the same breath (woken senders run after the teardown began)
    AckThenClose,
    /// servers: the handshake imposed a keep-alive of 1 s and the peer goes silent (real time: the case waits 2.7 s);
    /// not part of `causes()`: enumerated separately, after the last step of every scenario
    KeepAlive,
    /// clients with keep-alive 1 s: the application closes and the teardown takes 1.3 s of real time (the Stop notification
    /// is held), so that a tick of the client's keep-alive task falls into it; enumerated separately
    AppCloseSlow,
}

#[derive(Clone, Copy, Debug, PartialEq, Eq, Hash, Serialize, Deserialize)]
pub struct Case {
    pub role: Role,
    pub scenario: u8,
    /// the cause is injected after this many steps of the scenario
    pub cut: u8,
    /// deliver only this many bytes of the inbound packet of step `cut`, then inject
    pub byte: Option<u8>,
    pub cause: Cause,
    pub hold_stop: bool,
    /// the control service answers the Stop notification with an error
    #[serde(default)]
    pub stop_fail: bool,
}

const Q0: Op = Op::Send { kind: SendKind::Qos0, again: false, own_id: 0 };
const Q1: Op = Op::Send { kind: SendKind::Qos1, again: false, own_id: 0 };
const Q2: Op = Op::Send { kind: SendKind::Qos2, again: false, own_id: 0 };

pub const SCENARIOS: usize = 12;

/// (name, limit, steps)
pub fn scenario(k: u8, role: Role) -> (&'static str, u16, Vec<Op>) {
    let server = role.is_server();
    match k {
        0 => ("idle", 3, vec![]),
        1 => ("publishes in flight with gated handlers", 3, vec![Op::Hold(true), Op::Inbound(0), Op::Inbound(6), Op::Inbound(0), Op::Inbound(7)]),
        2 => ("streamed inbound payload half received, reader waiting", 3, vec![Op::Inbound(0), Op::Inbound(4)]),
        3 => (
            "outbound sends awaiting acknowledgement",
            4,
            if server { vec![Q1, Q2, Q1, Op::Ack { n: 2, batch: false }, Op::Release(0)] } else { vec![Q1, Q2, Op::Send { kind: SendKind::Subscribe, again: false, own_id: 0 }, Op::Ack { n: 2, batch: false }, Op::Release(0)] },
        ),
        4 => ("senders parked on a full window", 1, vec![Q1, Q1, Q2, Op::Send { kind: SendKind::Ready, again: false, own_id: 0 }]),
        5 => ("ready() parked on write back-pressure", 3, vec![Op::Window(false), Q0, Q0, Q0, Q0, Q0, Q0, Q0, Q0, Op::Send { kind: SendKind::Ready, again: false, own_id: 0 }, Q1]),
        6 => ("outbound streamed publish half written", 3, vec![Q1, Op::StreamStart { qos: 1, declared: 9, bad: 0 }, Op::Chunk { stream: 0, len: 5 }]),
        7 => (
            "gated protocol handler with further packets buffered",
            3,
            if server { vec![Op::Hold(true), Op::Inbound(2), Op::Inbound(1), Op::Inbound(2), Op::Inbound(0)] } else { vec![Op::Hold(true), Op::Inbound(6), Op::Inbound(7), Op::Inbound(0), Op::Inbound(3)] },
        ),
        9 => ("outbound streamed publish paused by write back-pressure", 3, vec![Op::Window(false), Op::StreamStart { qos: 0, declared: 200, bad: 0 }, Op::Chunk { stream: 0, len: 2 }, Op::Chunk { stream: 0, len: 2 }, Op::Chunk { stream: 0, len: 1 }]),
        11 => ("server: the per-connection services are still being created (slow factory), a send already awaits its acknowledgement", 3, if server { vec![Q1] } else { vec![] }),
        10 => ("streamed inbound payload half received, read by a task that outlives the handler", 3, vec![Op::Inbound(0), Op::Inbound(4)]),
        _ => ("mixed: gated handler, half payload, outbound sends, stream", 2, vec![Op::Hold(true), Op::Inbound(0), Q1, Q2, Op::Hold(false), Op::Inbound(4), Q1, Op::Ack { n: 1, batch: false }]),
    }
}

pub fn causes(role: Role) -> Vec<Cause> {
    let mut v = vec![Cause::PeerClose, Cause::ReadError, Cause::WriteError, Cause::Garbage, Cause::Oversize, Cause::WrongAck, Cause::Unexpected, Cause::HandlerErr, Cause::HandlerErrLate, Cause::HandlerErrFront, Cause::BackpressureErr, Cause::AppClose(0), Cause::AppClose(1), Cause::PeerDisconnect, Cause::AckThenClose];
    if role.is_v5() {
        v.extend([Cause::UnknownAlias, Cause::AppClose(2), Cause::AppClose(3)]);
    }
    if role == Role::V3Server {
        v.extend([Cause::PubRelUnknown, Cause::DupId]);
    }
    if role.is_server() {
        v.push(Cause::CtlErr);
    }
    v
}

#[derive(Clone, Copy, PartialEq, Eq, Debug)]
enum Class {
    Gone,
    Protocol,
    Error,
}

fn class_of(s: &StopKind) -> Class {
    match s {
        StopKind::PeerGone(_) => Class::Gone,
        StopKind::Protocol(_) => Class::Protocol,
        StopKind::Error(_) => Class::Error,
    }
}

fn expected(cause: Cause, role: Role) -> Class {
    match cause {
        Cause::PeerClose | Cause::ReadError | Cause::WriteError | Cause::AppClose(_) | Cause::AckThenClose | Cause::AppCloseSlow => Class::Gone,
        Cause::Garbage | Cause::Oversize | Cause::WrongAck | Cause::PubRelUnknown | Cause::UnknownAlias | Cause::DupId | Cause::Unexpected | Cause::KeepAlive => Class::Protocol,
        Cause::HandlerErr | Cause::HandlerErrLate | Cause::HandlerErrFront | Cause::CtlErr | Cause::BackpressureErr => Class::Error,
        Cause::PeerDisconnect => {
            if role == Role::V3Client {
                Class::Protocol
            } else {
                Class::Gone
            }
        }
    }
}

fn fail(c: &Case, rule: &str, detail: String) -> Failure {
    Failure::new(rule, format!("C07/{}/{rule}", c.role.name()), detail)
}

/// inject the cause; returns whether the connection must end without further help
async fn inject(c: &Case, w: &mut World) -> bool {
    let role = c.role;
    let app = w.eut.app().clone();
    let payload_owed = w.inbound_owed > 0;
    let mut must_end = true;
    let mut bytes: Option<Vec<u8>> = None;
    match c.cause {
        Cause::PeerClose => w.eut.peer().close(),
        Cause::AckThenClose => {
            w.eut.peer().pump();
            let _ = w.absorb();
            let mut b = Vec::new();
            while let Some(qi) = w.unanswered.pop_front() {
                let r = w.requests[qi].clone();
                let a = s5::Ack5 { pid: r.id, ..Default::default() };
                let p = match (r.t, r.qos) {
                    (3, 1) => P5::PubAck(a),
                    (3, _) => P5::PubRec(a),
                    (6, _) => P5::PubComp(a),
                    (8, _) => P5::SubAck(s5::SubAck5 { pid: r.id, codes: vec![0], ..Default::default() }),
                    _ => P5::UnsubAck(s5::SubAck5 { pid: r.id, codes: if role.is_v5() { vec![0] } else { vec![] }, ..Default::default() }),
                };
                b.extend(w.eut.encode(&p, &[]));
            }
            w.eut.peer().send(&b);
            w.eut.peer().close();
        }
        Cause::ReadError => w.eut.peer().read_error(),
        Cause::WriteError => {
            w.eut.peer().write_error();
            must_end = false;
        }
        Cause::Garbage => bytes = Some(vec![0x30, 0xff, 0xff, 0xff, 0xff, 0x01]),
        Cause::Oversize => bytes = Some(vec![0x30, 0x88, 0x27]),
        Cause::WrongAck => bytes = Some(w.eut.encode(&P5::PubAck(s5::Ack5 { pid: 60_000, ..Default::default() }), &[])),
        Cause::PubRelUnknown => bytes = Some(w.eut.encode(&P5::PubRel(s5::Ack5 { pid: 60_001, ..Default::default() }), &[])),
        Cause::UnknownAlias => bytes = Some(w.eut.encode(&P5::Publish(Box::new(s5::Publish5 { topic: String::new(), topic_alias: Some(9), qos: 0, payload_len: 1, ..Default::default() })), &[1])),
        Cause::DupId => {
            // id of a publish whose handler is still gated, if any; otherwise two publishes with one id
            let p = P5::Publish(Box::new(s5::Publish5 { topic: "in/d".into(), qos: 1, pid: Some(101), payload_len: 1, ..Default::default() }));
            app.default_open.set(false);
            let mut b = w.eut.encode(&p, &[1]);
            b.extend(w.eut.encode(&p, &[1]));
            bytes = Some(b);
        }
        Cause::Unexpected => {
            bytes = Some(if role.is_server() {
                w.eut.encode(&P5::SubAck(s5::SubAck5 { pid: 5, codes: vec![0], ..Default::default() }), &[])
            } else {
                w.eut.encode(&P5::Subscribe(s5::Sub5 { pid: 5, filters: vec![("a".into(), s5::SubOpts::default())], ..Default::default() }), &[])
            });
        }
        Cause::HandlerErr => {
            let seq = app.pub_seq.get();
            app.pub_plans.borrow_mut().insert(seq, PubPlan { outcome: Outcome::Err, read: ReadPlan::Eager });
            app.open(G_PUB, seq);
            bytes = Some(w.eut.encode(&P5::Publish(Box::new(s5::Publish5 { topic: "in/e".into(), qos: 1, pid: Some(222), payload_len: 1, ..Default::default() })), &[1]));
        }
        Cause::HandlerErrLate => {
            let seq = app.pub_seq.get();
            app.pub_plans.borrow_mut().insert(seq, PubPlan { outcome: Outcome::Err, read: ReadPlan::Eager });
            app.hold(G_PUB, seq);
            let b = w.eut.encode(&P5::Publish(Box::new(s5::Publish5 { topic: "in/l".into(), qos: 1, pid: Some(224), payload_len: 1, ..Default::default() })), &[1]);
            w.eut.peer().send(&b);
            w.eut.settle().await;
            // (behind a stalled peer the dispatcher looks at handler results only after the write buffer drained)
            if w.stalled {
                must_end = false;
            }
            // released now: it fails after having been suspended
            if app.events().iter().any(|e| matches!(e, Ev::PubEnter { seq: s, .. } if *s == seq)) {
                app.open(G_PUB, seq);
            } else {
                // not started (reading paused or payload owed): it will fail once everything is released
                app.open(G_PUB, seq);
                if payload_owed {
                    must_end = false;
                }
            }
        }
        Cause::HandlerErrFront => {
            let s0 = app.pub_seq.get();
            app.pub_plans.borrow_mut().insert(s0 + 1, PubPlan { outcome: Outcome::Err, read: ReadPlan::Eager });
            let mut b = Vec::new();
            for k in 0..3u32 {
                app.hold(G_PUB, s0 + k);
                b.extend(w.eut.encode(&P5::Publish(Box::new(s5::Publish5 { topic: "in/f".into(), qos: 1, pid: Some(231 + k as u16), payload_len: 1, ..Default::default() })), &[1]));
            }
            w.eut.peer().send(&b);
            w.eut.settle().await;
            if w.stalled || payload_owed {
                must_end = false;
            }
            // the oldest completes, then the next one fails while the newest is still suspended
            app.open(G_PUB, s0);
            w.eut.settle().await;
            app.open(G_PUB, s0 + 1);
        }
        Cause::CtlErr => {
            let seq = app.ctl_seq.get();
            app.ctl_plans.borrow_mut().insert(seq, CtlPlan::Err);
            app.open(G_CTL, seq);
            bytes = Some(w.eut.encode(&P5::Subscribe(s5::Sub5 { pid: 223, filters: vec![("e/#".into(), s5::SubOpts::default())], ..Default::default() }), &[]));
        }
        Cause::BackpressureErr => {
            app.fail_on_backpressure.set(true);
            w.eut.peer().window(0);
            w.stalled = true;
            let already = app.events().iter().filter(|e| matches!(e, Ev::WrBackpressure(true))).count();
            for _ in 0..24 {
                let _ = w.apply(Op::Send { kind: SendKind::Qos0, again: false, own_id: 0 }).await;
                w.eut.settle().await;
                if app.events().iter().filter(|e| matches!(e, Ev::WrBackpressure(true))).count() > already {
                    break;
                }
            }
            // the result of a back-pressure notification is not looked at: the connection need not end
            must_end = false;
            let _ = already;
            w.eut.peer().window(1 << 30);
            w.stalled = false;
        }
        Cause::AppClose(k) => {
            // a graceful close flushes first: behind a stalled peer it cannot complete
            if k != 1 && w.stalled {
                must_end = false;
            }
            w.eut.app_close(k, 0x80)
        }
        Cause::PeerDisconnect => {
            if w.stalled {
                must_end = false;
            }
            bytes = Some(w.eut.encode(&P5::Disconnect(s5::Disc5::default()), &[]));
        }
        Cause::AppCloseSlow => {
            if w.stalled {
                must_end = false;
            }
            w.eut.app_close(0, 0);
            ntex::time::sleep(ntex::time::Millis(1300)).await;
        }
        Cause::KeepAlive => {
            // nothing arrives any more: the 1 s keep-alive of the handshake (1 s timer wheel) has expired well before 2.7 s
            // (behind a stalled peer the dispatcher sits in its back-pressure state and runs no keep-alive timer: as for
            // the other causes, nothing is demanded then)
            if w.stalled {
                must_end = false;
            }
            ntex::time::sleep(ntex::time::Millis(2700)).await;
        }
    }
    if let Some(b) = bytes {
        // bytes that land inside an inbound payload still owed are payload, not a packet; behind a stalled peer the dispatcher
        // may sit in its back-pressure state and not read until the write buffer drains
        if payload_owed || w.stalled {
            must_end = false;
        }
        w.eut.peer().send(&b);
    }
    must_end
}

/// a generated base history (any sink / inbound operations) ended by a cause
#[derive(Clone, Debug, PartialEq, Eq, Hash, Serialize, Deserialize)]
pub struct RandCase {
    /// `scenario` is 255, `cut` 255 (the cause comes after the whole history)
    pub base: Case,
    pub limit: u16,
    pub write_hw: u16,
    pub ops: Vec<Op>,
}

pub async fn run_rand(rc: RandCase) -> Result<CaseInfo, Failure> {
    run_with(rc.base, rc.limit, rc.ops, usize::from(rc.write_hw)).await
}

pub async fn run_case(c: Case) -> Result<CaseInfo, Failure> {
    let (_, limit, steps) = scenario(c.scenario, c.role);
    let write_hw = if c.scenario == 5 || c.scenario == 9 || c.cause == Cause::BackpressureErr { 64 } else { 0 };
    run_with(c, limit, steps, write_hw).await
}

async fn run_with(c: Case, limit: u16, steps: Vec<Op>, write_hw: usize) -> Result<CaseInfo, Failure> {
    let write_hw = if c.cause == Cause::BackpressureErr { 64 } else { write_hw };
    let mut w = World::start_cfg(c.role, limit, LimitHow::Config, write_hw, None, &|cfg| {
        cfg.v3.max_size = 512;
        cfg.v5.max_size = 512;
        if c.role == Role::V5Client {
            // the client's inbound maximum is the Maximum Packet Size it announces
            cfg.v5.connect.max_packet_size = Some(512);
        }
        cfg.v3.min_chunk_size = 4;
        cfg.v5.min_chunk_size = 4;
        if c.scenario == 10 {
            // the publish handler proper (with take_payload) serves routed topics on client roles
            cfg.v3.router = true;
            cfg.v5.router = true;
        }
        if c.scenario == 11 {
            cfg.v3.hold_factory = true;
            cfg.v5.hold_factory = true;
        }
        if c.cause == Cause::AppCloseSlow {
            cfg.v3.connect.keep_alive = 1;
            cfg.v5.connect.keep_alive = 1;
        }
        if c.cause == Cause::KeepAlive {
            cfg.v3.connect.keep_alive = 10;
            cfg.v5.connect.keep_alive = 10;
            cfg.v3.hs = crate::bed::v3::Hs3::Accept { idle_timeout: Some(1), max_send: None, session_present: false };
            cfg.v5.hs = crate::bed::v5::Hs5::Accept { keep_alive: Some(1), max_send: None };
        }
    })
    .await
    .map_err(|f| fail(&c, "harness-handshake", f.detail))?;
    let app = w.eut.app().clone();
    if c.scenario == 10 {
        w.partial_topic = "t/a".into();
        app.pub_plans.borrow_mut().insert(1, PubPlan { outcome: Outcome::Ok, read: ReadPlan::Detached });
    }
    app.hold_stop.set(c.hold_stop);
    if c.stop_fail {
        app.stop_answer.set(StopAnswer::Fail);
    }
    if c.hold_stop {
        app.hold(G_STOP, 0);
    }
    let cut = usize::from(c.cut).min(steps.len());
    for op in &steps[..cut] {
        if c.role.is_server() && matches!(op, Op::Send { kind: SendKind::Subscribe | SendKind::Unsubscribe, .. } | Op::SendBad { kind: SendKind::Subscribe | SendKind::Unsubscribe, .. }) {
            continue;
        }
        w.apply(*op).await.map_err(|f| fail(&c, &f.rule, f.detail))?;
        if c.scenario == 255 && (w.eut.done().is_some() || !app.stops().is_empty() || w.eut.sink_open() == Some(false)) {
            // the generated history ended the connection by itself (a response fell due inside a streamed payload, ...)
            w.eut.finish().await;
            return Ok(CaseInfo::trivial().label("history-ended-by-itself"));
        }
    }
    // optional partial delivery of the next inbound packet
    if let Some(b) = c.byte {
        match steps.get(cut) {
            Some(Op::Inbound(k)) => {
                let bytes = w.inbound_bytes(*k);
                if usize::from(b) == 0 || usize::from(b) >= bytes.len() {
                    w.eut.finish().await;
                    return Ok(CaseInfo::trivial());
                }
                w.eut.peer().send(&bytes[..usize::from(b)]);
                w.eut.settle().await;
            }
            _ => {
                w.eut.finish().await;
                return Ok(CaseInfo::trivial());
            }
        }
    }
    if c.hold_stop {
        // (a scenario step may have opened every gate)
        app.rehold(G_STOP, 0);
    }
    if w.eut.done().is_some() || !app.stops().is_empty() {
        return Err(fail(&c, "harness-scenario-ended", format!("the base scenario ended the connection by itself: {:?} {:?}", app.stops(), w.eut.done())));
    }
    // what is pending when the fault lands
    w.poll_all();
    if c.scenario == 255 {
        w.eut.settle().await;
        if w.eut.done().is_some() || !app.stops().is_empty() || w.eut.sink_open() == Some(false) {
            w.eut.finish().await;
            return Ok(CaseInfo::trivial().label("history-ended-by-itself"));
        }
    }
    let ev = app.events();
    let handlers_running = ev.iter().filter(|e| matches!(e, Ev::PubEnter { .. } | Ev::CtlEnter { .. })).count() > ev.iter().filter(|e| matches!(e, Ev::PubExit { .. } | Ev::CtlExit { .. } | Ev::PubDrop { .. } | Ev::CtlDrop { .. })).count();
    let futures_pending = w.slots.iter().filter(|s| s.fut.is_some()).count();
    let reader_waiting = w.inbound_owed > 0 && c.byte.is_none();
    let busy = handlers_running || futures_pending > 0 || reader_waiting || c.byte.is_some();

    let must_end = inject(&c, &mut w).await;
    w.eut.settle().await;
    w.poll_all();
    if matches!(c.cause, Cause::HandlerErrLate | Cause::HandlerErrFront) && must_end && !(c.scenario == 10 && !c.role.is_server()) {
        // the handler has failed: the connection must end now, not when something else happens to wake the dispatcher
        let ev = app.events();
        if ev.iter().any(|e| matches!(e, Ev::PubExit { outcome: Outcome::Err, .. })) && !ev.iter().any(|e| matches!(e, Ev::Stop(_))) {
            return Err(Failure::new(
                "handler-error-not-acted-upon",
                format!("C07/{}/handler-error-not-acted-upon", c.role.name()),
                format!("a publish handler failed after having been suspended while other handlers are still running, and no Stop notification was delivered; events {:?}", brief_events(&ev)),
            ));
        }
    }
    if c.hold_stop {
        // while the Stop notification is being handled no handler may have been cancelled
        let ev = app.events();
        let stop_at = ev.iter().position(|e| matches!(e, Ev::Stop(_)));
        let handled = ev.iter().any(|e| matches!(e, Ev::ControlExit { stop: true }));
        if let (Some(at), false) = (stop_at, handled) {
            if let Some(d) = ev.iter().find(|e| matches!(e, Ev::PubDrop { .. } | Ev::CtlDrop { .. })) {
                return Err(Failure::new(
                    "handler-cancelled-before-stop-handled",
                    format!("C07/{}/handler-cancelled-before-stop-handled", c.role.name()),
                    format!("{d:?} was logged while the control service was still handling Stop (event #{at}); events: {:?}", brief_events(&ev)),
                ));
            }
        }
    }
    let mut late_send = false;
    if c.hold_stop {
        // an application that does not know yet starts one more send while the Stop notification is being handled: it is a
        // pending send like any other and must be resolved by the teardown
        let ev = app.events();
        if ev.iter().any(|e| matches!(e, Ev::Stop(_))) && !ev.iter().any(|e| matches!(e, Ev::ControlExit { stop: true })) {
            w.force_send(SendKind::Qos1);
            w.eut.settle().await;
            late_send = true;
        }
    }
    // let everything that waits on the application go on
    app.open_all();
    w.eut.settle().await;
    w.poll_all();
    // the endpoint has ended the connection by itself when the Stop notification was delivered; the connection task
    // then completes once the peer has closed its side too (or the disconnect timeout fires: real time, not modelled)
    // (routed clients run without a control service in the bed: the end of the connection is seen on the transport)
    let has_control = !(c.scenario == 10 && !c.role.is_server());
    let helped = if has_control { app.stops().is_empty() } else { !(w.eut.done().is_some() || w.eut.peer().endpoint_closed() || w.eut.sink_open() == Some(false)) };
    if helped && must_end {
        return Err(Failure::new(
            "connection-not-ended",
            format!("C07/{}/connection-not-ended/{:?}", c.role.name(), c.cause),
            format!("cause {:?} was injected and every handler released, but the connection was not ended (no Stop notification); events {:?}; futures {:?}", c.cause, brief_events(&app.events()), w.results_summary()),
        ));
    }
    w.eut.peer().window(1 << 30);
    w.eut.peer().close();
    w.eut.settle().await;
    w.poll_all();
    w.eut.settle().await;
    if w.eut.done().is_none() {
        return Err(Failure::new(
            "connection-task-not-finished",
            format!("C07/{}/connection-task-not-finished", c.role.name()),
            format!("after {:?} and the peer closing its side the connection task has not finished; stops {:?}; events {:?}; futures {:?}", c.cause, app.stops(), brief_events(&app.events()), w.results_summary()),
        ));
    }
    w.poll_all();
    let ev = app.events();
    let stops = app.stops();
    // (1) exactly one Stop, of the right class, and the control service is not called again
    if has_control && stops.len() != 1 {
        return Err(Failure::new(
            "stop-count",
            format!("C07/{}/stop-count/{}", c.role.name(), stops.len().min(2)),
            format!("cause {:?}: the control service saw {} Stop notifications {:?}; events {:?}", c.cause, stops.len(), stops, brief_events(&ev)),
        ));
    }
    let got = if has_control { class_of(&stops[0]) } else { expected(c.cause, c.role) };
    let want = expected(c.cause, c.role);
    // a response that falls due while an outbound streamed payload is owed is refused by the encoder: that ends the connection first
    let owed_stream = stops.first().is_some_and(|s| matches!(s, StopKind::Protocol(d) if d.contains("ExpectPayload")));
    // (a failing back-pressure notification does not end the connection in this library: whatever ends it later decides the class)
    let ok = got == want || owed_stream || (c.cause == Cause::BackpressureErr && got == Class::Gone) || (helped && got == Class::Gone) || (!must_end && got == Class::Protocol && matches!(want, Class::Protocol | Class::Error));
    if !ok {
        return Err(Failure::new(
            "stop-class",
            format!("C07/{}/stop-class/{:?}", c.role.name(), c.cause),
            format!("cause {:?}: expected a {want:?} stop, the control service saw {:?}; events {:?}", c.cause, stops[0], brief_events(&ev)),
        ));
    }
    let stop_at = ev.iter().position(|e| matches!(e, Ev::Stop(_))).unwrap_or(ev.len().saturating_sub(1));
    // (a WrBackpressure(false) notification may still arrive while the transport drains: observed, not judged)
    if let Some(e) = ev[stop_at + 1..].iter().find(|e| matches!(e, Ev::Stop(_))) {
        return Err(fail(&c, "control-called-after-stop", format!("{e:?} after the Stop notification; events {:?}", brief_events(&ev))));
    }
    // an application that does not know yet supplies the next chunk of a streamed publish after the connection is gone:
    // that send must come back with an error, it is a pending send like any other
    let live_streams = w.streams.iter().filter(|s| s.live && s.chunk_slot.is_none() && s.handle.is_some()).count();
    let mut late_chunk = false;
    if live_streams > 0 && w.slots.iter().all(|s| s.fut.is_none()) {
        let before = w.slots.len();
        let _ = w.apply(Op::Chunk { stream: 0, len: 1 }).await;
        w.eut.settle().await;
        w.poll_all();
        late_chunk = w.slots.len() > before;
    }
    // (2) every owned future resolved
    if let Some((i, s)) = w.slots.iter().enumerate().find(|(_, s)| s.fut.is_some()) {
        return Err(Failure::new(
            "future-pending-after-end",
            format!("C07/{}/future-pending-after-end", c.role.name()),
            format!("future #{i} ({:?}{}) is still pending after the connection ended ({:?}); futures {:?}", s.kind, if s.chunk_of.is_some() { " chunk" } else if s.release_of.is_some() { " release" } else { "" }, c.cause, w.results_summary()),
        ));
    }
    // a future that was pending when the fault landed did not succeed without an acknowledgement
    // (3) payload readers: no clean end for an incomplete payload
    let mut sizes: BTreeMap<u32, u32> = BTreeMap::new();
    for e in &ev {
        match e {
            Ev::PubEnter { seq, seen } => {
                sizes.insert(*seq, seen.payload_size);
            }
            Ev::PubRead { seq, data, end: ReadEnd::Eof } => {
                if sizes.get(seq).is_some_and(|n| *n as usize != data.len()) {
                    return Err(fail(&c, "reader-clean-end-incomplete", format!("handler #{seq} read {} of {} payload bytes and then a clean end of payload", data.len(), sizes[seq])));
                }
            }
            _ => {}
        }
    }
    // a reader that outlives its handler is told as well (it is not cancelled with the handler)
    if c.scenario == 10 && cut >= 2 && c.byte.is_none() && w.inbound_owed > 0 {
        // (bytes injected by the cause may have completed the payload: then the reader finished normally; a clean end of an
        // incomplete payload is rejected by the rule above)
        let told = ev.iter().any(|e| matches!(e, Ev::PubRead { seq: 1, .. }));
        if !told {
            return Err(Failure::new(
                "detached-reader-not-told",
                format!("C07/{}/detached-reader-not-told", c.role.name()),
                format!("the connection ended ({:?}) while a task was reading a half-received payload taken with take_payload(): it observed no error; events {:?}", c.cause, brief_events(&ev)),
            ));
        }
    }
    // (4) nothing keeps running: every handler finished or was dropped
    for e in &ev {
        if let Ev::PubEnter { seq, .. } = e {
            if !ev.iter().any(|x| matches!(x, Ev::PubExit { seq: s, .. } | Ev::PubDrop { seq: s } if s == seq)) {
                return Err(Failure::new(
                    "handler-left-running",
                    format!("C07/{}/handler-left-running", c.role.name()),
                    format!("publish handler #{seq} neither finished nor was dropped after the connection ended ({:?}); events {:?}", c.cause, brief_events(&ev)),
                ));
            }
        }
        if let Ev::CtlEnter { seq, .. } = e {
            if !ev.iter().any(|x| matches!(x, Ev::CtlExit { seq: s } | Ev::CtlDrop { seq: s } if s == seq)) {
                return Err(fail(&c, "handler-left-running", format!("protocol handler #{seq} neither finished nor was dropped; events {:?}", brief_events(&ev))));
            }
        }
    }
    // cancellation only after the notification was handled
    let handled_at = ev.iter().position(|e| matches!(e, Ev::ControlExit { stop: true }));
    if let (Some(h), Some(d)) = (handled_at, ev.iter().position(|e| matches!(e, Ev::PubDrop { .. } | Ev::CtlDrop { .. }))) {
        if d < h && d > stop_at {
            return Err(Failure::new(
                "handler-cancelled-before-stop-handled",
                format!("C07/{}/handler-cancelled-before-stop-handled", c.role.name()),
                format!("{:?} at event #{d}, Stop handled at #{h}; events {:?}", ev[d], brief_events(&ev)),
            ));
        }
    }
    let resolved_disc = w.slots.iter().filter(|s| s.result.as_ref().is_some_and(is_disconnected)).count();
    w.eut.finish().await;
    let mut info = if busy { if c.scenario == 255 { CaseInfo::nontrivial(&(c, limit, &steps)) } else { CaseInfo::nontrivial(&c) } } else { CaseInfo::trivial() };
    if c.scenario == 255 {
        info.labels.push("generated-history");
    }
    for (on, l) in [
        (handlers_running, "handlers-running-at-fault"),
        (futures_pending > 0, "futures-pending-at-fault"),
        (reader_waiting, "reader-waiting-at-fault"),
        (c.byte.is_some(), "fault-inside-a-packet"),
        (helped, "needed-peer-close"),
        (resolved_disc > 0, "futures-resolved-disconnected"),
        (c.hold_stop, "stop-held"),
        (late_send, "send-started-while-stop-is-handled"),
        (late_chunk, "chunk-supplied-after-the-end"),
        (ev.iter().any(|e| matches!(e, Ev::PubDrop { .. } | Ev::CtlDrop { .. })), "handler-cancelled"),
    ] {
        if on {
            info.labels.push(l);
        }
    }
    info.labels.push(match got {
        Class::Gone => "stop-peer-gone",
        Class::Protocol => "stop-protocol",
        Class::Error => "stop-error",
    });
    Ok(info)
}

fn brief_events(ev: &[Ev]) -> Vec<String> {
    ev.iter()
        .map(|e| match e {
            Ev::PubEnter { seq, seen } => format!("PubEnter#{seq}({})", seen.topic),
            Ev::PubRead { seq, data, end } => format!("PubRead#{seq}({}b,{end:?})", data.len()),
            Ev::Stop(s) => format!("Stop({})", format!("{s:?}").chars().take(60).collect::<String>()),
            other => format!("{other:?}"),
        })
        .collect()
}

pub fn all_cases(thorough: bool) -> Vec<Case> {
    let mut out = Vec::new();
    for role in Role::ALL {
        for sc in 0..SCENARIOS as u8 {
            let (_, _, steps) = scenario(sc, role);
            if sc == 11 && !role.is_server() {
                continue;
            }
            for cut in 0..=steps.len() as u8 {
                for cause in causes(role) {
                    // scenario 11: the dispatcher does not exist yet when the cause arrives; causes that rely on a handler
                    // being suspended at that moment do not apply
                    if sc == 11 && matches!(cause, Cause::DupId | Cause::HandlerErrLate | Cause::HandlerErrFront | Cause::BackpressureErr | Cause::PubRelUnknown) {
                        continue;
                    }
                    for hold_stop in [false, true] {
                        out.push(Case { role, scenario: sc, cut, byte: None, cause, hold_stop, stop_fail: false });
                        if !hold_stop && matches!(sc, 3 | 4 | 5 | 6 | 8 | 9) {
                            out.push(Case { role, scenario: sc, cut, byte: None, cause, hold_stop, stop_fail: true });
                        }
                    }
                }
                // a slow teardown after a local close on a client with a keep-alive task (real time)
                if !role.is_server() && usize::from(cut) == steps.len() && matches!(sc, 0 | 1 | 3) {
                    out.push(Case { role, scenario: sc, cut, byte: None, cause: Cause::AppCloseSlow, hold_stop: true, stop_fail: false });
                }
                // keep-alive expiry (real time) after the last step of the scenario, server roles
                if role.is_server() && usize::from(cut) == steps.len() && sc != 11 {
                    out.push(Case { role, scenario: sc, cut, byte: None, cause: Cause::KeepAlive, hold_stop: false, stop_fail: false });
                    if thorough {
                        out.push(Case { role, scenario: sc, cut, byte: None, cause: Cause::KeepAlive, hold_stop: true, stop_fail: false });
                        out.push(Case { role, scenario: sc, cut, byte: None, cause: Cause::KeepAlive, hold_stop: false, stop_fail: true });
                    }
                }
                // fault inside the inbound packet of this step, at every byte offset
                if let Some(Op::Inbound(_)) = steps.get(usize::from(cut)) {
                    let max = if thorough || sc <= 2 || sc == 7 { 40 } else { 0 };
                    for b in 1..max {
                        for cause in [Cause::PeerClose, Cause::ReadError] {
                            out.push(Case { role, scenario: sc, cut, byte: Some(b), cause, hold_stop: b % 2 == 0, stop_fail: false });
                        }
                    }
                }
            }
        }
    }
    out
}

fn rand_strategy(role: Role) -> BoxedStrategy<RandCase> {
    use proptest::prelude::*;
    let causes = causes(role);
    (
        1u16..4,
        prop_oneof![3 => Just(0u16), 1 => Just(48u16)],
        prop::collection::vec(crate::props::c08::op_strategy().prop_filter("no close inside the history", |o| !matches!(o, Op::Close(_) | Op::PeerFault(_))), 2..18),
        prop::sample::select(causes),
        any::<bool>(),
        prop_oneof![4 => Just(false), 1 => Just(true)],
    )
        .prop_map(move |(limit, write_hw, ops, cause, hold_stop, stop_fail)| RandCase { base: Case { role, scenario: 255, cut: 255, byte: None, cause, hold_stop, stop_fail: stop_fail && !hold_stop }, limit, write_hw, ops })
        .boxed()
}

pub fn check_case(c: &Case) -> Result<CaseInfo, Failure> {
    run_isolated("C07", *c, &run_case)
}

pub fn check_rand(c: &RandCase) -> Result<CaseInfo, Failure> {
    run_isolated("C07", c.clone(), &run_rand)
}

/// The connection ends while the application's handshake service is still deciding; the handshake then accepts.
/// An accepted connection is a connection: its control service is told exactly once that the peer is gone, and the
/// connection task finishes.
#[derive(Clone, Copy, Debug, PartialEq, Eq, Hash, Serialize, Deserialize)]
pub struct HsCase {
    pub role: Role,
    /// 0 = the peer closes, 1 = read error
    pub how: u8,
    /// a publish is pipelined behind the CONNECT
    pub pipelined: bool,
}

pub async fn run_hs(x: HsCase) -> Result<CaseInfo, Failure> {
    use crate::bed::any::{Cfg, Eut};
    use crate::spec::v5::{self as s5, P5};
    let ff = |rule: &str, detail: String| Failure::new(rule, format!("C07/{}/{rule}", x.role.name()), detail);
    let cfg = Cfg::default();
    let eut = Eut::start(x.role, &cfg).await;
    let app = eut.app().clone();
    app.hold(G_HS, 0);
    let connect = if x.role.is_v5() { P5::Connect(Box::new(cfg.v5.connect.clone())) } else { crate::bed::any::up(&crate::spec::v3::P3::Connect(Box::new(cfg.v3.connect.clone()))) };
    let mut bytes = eut.encode(&connect, &[]);
    if x.pipelined {
        bytes.extend(eut.encode(&P5::Publish(Box::new(s5::Publish5 { qos: 0, topic: "t/a".into(), payload_len: 1, ..Default::default() })), &[1]));
    }
    eut.peer().send(&bytes);
    eut.settle().await;
    // the peer goes away while the handshake service is thinking
    if x.how == 0 {
        eut.peer().close();
    } else {
        eut.peer().read_error();
    }
    eut.settle().await;
    if !app.stops().is_empty() {
        return Err(ff("stop-before-handshake-completed", format!("the control service saw {:?} before the handshake service had accepted the connection", app.stops())));
    }
    app.open(G_HS, 0);
    eut.settle().await;
    app.open_all();
    eut.settle().await;
    let accepted = app.events().iter().any(|e| matches!(e, Ev::Handshake));
    if !accepted {
        // the library dropped the connection without asking / before the handshake service returned: nothing was accepted
        eut.finish().await;
        return Ok(CaseInfo::trivial().label("handshake-not-accepted"));
    }
    let stops = app.stops();
    if stops.len() != 1 {
        return Err(Failure::new(
            "stop-count",
            format!("C07/{}/stop-count/{}", x.role.name(), stops.len().min(2)),
            format!("the peer went away ({}) while the handshake service was running, the handshake service then accepted the connection: the control service of that connection saw {} Stop notifications {stops:?}; events {:?}", if x.how == 0 { "close" } else { "read error" }, stops.len(), brief_events(&app.events())),
        ));
    }
    if class_of(&stops[0]) != Class::Gone {
        return Err(ff("stop-class", format!("expected a peer-gone stop, the control service saw {:?}", stops[0])));
    }
    eut.finish().await;
    if eut.done().is_none() {
        return Err(ff("connection-task-not-finished", format!("the connection task has not finished; stops {stops:?}")));
    }
    Ok(CaseInfo::nontrivial(&x).label("peer-gone-during-handshake"))
}

pub fn hs_cases() -> Vec<HsCase> {
    let mut out = Vec::new();
    for role in [Role::V3Server, Role::V5Server] {
        for how in 0..2u8 {
            for pipelined in [false, true] {
                out.push(HsCase { role, how, pipelined });
            }
        }
    }
    out
}

pub fn run(ctx: &Ctx, started: Instant) -> i32 {
    let thorough = ctx.tier == Tier::Thorough;
    let cases = all_cases(thorough);
    let total = cases.len();
    let stats = par_shards(WORKERS, |shard| {
        let mut st = Stats::default();
        let mine: Vec<Case> = cases.iter().enumerate().filter(|(i, _)| i % WORKERS == shard).map(|(_, c)| *c).collect();
        run_list_bed("C07", mine, &mut st, |c| json!({"case": c}), run_case);
        st
    });
    let per_shard = ctx.tier.pick(8_000u32, 100_000);
    let rnd = par_shards(WORKERS, |shard| {
        let mut st = Stats::default();
        run_proptest_bed("C07", ctx.sub_seed("rand", shard), per_shard, &rand_strategy(Role::ALL[shard % 4]), &mut st, |c| json!({"rand": c}), run_rand);
        st
    });
    let mut stats = stats;
    stats.merge(rnd);
    {
        let mut st = Stats::default();
        run_list_bed("C07", hs_cases(), &mut st, |x| json!({"hs": x}), run_hs);
        stats.merge(st);
    }
    let names: Vec<&str> = (0..SCENARIOS as u8).map(|k| scenario(k, Role::V5Server).0).collect();
    let report = Report {
        level: "fault_enumeration",
        rule: format!(
            "grid of {total} cases: base scenarios {names:?} x every step index (cause injected after 0..n steps) x causes {{peer close, read error, write error, malformed Remaining Length, frame above the inbound maximum, unsolicited PUBACK, packet type the role never receives, \
             failing publish handler (at once, after having been suspended while older handlers still run, or as the oldest pending one with a newer handler still running), control service failing on a back-pressure notification, application close / force_close (v5 also close_with_reason / close_with_no_reason), peer DISCONNECT; v5: unknown topic alias; v3 server: PUBREL with unknown id, duplicate QoS 1 id; \
             servers: failing protocol handler; servers, after the last step of each scenario, in real time: keep-alive expiry (handshake keep-alive 1 s, silent peer); clients with keep-alive 1 s, in real time: application close with a teardown of 1.3 s}} x Stop notification handled at once / held open / answered with an error x four roles; for peer close and read error additionally every byte offset 1..39 inside the inbound packet being delivered (quick: scenarios 0-2 and 7; thorough: all). \
             Oracle: exactly one Stop of the class the cause demands (protocol / application error / peer gone; a cause that cannot take effect because its bytes land in an owed payload or nothing is written falls back to a peer close), no control call after it, every owned \
             send/ready/release/chunk future resolved, no clean end of an incomplete payload, every handler finished or dropped and none dropped before the held Stop was handled, connection task finished, no panic. \
             In addition: the peer going away while the handshake service is still deciding, the handshake then accepting (servers). And proptest-generated base histories of 2..17 sink / inbound operations (the operation set of C08 without closes) on send windows 1..3, ended by a generated cause, under the same oracle. \
             Non-trivial = a handler, future or payload reader was pending (or a packet half delivered) when the fault landed; distinct = grid cell / (cause, history)"
        ),
        exhaustive: true,
        assumptions: vec![
            "keep-alive expiry is covered by C20 (real time)".into(),
            "write errors are noticed by the transport only at the next write: such cases are completed by a peer close and may report peer-gone".into(),
        ],
        extra: BTreeMap::new(),
    };
    finish(ctx, started, stats, report)
}

pub fn replay(path: &str) -> i32 {
    let case = super::load_case(path);
    if !case["rand"].is_null() {
        let res = serde_json::from_value::<RandCase>(case["rand"].clone()).map_err(|e| e.to_string()).map(|c| run_isolated("C07", c, &run_rand));
        return super::report_replay("C07", path, res);
    }
    if !case["hs"].is_null() {
        let res = serde_json::from_value::<HsCase>(case["hs"].clone()).map_err(|e| e.to_string()).map(|c| run_isolated("C07", c, &run_hs));
        return super::report_replay("C07", path, res);
    }
    let res = serde_json::from_value::<Case>(case["case"].clone()).map_err(|e| e.to_string()).map(|c| check_case(&c));
    super::report_replay("C07", path, res)
}

#[allow(dead_code)]
fn _unused(_: SendRes) {}
