//! One module per property.
use std::time::Instant;

use crate::runner::Ctx;

pub mod c01;
pub mod c02;
pub mod c03;
pub mod c04;
pub mod c05;
pub mod c06;
pub mod c07;
pub mod c08;
pub mod c09;
pub mod c10;
pub mod c11;
pub mod c12;
pub mod c13;
pub mod c14;
pub mod c15;
pub mod c16;
pub mod c17;
pub mod c10_conn;
pub mod c18;
pub mod c19;
pub mod c20;
pub mod smoke;

pub struct Entry {
    pub id: &'static str,
    pub run: fn(&Ctx, Instant) -> i32,
    pub replay: fn(&str) -> i32,
}

pub const REGISTRY: &[Entry] = &[
    Entry { id: "C01", run: c01::run, replay: c01::replay },
    Entry { id: "C02", run: c02::run, replay: c02::replay },
    Entry { id: "C03", run: c03::run, replay: c03::replay },
    Entry { id: "C04", run: c04::run, replay: c04::replay },
    Entry { id: "C05", run: c05::run, replay: c05::replay },
    Entry { id: "C06", run: c06::run, replay: c06::replay },
    Entry { id: "C07", run: c07::run, replay: c07::replay },
    Entry { id: "C08", run: c08::run, replay: c08::replay },
    Entry { id: "C09", run: c09::run, replay: c09::replay },
    Entry { id: "C10", run: c10::run, replay: c10::replay },
    Entry { id: "SMOKE", run: smoke::run, replay: smoke::replay },
    Entry { id: "C11", run: c11::run, replay: c11::replay },
    Entry { id: "C12", run: c12::run, replay: c12::replay },
    Entry { id: "C13", run: c13::run, replay: c13::replay },
    Entry { id: "C14", run: c14::run, replay: c14::replay },
    Entry { id: "C15", run: c15::run, replay: c15::replay },
    Entry { id: "C16", run: c16::run, replay: c16::replay },
    Entry { id: "C17", run: c17::run, replay: c17::replay },
    Entry { id: "C18", run: c18::run, replay: c18::replay },
    Entry { id: "C19", run: c19::run, replay: c19::replay },
    Entry { id: "C20", run: c20::run, replay: c20::replay },
];

/// read the `case` member of a replay file
pub fn load_case(path: &str) -> serde_json::Value {
    let text = match std::fs::read_to_string(path) {
        Ok(t) => t,
        Err(e) => {
            eprintln!("cannot read replay {path}: {e}");
            std::process::exit(2);
        }
    };
    let v: serde_json::Value = match serde_json::from_str(&text) {
        Ok(v) => v,
        Err(e) => {
            eprintln!("cannot parse replay {path}: {e}");
            std::process::exit(2);
        }
    };
    v.get("case").cloned().unwrap_or(v)
}

/// common tail of the `replay` entry points
pub fn report_replay(
    id: &str,
    path: &str,
    res: Result<Result<crate::runner::CaseInfo, crate::runner::Failure>, String>,
) -> i32 {
    match res {
        Err(e) => {
            eprintln!("cannot replay {path}: {e}");
            2
        }
        Ok(Ok(_)) => {
            println!("{id} replay: property holds on this case");
            0
        }
        Ok(Err(f)) => {
            let known = crate::runner::load_known(id);
            if let Some(k) = known.iter().find(|k| k.signature == f.signature) {
                println!("KNOWN-FINDING: property={id} {} [signature={}]", k.what, k.signature);
                return 0;
            }
            println!("  failing: signature={} :: {}", f.signature, f.detail);
            println!("VIOLATION property={id} replay={path}");
            1
        }
    }
}
