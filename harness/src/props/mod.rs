//! One module per property.
use std::time::Instant;

use crate::runner::Ctx;

pub mod c18;

pub struct Entry {
    pub id: &'static str,
    pub run: fn(&Ctx, Instant) -> i32,
    pub replay: fn(&str) -> i32,
}

pub const REGISTRY: &[Entry] = &[
    Entry { id: "C18", run: c18::run, replay: c18::replay },
];

/// read the `case` member of a replay file
pub fn load_case(path: &str) -> serde_json::Value {
    let text = match std::fs::read_to_string(path) {
        Ok(t) => t,
        Err(e) => {
            eprintln!("cannot read replay {path}: {e}");
            std::process::exit(2);
        }
    };
    let v: serde_json::Value = match serde_json::from_str(&text) {
        Ok(v) => v,
        Err(e) => {
            eprintln!("cannot parse replay {path}: {e}");
            std::process::exit(2);
        }
    };
    v.get("case").cloned().unwrap_or(v)
}
