//! C19 — handshake gate, version routing, and negotiated limits are the ones
//! enforced.  (a) first packets x fragmentations of the first 16 bytes against
//! v3-only, v5-only and the combined server; (b) handshake outcomes; (c) limit
//! tuples (configured x requested x overridden), each probed by behaviour.

use std::cell::RefCell;
use std::collections::BTreeMap;
use std::rc::Rc;
use std::time::Instant;

use ntex::service::{Pipeline, ServiceFactory, cfg::SharedCfg, fn_service};
use ntex_io::{Io, IoBoxed};
use ntex_mqtt::{v3, v5};
use proptest::prelude::*;
use serde::{Deserialize, Serialize};
use serde_json::json;

use crate::bed::any::{Cfg, Eut};
use crate::bed::v5::{SendKind, SendSpec, parse_wire};
use crate::bed::*;
use crate::conv;
use crate::runner::*;
use crate::spec::v3::{self as s3, P3};
use crate::spec::v5::{self as s5, P5};

// ---------------------------------------------------------------------------------------------
// (a) gate and routing
// ---------------------------------------------------------------------------------------------

#[derive(Clone, Copy, Debug, PartialEq, Eq, Hash, Serialize, Deserialize)]
pub enum Srv {
    V3Only,
    V5Only,
    Combined,
}

#[derive(Clone, Copy, Debug, PartialEq, Eq, Hash, Serialize, Deserialize)]
pub enum First {
    /// CONNECT with protocol name variant (0 "MQTT", 1 "MQTt", 2 "MQIsdp", 3 "", 4 "MQTTX"), level byte, reserved flag
    Connect { name: u8, level: u8, reserved: bool },
    /// the k-th non-CONNECT packet template in v3 (false) / v5 (true) encoding
    Other { v5: bool, k: u8 },
}

#[derive(Clone, Debug, PartialEq, Eq, Hash, Serialize, Deserialize)]
pub struct GateCase {
    pub srv: Srv,
    pub first: First,
    /// bit i set = cut after byte i+1 of the stream (first 16 bytes only)
    pub cuts: u16,
    /// a PUBLISH follows the first packet in the same stream
    pub pipelined: bool,
    /// combined server with `protocol_version_timeout(0)` (= no limit) and 1.2 s of real time between the first piece of
    /// the stream and the rest: the late CONNECT is still routed
    #[serde(default)]
    pub late: bool,
}

type Log = Rc<RefCell<Vec<String>>>;

#[derive(Debug)]
struct E19;
impl From<()> for E19 {
    fn from(_: ()) -> Self {
        E19
    }
}
impl TryFrom<E19> for v5::PublishAck {
    type Error = E19;
    fn try_from(e: E19) -> Result<Self, E19> {
        Err(e)
    }
}

type CombinedPipeline = Pipeline<ntex::service::boxed::BoxService<IoBoxed, (), ntex_mqtt::MqttError<E19>>>;

async fn combined(log: Log, no_version_timeout: bool) -> CombinedPipeline {
    let (l3, l3p, l5, l5p) = (log.clone(), log.clone(), log.clone(), log.clone());
    let srv = ntex_mqtt::MqttServer::new()
        .v3(v3::MqttServer::new(move |h: v3::Handshake| {
            let l = l3.clone();
            async move {
                let c = conv::from_lib3(&v3::codec::Packet::Connect(Box::new(h.packet().clone())));
                l.borrow_mut().push(format!("hs3:{}", serde_json::to_string(&c).unwrap()));
                Ok::<_, E19>(h.ack((), false))
            }
        })
        .publish(fn_service(move |p: v3::Publish| {
            let l = l3p.clone();
            async move {
                let data = p.read_all().await.map(|b| b.to_vec()).unwrap_or_default();
                l.borrow_mut().push(format!("pub3:{}:{}", p.packet().topic, crate::props::c02::to_hex(&data)));
                Ok::<_, E19>(())
            }
        })))
        .v5(v5::MqttServer::new(move |h: v5::Handshake| {
            let l = l5.clone();
            async move {
                let c = conv::from_lib5(&v5::codec::Packet::Connect(Box::new(h.packet().clone())));
                l.borrow_mut().push(format!("hs5:{}", serde_json::to_string(&c).unwrap()));
                Ok::<_, E19>(h.ack(()))
            }
        })
        .publish(fn_service(move |p: v5::Publish| {
            let l = l5p.clone();
            async move {
                let data = p.read_all().await.map(|b| b.to_vec()).unwrap_or_default();
                l.borrow_mut().push(format!("pub5:{}:{}", p.packet().topic, crate::props::c02::to_hex(&data)));
                Ok::<_, E19>(p.ack())
            }
        })));
    let shared: SharedCfg = crate::bed::v5::Cfg5 { protocol_version_timeout: no_version_timeout.then_some(0), ..Default::default() }.shared();
    let svc = ServiceFactory::<IoBoxed, SharedCfg>::create(&srv, shared).await.expect("combined server factory");
    Pipeline::new(ntex::service::boxed::service(svc))
}

fn connect_bytes(first: First) -> (Vec<u8>, Option<u8>) {
    // returns the bytes and, for a CONNECT the standards accept, its protocol level
    match first {
        First::Connect { name, level, reserved } => {
            let nm: &[u8] = match name {
                0 => b"MQTT",
                1 => b"MQTt",
                2 => b"MQIsdp",
                3 => b"",
                _ => b"MQTTX",
            };
            let mut body = Vec::new();
            body.extend_from_slice(&(nm.len() as u16).to_be_bytes());
            body.extend_from_slice(nm);
            body.push(level);
            body.push(0x02 | u8::from(reserved)); // clean session / clean start (+ reserved bit 0)
            body.extend_from_slice(&[0, 60]); // keep alive
            if level == 5 {
                body.push(0); // no properties
            }
            body.extend_from_slice(&[0, 3, b'c', b'1', b'9']);
            let mut out = vec![0x10];
            crate::spec::wire::put_varint(&mut out, body.len() as u32);
            out.extend_from_slice(&body);
            let valid = name == 0 && !reserved && (level == 4 || level == 5);
            (out, valid.then_some(level))
        }
        First::Other { v5, k } => {
            let t = crate::props::c16::templates(v5);
            let others: Vec<&(&'static str, Vec<u8>)> = t.iter().filter(|(n, b)| *n != "CONNECT" && *n != "CONNECT-odd" && !b.is_empty() && *n != "payload-tail").collect();
            (others[usize::from(k) % others.len()].1.clone(), None)
        }
    }
}

fn gfail(c: &GateCase, rule: &str, detail: String) -> Failure {
    Failure::new(rule, format!("C19/gate/{:?}/{rule}", c.srv), detail)
}

pub async fn run_gate(c: GateCase) -> Result<CaseInfo, Failure> {
    let (first, level) = connect_bytes(c.first);
    let mut stream = first.clone();
    // the pipelined PUBLISH in the encoding the CONNECT selects (QoS 0, topic "p", payload "xy")
    if c.pipelined {
        match level {
            Some(5) => stream.extend_from_slice(&s5::encode(&P5::Publish(Box::new(s5::Publish5 { topic: "p".into(), payload_len: 2, ..Default::default() })), b"xy", &s5::Layout::default())),
            _ => stream.extend_from_slice(&s3::encode(&P3::Publish(s3::Publish3 { topic: "p".into(), payload_len: 2, ..Default::default() }), b"xy")),
        }
    }
    let cut_at: Vec<usize> = (0..15).filter(|i| c.cuts >> i & 1 == 1).map(|i| i + 1).filter(|x| *x < stream.len()).collect();
    // --- run
    let log: Log = Rc::new(RefCell::new(Vec::new()));
    let app = App::new();
    let (peer, done, hs_seen, pubs_seen, out);
    match c.srv {
        Srv::Combined => {
            let pl = combined(log.clone(), c.late).await;
            let (p, server_io) = Peer::pair();
            let io = Io::new(server_io, crate::bed::v5::Cfg5::default().shared());
            let d = Rc::new(Done::default());
            let d2 = d.clone();
            ntex::rt::spawn(async move {
                let r = pl.call(IoBoxed::from(io)).await;
                *d2.0.borrow_mut() = Some(format!("{r:?}"));
            });
            let l2 = log.clone();
            let extra = move || l2.borrow().len();
            let mut at = 0;
            for (k, cut) in cut_at.iter().chain(std::iter::once(&stream.len())).enumerate() {
                p.send(&stream[at..*cut]);
                at = *cut;
                settle(&Watch { peer: &p, app: &app, done: &d, extra: &extra }).await;
                if c.late && k == 0 {
                    ntex::time::sleep(ntex::time::Millis(1200)).await;
                }
            }
            settle(&Watch { peer: &p, app: &app, done: &d, extra: &extra }).await;
            let l = log.borrow();
            hs_seen = l.iter().filter(|e| e.starts_with("hs")).cloned().collect::<Vec<_>>();
            pubs_seen = l.iter().filter(|e| e.starts_with("pub")).cloned().collect::<Vec<_>>();
            p.pump();
            out = p.wire.borrow().clone();
            done = d.is_done() || p.endpoint_closed();
            peer = p;
        }
        Srv::V3Only | Srv::V5Only => {
            let role = if c.srv == Srv::V3Only { Role::V3Server } else { Role::V5Server };
            let cfg = Cfg::default();
            let eut = Eut::start(role, &cfg).await;
            let mut at = 0;
            for cut in cut_at.iter().chain(std::iter::once(&stream.len())) {
                eut.peer().send(&stream[at..*cut]);
                at = *cut;
                eut.settle().await;
            }
            eut.settle().await;
            let ev = eut.app().events();
            hs_seen = ev.iter().filter(|e| matches!(e, Ev::Handshake)).map(|_| if c.srv == Srv::V3Only { "hs3:".to_owned() } else { "hs5:".to_owned() }).collect();
            pubs_seen = ev.iter().filter_map(|e| if let Ev::PubRead { data, .. } = e { Some(format!("pub{}:p:{}", if c.srv == Srv::V3Only { 3 } else { 5 }, crate::props::c02::to_hex(data))) } else { None }).collect();
            let handlers = ev.iter().filter(|e| matches!(e, Ev::PubEnter { .. } | Ev::CtlEnter { .. })).count();
            if handlers != pubs_seen.len() {
                return Err(gfail(&c, "handler-before-accept", format!("{handlers} handler invocations, {} publishes read; events {:?}", pubs_seen.len(), crate::props::c03::brief_log(&ev))));
            }
            eut.peer().pump();
            out = eut.peer().wire.borrow().clone();
            done = eut.done().is_some() || eut.peer().endpoint_closed();
            eut.finish().await;
            let (p, _) = Peer::pair();
            peer = p;
        }
    }
    let _ = &peer;
    // --- judge
    let served = |lvl: u8| match (c.srv, lvl) {
        (Srv::Combined, 4 | 5) => true,
        (Srv::V3Only, 4) | (Srv::V5Only, 5) => true,
        _ => false,
    };
    let describe = || format!("first packet {:?} ({}), cuts {:?}, pipelined {}; handshakes {hs_seen:?}; publishes {pubs_seen:?}; written {}; ended {done}", c.first, crate::props::c02::to_hex(&first), cut_at, c.pipelined, crate::props::c02::to_hex(&out[..out.len().min(24)]));
    // the first packet written, if any
    let (wire5, _) = parse_wire(&out);
    let success_connack = match level {
        Some(5) => wire5.first().is_some_and(|w| matches!(&w.pkt, P5::ConnAck(a) if a.reason == 0)),
        _ => out.len() >= 4 && out[0] == 0x20 && out[1] == 2 && out[3] == 0,
    };
    match level {
        Some(lvl) if served(lvl) => {
            let want = if lvl == 4 { "hs3:" } else { "hs5:" };
            if hs_seen.len() != 1 || !hs_seen[0].starts_with(want) {
                return Err(Failure::new("wrong-protocol-service", format!("C19/gate/{:?}/wrong-protocol-service", c.srv), format!("a valid CONNECT with protocol level {lvl} must reach exactly the matching handshake service; {}", describe())));
            }
            if c.srv == Srv::Combined {
                // nothing lost or duplicated by the version peek: the CONNECT seen is the one sent
                let seen = &hs_seen[0][4..];
                let ok = if lvl == 4 {
                    serde_json::from_str::<P3>(seen).ok().is_some_and(|p| matches!(p, P3::Connect(c) if c.client_id == "c19" && c.keep_alive == 60 && c.clean_session))
                } else {
                    serde_json::from_str::<P5>(seen).ok().is_some_and(|p| matches!(p, P5::Connect(c) if c.client_id == "c19" && c.keep_alive == 60 && c.clean_start))
                };
                if !ok {
                    return Err(gfail(&c, "connect-altered", format!("the handshake service saw a different CONNECT: {seen}; {}", describe())));
                }
            }
            if !success_connack || done {
                return Err(gfail(&c, "accept-not-acknowledged", format!("accepted CONNECT: success CONNACK {success_connack}, connection ended {done}; {}", describe())));
            }
            if c.pipelined {
                let want_pub = format!("pub{}:p:7879", if lvl == 4 { 3 } else { 5 });
                if pubs_seen != vec![want_pub.clone()] {
                    return Err(Failure::new("pipelined-bytes-lost", format!("C19/gate/{:?}/pipelined-bytes-lost", c.srv), format!("the PUBLISH sent right behind the CONNECT must be handled once with its payload ({want_pub}); {}", describe())));
                }
            } else if !pubs_seen.is_empty() {
                return Err(gfail(&c, "handler-before-accept", describe()));
            }
        }
        _ => {
            // not acceptable: no handshake service, no handler, no success CONNACK, connection ends
            if !hs_seen.is_empty() {
                return Err(Failure::new("handshake-for-bad-first-packet", format!("C19/gate/{:?}/handshake-for-bad-first-packet", c.srv), format!("the handshake service ran for an unacceptable first packet; {}", describe())));
            }
            if !pubs_seen.is_empty() {
                return Err(Failure::new("handler-before-accept", format!("C19/gate/{:?}/handler-before-accept", c.srv), format!("a handler ran although no CONNECT was accepted; {}", describe())));
            }
            if success_connack {
                return Err(gfail(&c, "success-connack-for-bad-first-packet", describe()));
            }
            if !done {
                return Err(Failure::new("bad-first-packet-not-ended", format!("C19/gate/{:?}/bad-first-packet-not-ended", c.srv), format!("the connection is still open; {}", describe())));
            }
        }
    }
    let plain = matches!(c.first, First::Connect { name: 0, level: 4 | 5, reserved: false });
    let nt = !plain || cut_at.iter().any(|x| *x < 12);
    let mut info = if nt { CaseInfo::nontrivial(&(c.srv, c.first, c.cuts & 0x0FFF, c.pipelined)) } else { CaseInfo::trivial() };
    info.labels.push("gate");
    if !cut_at.is_empty() {
        info.labels.push("gate-fragmented-first-bytes");
    }
    if level.is_some_and(served) {
        info.labels.push("gate-accepted");
    } else {
        info.labels.push("gate-refused");
    }
    Ok(info)
}

fn firsts() -> Vec<First> {
    let mut v = Vec::new();
    for name in 0..5u8 {
        for level in [0u8, 3, 4, 5, 6, 0x84] {
            for reserved in [false, true] {
                v.push(First::Connect { name, level, reserved });
            }
        }
    }
    for v5 in [false, true] {
        let n = crate::props::c16::templates(v5).iter().filter(|(n, b)| *n != "CONNECT" && *n != "CONNECT-odd" && !b.is_empty() && *n != "payload-tail").count();
        for k in 0..n as u8 {
            v.push(First::Other { v5, k });
        }
    }
    v
}

// ---------------------------------------------------------------------------------------------
// (b) handshake outcomes
// ---------------------------------------------------------------------------------------------

#[derive(Clone, Copy, Debug, PartialEq, Eq, Hash, Serialize, Deserialize)]
pub struct OutcomeCase {
    pub role: Role,
    /// 0 accept, 1 refuse (code below), 2 handshake service error
    pub outcome: u8,
    pub code: u8,
    /// the handshake service is slow: the PUBLISH pipelined behind the CONNECT arrives while it runs
    pub slow: bool,
}

pub async fn run_outcome(c: OutcomeCase) -> Result<CaseInfo, Failure> {
    let ff = |rule: &str, detail: String| Failure::new(rule, format!("C19/outcome/{}/{rule}", c.role.name()), detail);
    let v5 = c.role.is_v5();
    let mut cfg = Cfg::default();
    match c.outcome {
        1 => {
            cfg.v3.hs = crate::bed::v3::Hs3::Refuse(c.code);
            cfg.v5.hs = crate::bed::v5::Hs5::Refuse(c.code);
        }
        2 => {
            cfg.v3.hs = crate::bed::v3::Hs3::Fail;
            cfg.v5.hs = crate::bed::v5::Hs5::Fail;
        }
        _ => {}
    }
    let eut = Eut::start(c.role, &cfg).await;
    let app = eut.app().clone();
    if c.slow {
        app.hold(G_HS, 0);
    }
    // CONNECT and a PUBLISH right behind it
    let connect = if v5 { P5::Connect(Box::new(cfg.v5.connect.clone())) } else { crate::bed::any::up(&P3::Connect(Box::new(cfg.v3.connect.clone()))) };
    let mut bytes = eut.encode(&connect, &[]);
    bytes.extend(eut.encode(&P5::Publish(Box::new(s5::Publish5 { topic: "t/a".into(), qos: 1, pid: Some(1), payload_len: 1, ..Default::default() })), &[5]));
    eut.peer().send(&bytes);
    eut.settle().await;
    if c.slow {
        let ev = app.events();
        if ev.iter().any(|e| matches!(e, Ev::PubEnter { .. } | Ev::CtlEnter { .. })) {
            return Err(Failure::new("handler-before-accept", format!("C19/outcome/{}/handler-before-accept", c.role.name()), format!("a handler ran while the handshake service was still deciding; events {:?}", crate::props::c03::brief_log(&ev))));
        }
        eut.peer().pump();
        if !eut.peer().wire.borrow().is_empty() {
            return Err(ff("written-before-accept", format!("bytes were written before the handshake service answered: {}", crate::props::c02::to_hex(&eut.peer().wire.borrow()))));
        }
        app.open(G_HS, 0);
        eut.settle().await;
    }
    let ev = app.events();
    let (pk, _) = eut.packets();
    let handled = ev.iter().filter(|e| matches!(e, Ev::PubEnter { .. })).count();
    let describe = || format!("written {:?}; events {:?}; done {:?}", pk.iter().map(|w| format!("{:?}", w.pkt)).collect::<Vec<_>>(), crate::props::c03::brief_log(&ev), eut.done());
    match c.outcome {
        0 => {
            let ok = matches!(pk.first().map(|w| &w.pkt), Some(P5::ConnAck(a)) if a.reason == 0);
            if !ok || handled != 1 || !pk.iter().any(|w| matches!(&w.pkt, P5::PubAck(a) if a.pid == 1)) {
                return Err(ff("accept", format!("accepted handshake: CONNACK first and the pipelined PUBLISH handled and acknowledged exactly once expected; {}", describe())));
            }
            // CONNACK before the PUBACK
            if !matches!(pk.get(1).map(|w| &w.pkt), Some(P5::PubAck(_))) {
                return Err(ff("accept-order", describe()));
            }
        }
        1 => {
            // the first and only packet is the refusing CONNACK, then the connection closes
            let only_refusal = pk.len() == 1 && matches!(&pk[0].pkt, P5::ConnAck(a) if a.reason != 0);
            if !only_refusal || handled != 0 {
                return Err(Failure::new("refusal", format!("C19/outcome/{}/refusal", c.role.name()), format!("refused handshake (code {:#x}): exactly one refusing CONNACK and no handler expected; {}", c.code, describe())));
            }
            eut.peer().close();
            eut.settle().await;
            if eut.done().is_none() {
                return Err(ff("refusal-not-closed", describe()));
            }
        }
        _ => {
            if handled != 0 || pk.iter().any(|w| matches!(&w.pkt, P5::ConnAck(a) if a.reason == 0)) {
                return Err(ff("handshake-error", format!("failing handshake service: no handler and no success CONNACK expected; {}", describe())));
            }
            if eut.done().is_none() && !eut.peer().endpoint_closed() {
                return Err(ff("handshake-error-not-ended", describe()));
            }
        }
    }
    eut.finish().await;
    let mut info = CaseInfo::nontrivial(&c).label("outcome");
    if c.slow {
        info.labels.push("outcome-slow-handshake");
    }
    Ok(info)
}

// ---------------------------------------------------------------------------------------------
// (c) limits
// ---------------------------------------------------------------------------------------------

#[derive(Clone, Copy, Debug, PartialEq, Eq, Hash, Serialize, Deserialize)]
pub struct LimitCase {
    pub role: Role,
    // configured (MqttServiceConfig)
    pub max_qos: u8,
    pub max_size: u32,
    pub max_receive: u16,
    pub max_alias: u16,
    pub max_send: u16,
    // requested by the peer (CONNECT for servers, CONNACK for clients)
    pub keep_alive: u16,
    pub peer_receive_max: Option<u16>,
    pub peer_max_packet: Option<u32>,
    // handshake overrides (servers)
    pub hs_keep_alive: Option<u16>,
    pub hs_max_send: Option<u16>,
    /// values the handshake service writes into the CONNACK (v5 server, `HandshakeAck::with`); the maximum packet size
    /// also through `HandshakeAck::max_packet_size` of the v3 server.  The limits in force are these, not the configured ones
    #[serde(default)]
    pub ov_max_qos: Option<u8>,
    #[serde(default)]
    pub ov_receive_max: Option<u16>,
    #[serde(default)]
    pub ov_alias: Option<u16>,
    #[serde(default)]
    pub ov_max_size: Option<u32>,
    /// which limit is probed: 0 CONNACK contents + send window, 1 inbound size, 2 QoS, 3 alias, 4 Receive Maximum, 5 outbound packet size
    pub probe: u8,
}

fn lfail(c: &LimitCase, rule: &str, detail: String) -> Failure {
    Failure::new(rule, format!("C19/limit/{}/{rule}", c.role.name()), format!("{detail}; case {c:?}"))
}

pub async fn run_limit(c: LimitCase) -> Result<CaseInfo, Failure> {
    let v5 = c.role.is_v5();
    let server = c.role.is_server();
    let mut cfg = Cfg::default();
    cfg.v3.max_qos = c.max_qos;
    cfg.v5.max_qos = c.max_qos;
    cfg.v3.max_size = c.max_size;
    cfg.v5.max_size = c.max_size;
    cfg.v3.max_receive = c.max_receive;
    cfg.v5.max_receive = c.max_receive;
    cfg.v5.max_topic_alias = c.max_alias;
    cfg.v3.max_send = c.max_send;
    cfg.v5.max_send = c.max_send;
    cfg.v3.connect.keep_alive = c.keep_alive;
    cfg.v5.connect.keep_alive = c.keep_alive;
    if server {
        cfg.v5.connect.receive_max = c.peer_receive_max;
        cfg.v5.connect.max_packet_size = c.peer_max_packet;
        cfg.v5.hs = crate::bed::v5::Hs5::Accept { keep_alive: c.hs_keep_alive, max_send: c.hs_max_send };
        cfg.v3.hs = crate::bed::v3::Hs3::Accept { idle_timeout: c.hs_keep_alive, max_send: c.hs_max_send, session_present: false };
        if c.ov_max_qos.is_some() || c.ov_receive_max.is_some() || c.ov_alias.is_some() || c.ov_max_size.is_some() {
            cfg.v5.hs_with = Some(crate::bed::v5::Override5 { max_qos: c.ov_max_qos, receive_max: c.ov_receive_max, topic_alias_max: c.ov_alias, max_packet_size: c.ov_max_size, session_expiry: None });
        }
        cfg.v3.hs_max_packet = c.ov_max_size.filter(|m| *m != 0);
    } else {
        // client: its own inbound limits travel in its CONNECT; the server's come back in CONNACK
        cfg.v5.connect.receive_max = (c.max_receive != 0).then_some(c.max_receive);
        cfg.v5.connect.max_packet_size = (c.max_size != 0).then_some(c.max_size);
        cfg.v5.connect.topic_alias_max = Some(c.max_alias);
        cfg.v5.connack.receive_max = c.peer_receive_max;
        cfg.v5.connack.max_packet_size = c.peer_max_packet;
    }
    let eut = Eut::start(c.role, &cfg).await;
    let hs = eut.handshake(&cfg).await;
    if eut.done().is_some() {
        return Err(lfail(&c, "harness-handshake", format!("{:?}", eut.done())));
    }
    // from here on `c` holds the limits in force: what the handshake wrote into the CONNACK wins over the configuration
    let configured = c;
    let c = LimitCase {
        max_qos: if v5 { c.ov_max_qos.unwrap_or(c.max_qos) } else { c.max_qos },
        max_receive: if v5 { c.ov_receive_max.unwrap_or(c.max_receive) } else { c.max_receive },
        max_alias: if v5 { c.ov_alias.unwrap_or(c.max_alias) } else { c.max_alias },
        max_size: if v5 { c.ov_max_size.unwrap_or(c.max_size) } else { c.ov_max_size.filter(|m| *m != 0).unwrap_or(c.max_size) },
        ..c
    };
    let overridden = c != configured;
    let app = eut.app().clone();
    let base = eut.packets().0.len();
    let publish = |qos: u8, pid: u16, len: u32| s5::Publish5 { topic: "t/a".into(), qos, pid: (qos > 0).then_some(pid), payload_len: len, ..Default::default() };
    let disconnect_code = |eut: &Eut| eut.packets().0.iter().skip(base).find_map(|w| if let P5::Disconnect(d) = &w.pkt { Some(d.reason) } else { None });
    let ended = |eut: &Eut| eut.done().is_some() || !eut.app().stops().is_empty() || eut.sink_open() == Some(false);
    let mut label = "limit-window";
    match c.probe % 6 {
        0 => {
            // ---- announced values and the send window
            if server && v5 {
                let Some(P5::ConnAck(a)) = hs.first().map(|w| &w.pkt) else { return Err(lfail(&c, "connack-missing", format!("{:?}", hs.first()))) };
                let want_rm = if c.max_receive == 0 { None } else { Some(c.max_receive) };
                let got_rm = a.receive_max.filter(|x| *x != 65_535);
                if got_rm != want_rm.filter(|x| *x != 65_535) {
                    return Err(lfail(&c, "connack-receive-maximum", format!("CONNACK Receive Maximum {:?}, configured {}", a.receive_max, c.max_receive)));
                }
                let want_q = (c.max_qos < 2).then_some(c.max_qos);
                if a.max_qos.filter(|q| *q < 2) != want_q {
                    return Err(lfail(&c, "connack-max-qos", format!("CONNACK Maximum QoS {:?}, configured {}", a.max_qos, c.max_qos)));
                }
                if a.topic_alias_max.unwrap_or(0) != c.max_alias {
                    return Err(lfail(&c, "connack-topic-alias-maximum", format!("CONNACK Topic Alias Maximum {:?}, configured {}", a.topic_alias_max, c.max_alias)));
                }
                if a.max_packet_size.unwrap_or(0) != c.max_size {
                    return Err(lfail(&c, "connack-maximum-packet-size", format!("CONNACK Maximum Packet Size {:?}, configured {}", a.max_packet_size, c.max_size)));
                }
                // an imposed keep-alive is announced
                match c.hs_keep_alive {
                    // (a client that switched keep-alive off gets the library's idle timeout unannounced: documented behaviour, not judged)
                    Some(k) if k < c.keep_alive => {
                        if a.server_keep_alive != Some(k) {
                            return Err(Failure::new("connack-server-keep-alive", format!("C19/limit/{}/connack-server-keep-alive", c.role.name()), format!("the handshake imposed keep-alive {k} (client asked {}), CONNACK Server Keep Alive is {:?}", c.keep_alive, a.server_keep_alive)));
                        }
                    }
                    Some(k) => {
                        if a.server_keep_alive.is_some_and(|x| x != k) {
                            return Err(lfail(&c, "connack-server-keep-alive", format!("override {k}, CONNACK announces {:?}", a.server_keep_alive)));
                        }
                    }
                    None => {
                        if a.server_keep_alive.is_some_and(|k| k != c.keep_alive) {
                            return Err(lfail(&c, "connack-server-keep-alive", format!("no override, client asked {}, CONNACK announces {:?}", c.keep_alive, a.server_keep_alive)));
                        }
                    }
                }
            }
            // send window: min(configured or overridden, peer's Receive Maximum)
            let own = if server { c.hs_max_send.unwrap_or(c.max_send) } else { c.max_send };
            let want = if v5 {
                match c.peer_receive_max {
                    Some(p) if server => own.min(p),
                    Some(p) => p,
                    None if server => own,
                    None => 65_535,
                }
            } else {
                own
            };
            if eut.credit() != Some(usize::from(want)) {
                return Err(Failure::new("send-window", format!("C19/limit/{}/send-window", c.role.name()), format!("send window after the handshake: credit() = {:?}, expected min(configured/overridden {own}, peer Receive Maximum {:?}) = {want}; case {c:?}", eut.credit(), c.peer_receive_max)));
            }
            if want < 40 {
                // behaviour: start want + 2 sends, exactly `want` reach the wire
                let mut futs = Vec::new();
                for i in 0..want + 2 {
                    let mut f = eut.send(SendSpec { kind: SendKind::Qos1, topic: format!("s/{i}"), payload: vec![1], pid: None, user_prop: None });
                    let waker = crate::props::c16::futures_noop_waker();
                    let mut cx = std::task::Context::from_waker(&waker);
                    let _ = f.as_mut().poll(&mut cx);
                    futs.push(f);
                }
                eut.settle().await;
                let n = eut.packets().0.iter().skip(base).filter(|w| matches!(&w.pkt, P5::Publish(p) if p.topic.starts_with("s/"))).count();
                if n != usize::from(want) {
                    return Err(lfail(&c, "send-window", format!("{} sends started, {n} PUBLISH frames on the wire, window {want}", want + 2)));
                }
                drop(futs);
            }
        }
        1 => {
            // ---- inbound maximum packet size (gray interval avoided: M-8 / M+8)
            label = "limit-inbound-size";
            if c.max_size == 0 && configured.max_size >= 40 {
                // the handshake service lifted the configured limit for this connection (CONNACK without Maximum Packet
                // Size): a frame above the configured value is handled
                let q = if server { c.max_qos.min(1) } else { 1 };
                let big = configured.max_size + 8;
                eut.peer_send(&P5::Publish(Box::new(publish(q, 1, big))), &vec![1; big as usize]);
                eut.settle().await;
                if app.pub_enters().len() != 1 || ended(&eut) {
                    return Err(Failure::new("inbound-size-too-strict", format!("C19/limit/{}/inbound-size-too-strict", c.role.name()), format!("the handshake lifted the configured limit of {} bytes (no Maximum Packet Size in CONNACK), yet a frame of more than {big} bytes was not handled: stops {:?}; case {c:?}", configured.max_size, app.stops())));
                }
                eut.finish().await;
                return Ok(CaseInfo::nontrivial(&c).label("limit").label("limit-inbound-size-lifted-by-handshake"));
            }
            if c.max_size == 0 || c.max_size < 40 {
                eut.finish().await;
                return Ok(CaseInfo::trivial());
            }
            let q = if server { c.max_qos.min(1) } else { 1 };
            let header = 5 + 2 * u32::from(q) + u32::from(v5); // topic(2+3) + pid (+ property length)
            let ok_len = c.max_size - 8 - header - 3;
            eut.peer_send(&P5::Publish(Box::new(publish(q, 1, ok_len))), &vec![1; ok_len as usize]);
            eut.settle().await;
            if app.pub_enters().len() != 1 || ended(&eut) {
                return Err(Failure::new("inbound-size-too-strict", format!("C19/limit/{}/inbound-size-too-strict", c.role.name()), format!("a frame of {} bytes (limit {}) was not handled: stops {:?}; case {c:?}", ok_len + header + 3, c.max_size, app.stops())));
            }
            let big = c.max_size + 8;
            eut.peer_send(&P5::Publish(Box::new(publish(q, 2, big))), &vec![2; big as usize]);
            eut.settle().await;
            if app.pub_enters().len() != 1 || !ended(&eut) {
                return Err(Failure::new("inbound-size-not-enforced", format!("C19/limit/{}/inbound-size-not-enforced", c.role.name()), format!("a frame of more than {} bytes (limit {}) was accepted (handlers {}, ended {}); case {c:?}", big, c.max_size, app.pub_enters().len(), ended(&eut))));
            }
            if v5 && disconnect_code(&eut) != Some(0x95) {
                return Err(lfail(&c, "inbound-size-code", format!("DISCONNECT reason {:?}, expected 0x95", disconnect_code(&eut))));
            }
        }
        2 => {
            // ---- maximum QoS (servers)
            label = "limit-max-qos";
            if !server {
                eut.finish().await;
                return Ok(CaseInfo::trivial());
            }
            let q = c.max_qos.min(2);
            eut.peer_send(&P5::Publish(Box::new(publish(q, 1, 1))), &[1]);
            eut.settle().await;
            if app.pub_enters().len() != 1 || ended(&eut) {
                return Err(lfail(&c, "max-qos-too-strict", format!("a publish with QoS {q} = maximum was not handled: stops {:?}", app.stops())));
            }
            if q < 2 {
                eut.peer_send(&P5::Publish(Box::new(publish(q + 1, 2, 1))), &[1]);
                eut.settle().await;
                if app.pub_enters().len() != 1 || !ended(&eut) {
                    return Err(Failure::new("max-qos-not-enforced", format!("C19/limit/{}/max-qos-not-enforced", c.role.name()), format!("a publish with QoS {} above the maximum {q} was accepted; case {c:?}", q + 1)));
                }
                if v5 && disconnect_code(&eut) != Some(0x9B) {
                    return Err(lfail(&c, "max-qos-code", format!("DISCONNECT reason {:?}, expected 0x9B", disconnect_code(&eut))));
                }
            }
        }
        3 => {
            // ---- topic alias maximum (v5)
            label = "limit-topic-alias";
            if !v5 {
                eut.finish().await;
                return Ok(CaseInfo::trivial());
            }
            if c.max_alias > 0 {
                eut.peer_send(&P5::Publish(Box::new(s5::Publish5 { topic_alias: Some(c.max_alias), ..publish(0, 0, 1) })), &[1]);
                eut.settle().await;
                if app.pub_enters().len() != 1 || ended(&eut) {
                    return Err(lfail(&c, "alias-too-strict", format!("alias = maximum {} was refused: stops {:?}", c.max_alias, app.stops())));
                }
            }
            let n = app.pub_enters().len();
            eut.peer_send(&P5::Publish(Box::new(s5::Publish5 { topic_alias: Some(c.max_alias + 1), ..publish(0, 0, 1) })), &[1]);
            eut.settle().await;
            if app.pub_enters().len() != n || !ended(&eut) {
                return Err(Failure::new("alias-not-enforced", format!("C19/limit/{}/alias-not-enforced", c.role.name()), format!("alias {} above the maximum {} was accepted; case {c:?}", c.max_alias + 1, c.max_alias)));
            }
        }
        4 => {
            // ---- Receive Maximum (v5): RM gated publishes accepted, one more refused with 0x93
            label = "limit-receive-maximum";
            if !v5 || c.max_receive == 0 || c.max_receive > 6 || (server && c.max_qos == 0) {
                eut.finish().await;
                return Ok(CaseInfo::trivial());
            }
            app.default_open.set(false);
            for i in 0..c.max_receive {
                eut.peer_send(&P5::Publish(Box::new(publish(1, 10 + i, 1))), &[1]);
            }
            eut.settle().await;
            if app.pub_enters().len() != usize::from(c.max_receive) || ended(&eut) {
                return Err(lfail(&c, "receive-maximum-too-strict", format!("{} publishes within Receive Maximum, {} handled, stops {:?}", c.max_receive, app.pub_enters().len(), app.stops())));
            }
            eut.peer_send(&P5::Publish(Box::new(publish(1, 99, 1))), &[1]);
            eut.settle().await;
            if app.pub_enters().len() != usize::from(c.max_receive) || disconnect_code(&eut) != Some(0x93) {
                return Err(Failure::new("receive-maximum-not-enforced", format!("C19/limit/{}/receive-maximum-not-enforced", c.role.name()), format!("publish number {} beyond Receive Maximum: handled {}, DISCONNECT {:?}; case {c:?}", c.max_receive + 1, app.pub_enters().len(), disconnect_code(&eut))));
            }
        }
        _ => {
            // ---- outbound maximum packet size = the peer's (v5)
            label = "limit-outbound-size";
            let Some(m) = c.peer_max_packet.filter(|m| *m >= 40 && v5) else {
                eut.finish().await;
                return Ok(CaseInfo::trivial());
            };
            let small = eut.send(SendSpec { kind: SendKind::Qos0, topic: "s/a".into(), payload: vec![1; (m - 20) as usize], pid: None, user_prop: None }).await;
            let large = eut.send(SendSpec { kind: SendKind::Qos0, topic: "s/b".into(), payload: vec![2; (m + 8) as usize], pid: None, user_prop: None }).await;
            eut.settle().await;
            let on_wire: Vec<String> = eut.packets().0.iter().skip(base).filter_map(|w| if let P5::Publish(p) = &w.pkt { Some(p.topic.clone()) } else { None }).collect();
            if !matches!(small, crate::bed::v5::SendRes::Sent) || !matches!(large, crate::bed::v5::SendRes::Err(_)) || on_wire != vec!["s/a".to_owned()] {
                return Err(Failure::new("outbound-size", format!("C19/limit/{}/outbound-size", c.role.name()), format!("peer's Maximum Packet Size {m}: packet below it -> {small:?}, packet above it -> {large:?}, on the wire {on_wire:?}; case {c:?}")));
            }
        }
    }
    eut.finish().await;
    let differs = overridden || c.hs_max_send.is_some() || c.hs_keep_alive.is_some() || c.peer_receive_max.is_some() || c.peer_max_packet.is_some() || c.max_qos < 2 || c.max_size != 0;
    let mut info = if differs { CaseInfo::nontrivial(&c) } else { CaseInfo::trivial() };
    info.labels.push("limit");
    info.labels.push(label);
    if overridden {
        info.labels.push("limit-overridden-by-handshake");
    }
    Ok(info)
}

fn limit_strategy(role: Role) -> BoxedStrategy<LimitCase> {
    (
        (0u8..3, prop::sample::select(vec![0u32, 120, 300, 1000]), prop::sample::select(vec![0u16, 1, 2, 3, 5]), prop::sample::select(vec![0u16, 1, 2, 5, 32]), 1u16..6),
        (prop::sample::select(vec![0u16, 1, 2, 3, 60, 21_845, 21_846, 40_000, 65_535]), prop::option::of(prop::sample::select(vec![1u16, 2, 3, 10])), prop::option::of(prop::sample::select(vec![64u32, 200, 2000]))),
        (prop::option::of(prop::sample::select(vec![1u16, 2, 30, 60])), prop::option::of(1u16..8)),
        0u8..6,
        (
            prop::option::weighted(0.25, 0u8..3),
            prop::option::weighted(0.25, prop::sample::select(vec![1u16, 2, 4])),
            prop::option::weighted(0.25, prop::sample::select(vec![0u16, 1, 3, 40])),
            prop::option::weighted(0.3, prop::sample::select(vec![0u32, 100, 250, 1500])),
        ),
    )
        .prop_map(move |((max_qos, max_size, max_receive, max_alias, max_send), (keep_alive, peer_receive_max, peer_max_packet), (hs_keep_alive, hs_max_send), probe, (ov_max_qos, ov_receive_max, ov_alias, ov_max_size))| LimitCase {
            role,
            max_qos,
            max_size,
            max_receive,
            max_alias,
            max_send,
            keep_alive,
            peer_receive_max: if role.is_v5() { peer_receive_max } else { None },
            peer_max_packet: if role.is_v5() { peer_max_packet } else { None },
            hs_keep_alive: if role.is_server() { hs_keep_alive } else { None },
            hs_max_send: if role.is_server() { hs_max_send } else { None },
            ov_max_qos: if role == Role::V5Server { ov_max_qos } else { None },
            ov_receive_max: if role == Role::V5Server { ov_receive_max } else { None },
            ov_alias: if role == Role::V5Server { ov_alias } else { None },
            ov_max_size: if role.is_server() { ov_max_size } else { None },
            probe,
        })
        .boxed()
}

// ---------------------------------------------------------------------------------------------

pub fn run(ctx: &Ctx, started: Instant) -> i32 {
    let thorough = ctx.tier == Tier::Thorough;
    // (a) every first packet x sampled cut sets x three servers; all 2^15 cut sets for the plain CONNECTs on the combined server
    let mut gate: Vec<GateCase> = Vec::new();
    let mut rng = SplitMix(ctx.sub_seed("cuts", 0));
    let per_first = ctx.tier.pick(10usize, 200);
    for first in firsts() {
        for srv in [Srv::V3Only, Srv::V5Only, Srv::Combined] {
            gate.push(GateCase { srv, first, cuts: 0, pipelined: true, late: false });
            gate.push(GateCase { srv, first, cuts: 0x7FFF, pipelined: false, late: false });
            for _ in 0..per_first {
                gate.push(GateCase { srv, first, cuts: (rng.next() as u16) & 0x7FFF, pipelined: rng.chance(1, 2), late: false });
            }
        }
    }
    let full = if thorough { 1u32 << 15 } else { 1 << 12 };
    for level in [4u8, 5] {
        for cuts in 0..full {
            // quick: all cut sets of the first 12 bytes (where the version is decided); thorough: of the first 15
            gate.push(GateCase { srv: Srv::Combined, first: First::Connect { name: 0, level, reserved: false }, cuts: cuts as u16, pipelined: cuts % 2 == 0, late: false });
        }
    }
    // no limit on the time the protocol version may take (protocol_version_timeout(0)): the rest of the CONNECT arrives 1.2 s late
    for level in [4u8, 5] {
        for cuts in [1u16 << 0, 1 << 3, 1 << 6, 1 << 8] {
            gate.push(GateCase { srv: Srv::Combined, first: First::Connect { name: 0, level, reserved: false }, cuts, pipelined: true, late: true });
        }
    }
    let mut outcomes: Vec<OutcomeCase> = Vec::new();
    for role in [Role::V3Server, Role::V5Server] {
        for slow in [false, true] {
            outcomes.push(OutcomeCase { role, outcome: 0, code: 0, slow });
            outcomes.push(OutcomeCase { role, outcome: 2, code: 0, slow });
            let codes: Vec<u8> = if role.is_v5() { vec![0x80, 0x85, 0x86, 0x87, 0x88, 0x8A, 0x97] } else { vec![2, 3, 4, 5] };
            for code in codes {
                outcomes.push(OutcomeCase { role, outcome: 1, code, slow });
            }
        }
    }
    let n_gate = gate.len();
    let n_out = outcomes.len();
    let per_shard = ctx.tier.pick(2_000u32, 20_000);
    let stats = par_shards(WORKERS, |shard| {
        let mut st = Stats::default();
        let mine: Vec<GateCase> = gate.iter().enumerate().filter(|(i, _)| i % WORKERS == shard).map(|(_, c)| c.clone()).collect();
        run_list_bed("C19", mine, &mut st, |c| json!({"gate": c}), run_gate);
        let mine: Vec<OutcomeCase> = outcomes.iter().enumerate().filter(|(i, _)| i % WORKERS == shard).map(|(_, c)| *c).collect();
        run_list_bed("C19", mine, &mut st, |c| json!({"outcome": c}), run_outcome);
        run_proptest_bed("C19", ctx.sub_seed("limits", shard), per_shard, &limit_strategy(Role::ALL[shard % 4]), &mut st, |c| json!({"limit": c}), run_limit);
        st
    });
    let report = Report {
        level: "exploration",
        rule: format!(
            "(a) {n_gate} gate cases: every first packet (CONNECT with protocol name MQTT/MQTt/MQIsdp/empty/MQTTX x level 0,3,4,5,6,0x84 x reserved flag; every other v3 and v5 packet template) against a v3-only, a v5-only and the combined server, unfragmented, byte-at-a-time and under sampled cut sets \
             of the first 15 bytes, with or without a PUBLISH pipelined behind it, plus all cut sets of the first 12 (thorough: 15) bytes of the plain level-4 and level-5 CONNECT on the combined server, and the same CONNECT arriving 1.2 s late in real time with protocol_version_timeout(0) = no limit: level 4 reaches exactly the v3 handshake service and level 5 the v5 one with the CONNECT unaltered, the pipelined \
             PUBLISH is handled once with its payload, everything else ends the connection with no handshake service, no handler and no success CONNACK. (b) {n_out} handshake outcomes (accept / every refusal code / service error, fast or held while the pipelined PUBLISH arrives): no handler and no byte before the \
             decision, CONNACK first, a refusal writes only its CONNACK and closes. (c) generated limit tuples (max_qos, max_size, max_receive, max_topic_alias, max_send x CONNECT keep-alive, Receive Maximum, Maximum Packet Size x handshake keep_alive / max_send overrides; clients: CONNACK values) probed by behaviour: \
             CONNACK announcements incl. Server Keep Alive, credit() and frames on the wire = min(configured/overridden, peer Receive Maximum), inbound size M-8 accepted / M+8 refused (0x95), QoS at / above maximum (0x9B), alias max / max+1, Receive Maximum RM / RM+1 (0x93), outbound size below / above the peer's maximum. \
             Non-trivial = first packet not a plain CONNECT or a cut inside the first 12 bytes; an outcome case; a limit tuple with some value differing from the defaults"
        ),
        exhaustive: true,
        assumptions: vec![
            "the duration of the negotiated keep-alive (1.5 x, overrides) is measured in real time by C20; here only its announcement is checked".into(),
            "the inbound size probe avoids the interval between 'Remaining Length <= M' and 'whole frame <= M' (uses M-8 and M+8)".into(),
        ],
        extra: BTreeMap::new(),
    };
    finish(ctx, started, stats, report)
}

pub fn replay(path: &str) -> i32 {
    let case = super::load_case(path);
    if !case["gate"].is_null() {
        let res = serde_json::from_value::<GateCase>(case["gate"].clone()).map_err(|e| e.to_string()).map(|c| run_isolated("C19", c, &run_gate));
        return super::report_replay("C19", path, res);
    }
    if !case["outcome"].is_null() {
        let res = serde_json::from_value::<OutcomeCase>(case["outcome"].clone()).map_err(|e| e.to_string()).map(|c| run_isolated("C19", c, &run_outcome));
        return super::report_replay("C19", path, res);
    }
    let res = serde_json::from_value::<LimitCase>(case["limit"].clone()).map_err(|e| e.to_string()).map(|c| run_isolated("C19", c, &run_limit));
    super::report_replay("C19", path, res)
}
