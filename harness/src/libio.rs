//! Thin drivers around the library's public codecs (encode into a buffer with
//! a sentinel prefix, decode from a buffer with a sentinel suffix).

use ntex_bytes::{BytePages, Bytes, BytesMut};
use ntex_codec::{Decoder, Encoder};
use ntex_mqtt::error::{DecodeError, EncodeError};
use ntex_mqtt::{v3::codec as c3, v5::codec as c5};

use crate::conv::{Lib3, Lib5};

pub const SENTINEL: &[u8] = &[0xC3, 0x3C, 0xA5];

/// Result of an encode: bytes appended after the sentinel prefix.
pub fn encode5(
    codec: &c5::Codec,
    item: &Lib5,
    payload: Option<Bytes>,
) -> Result<Vec<u8>, (EncodeError, Vec<u8>)> {
    let mut pages = BytePages::default();
    pages.extend_from_slice(SENTINEL);
    let enc = match item {
        Lib5::Packet(p) => c5::Encoded::Packet(p.clone()),
        Lib5::Publish(p) => c5::Encoded::Publish(p.clone(), payload),
    };
    let res = codec.encodev(enc, &mut pages);
    let all = pages.freeze();
    assert!(all.len() >= SENTINEL.len() && &all[..SENTINEL.len()] == SENTINEL, "sentinel prefix damaged by encoder");
    let rest = all[SENTINEL.len()..].to_vec();
    match res {
        Ok(()) => Ok(rest),
        Err(e) => Err((e, rest)),
    }
}

pub fn encode3(
    codec: &c3::Codec,
    item: &Lib3,
    payload: Option<Bytes>,
) -> Result<Vec<u8>, (EncodeError, Vec<u8>)> {
    let mut pages = BytePages::default();
    pages.extend_from_slice(SENTINEL);
    let enc = match item {
        Lib3::Packet(p) => c3::Encoded::Packet(p.clone()),
        Lib3::Publish(p) => c3::Encoded::Publish(p.clone(), payload),
    };
    let res = codec.encodev(enc, &mut pages);
    let all = pages.freeze();
    assert!(all.len() >= SENTINEL.len() && &all[..SENTINEL.len()] == SENTINEL, "sentinel prefix damaged by encoder");
    let rest = all[SENTINEL.len()..].to_vec();
    match res {
        Ok(()) => Ok(rest),
        Err(e) => Err((e, rest)),
    }
}

/// One decoded item in a version independent shape.
#[derive(Clone, Debug, PartialEq, Eq)]
pub enum Item<P, B> {
    Packet(P, u32),
    Publish(B, Vec<u8>, u32),
    Chunk(Vec<u8>, bool),
}

pub type Item5 = Item<c5::Packet, c5::Publish>;
pub type Item3 = Item<c3::Packet, c3::Publish>;

pub trait AnyCodec {
    type P: Clone + std::fmt::Debug + PartialEq;
    type B: Clone + std::fmt::Debug + PartialEq;
    fn fresh(max_in: u32, min_chunk: u32) -> Self;
    fn step(&self, buf: &mut BytesMut) -> Result<Option<Item<Self::P, Self::B>>, DecodeError>;
    fn publish_payload_len(b: &Self::B) -> u32;
    const VERSION: u8;
}

impl AnyCodec for c5::Codec {
    type P = c5::Packet;
    type B = c5::Publish;
    const VERSION: u8 = 5;
    fn fresh(max_in: u32, min_chunk: u32) -> Self {
        let c = c5::Codec::new();
        c.set_max_inbound_size(max_in);
        c.set_min_chunk_size(min_chunk);
        // (for even settings the configured codec is handed on as a clone, the way Client::into_inner hands it on: a clone
        // carries the configuration)
        if min_chunk != 0 && min_chunk % 2 == 0 { c.clone() } else { c }
    }
    fn step(&self, buf: &mut BytesMut) -> Result<Option<Item5>, DecodeError> {
        Ok(self.decode(buf)?.map(|d| match d {
            c5::Decoded::Packet(p, s) => Item::Packet(p, s),
            c5::Decoded::Publish(p, b, s) => Item::Publish(p, b.to_vec(), s),
            c5::Decoded::PayloadChunk(b, eof) => Item::Chunk(b.to_vec(), eof),
        }))
    }
    fn publish_payload_len(b: &c5::Publish) -> u32 {
        b.payload_size
    }
}

impl AnyCodec for c3::Codec {
    type P = c3::Packet;
    type B = c3::Publish;
    const VERSION: u8 = 3;
    fn fresh(max_in: u32, min_chunk: u32) -> Self {
        let c = c3::Codec::new();
        c.set_max_size(max_in);
        c.set_min_chunk_size(min_chunk);
        if min_chunk != 0 && min_chunk % 2 == 0 { c.clone() } else { c }
    }
    fn step(&self, buf: &mut BytesMut) -> Result<Option<Item3>, DecodeError> {
        Ok(self.decode(buf)?.map(|d| match d {
            c3::Decoded::Packet(p, s) => Item::Packet(p, s),
            c3::Decoded::Publish(p, b, s) => Item::Publish(p, b.to_vec(), s),
            c3::Decoded::PayloadChunk(b, eof) => Item::Chunk(b.to_vec(), eof),
        }))
    }
    fn publish_payload_len(b: &c3::Publish) -> u32 {
        b.payload_size
    }
}

/// Whole packet in normal form: publish header + concatenated payload.
#[derive(Clone, Debug, PartialEq, Eq)]
pub enum Whole<P, B> {
    Packet(P, u32),
    Publish(B, Vec<u8>, u32),
}

/// Decode exactly one whole packet from `bytes` followed by the sentinel;
/// returns the packet and the number of bytes consumed.  For PUBLISH the
/// payload pieces are gathered until the final marker.
pub fn decode_one<C: AnyCodec>(
    codec: &C,
    bytes: &[u8],
) -> Result<Option<(Whole<C::P, C::B>, usize)>, DecodeError> {
    let mut buf = BytesMut::with_capacity(bytes.len() + SENTINEL.len());
    buf.extend_from_slice(bytes);
    buf.extend_from_slice(SENTINEL);
    let total = buf.len();
    let first = codec.step(&mut buf)?;
    let out = match first {
        None => return Ok(None),
        Some(Item::Packet(p, s)) => Whole::Packet(p, s),
        Some(Item::Chunk(..)) => return Err(DecodeError::UnexpectedPayload),
        Some(Item::Publish(p, mut pl, s)) => {
            let want = C::publish_payload_len(&p) as usize;
            let mut guard = 0;
            while pl.len() < want {
                guard += 1;
                if guard > 1_000_000 {
                    panic!("decode loop does not terminate");
                }
                match codec.step(&mut buf)? {
                    Some(Item::Chunk(c, eof)) => {
                        pl.extend_from_slice(&c);
                        if eof {
                            break;
                        }
                    }
                    Some(_) => return Err(DecodeError::UnexpectedPayload),
                    None => return Ok(None),
                }
            }
            Whole::Publish(p, pl, s)
        }
    };
    let tail_ok = buf.len() >= SENTINEL.len() && &buf[buf.len() - SENTINEL.len()..] == SENTINEL;
    assert!(tail_ok, "sentinel suffix damaged by decoder");
    Ok(Some((out, total - buf.len())))
}
