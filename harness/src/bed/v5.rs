//! MQTT 5 endpoints under test (server and client) on the in-memory bed.

use std::cell::RefCell;
use std::future::Future;
use std::num::NonZeroU16;
use std::pin::Pin;
use std::rc::Rc;

use ntex::service::{Pipeline, ServiceFactory, cfg::SharedCfg, fn_service};
use ntex_bytes::{ByteString, Bytes};
use ntex_io::{Io, IoBoxed, IoConfig, testing::IoTest};
use ntex_mqtt::v5::{self, client, codec};
use ntex_mqtt::{Control, MqttServiceConfig, Reason};
use ntex_util::time::Seconds;

use super::*;
use crate::conv;
use crate::spec::v5 as s5;

#[derive(Debug, Clone)]
pub struct AppErr {
    pub tag: &'static str,
    pub ack: Option<u8>,
}

impl From<()> for AppErr {
    fn from((): ()) -> Self {
        AppErr { tag: "init", ack: None }
    }
}

impl TryFrom<AppErr> for v5::PublishAck {
    type Error = AppErr;
    fn try_from(e: AppErr) -> Result<Self, AppErr> {
        match e.ack.and_then(|c| codec::PublishAckReason::try_from(c).ok()) {
            Some(code) => Ok(v5::PublishAck::new(code)),
            None => Err(e),
        }
    }
}

#[derive(Clone, Debug, PartialEq, serde::Serialize, serde::Deserialize)]
pub enum Hs5 {
    /// accept; optional overrides
    Accept { keep_alive: Option<u16>, max_send: Option<u16> },
    Refuse(u8),
    Fail,
    /// refuse with a CONNACK that carries a reason string of this length and this many user properties (`fail_with`)
    RefuseWith { code: u8, reason_len: u16, props: u8 },
}

impl Default for Hs5 {
    fn default() -> Self {
        Hs5::Accept { keep_alive: None, max_send: None }
    }
}

/// values the handshake service writes into the CONNACK through `HandshakeAck::with` (None = left as computed)
#[derive(Clone, Copy, Debug, Default, PartialEq, Eq, Hash, serde::Serialize, serde::Deserialize)]
pub struct Override5 {
    pub max_qos: Option<u8>,
    pub receive_max: Option<u16>,
    pub topic_alias_max: Option<u16>,
    /// Some(0) = no Maximum Packet Size property
    pub max_packet_size: Option<u32>,
    pub session_expiry: Option<u32>,
}

#[derive(Clone, Debug, PartialEq, serde::Serialize, serde::Deserialize)]
pub struct Cfg5 {
    pub max_qos: u8,
    pub max_size: u32,
    pub max_receive: u16,
    pub max_receive_size: usize,
    pub max_topic_alias: u16,
    pub max_send: u16,
    pub min_chunk_size: u32,
    pub max_payload_buffer: usize,
    pub handle_qos_after_disconnect: Option<u8>,
    /// write buffer high watermark (0 = library default)
    pub write_hw: usize,
    /// seconds the peer has to complete CONNECT (0 = disabled)
    #[serde(default)]
    pub connect_timeout: u16,
    /// frame read rate: (timeout s, max timeout s, bytes per timeout)
    #[serde(default)]
    pub frame_read_rate: Option<(u16, u16, u32)>,
    /// server: wrap the publish handler in `v5::Router` with resources
    /// "t/a", "t/{x}" and a default; client: `resource()` routes
    pub router: bool,
    pub hs: Hs5,
    /// server: CONNACK announces RETAIN / subscription identifiers as unavailable
    #[serde(default)]
    pub no_retain: bool,
    #[serde(default)]
    pub no_sub_ids: bool,
    /// server: the handshake service rewrites CONNACK fields
    #[serde(default)]
    pub hs_with: Option<Override5>,
    /// server: the per-connection publish service is created only when gate (G_FACT, 0) opens (a slow service factory)
    #[serde(default)]
    pub hold_factory: bool,
    /// combined server: time allowed for the protocol version to arrive, in seconds (Some(0) = no limit; None = library default 5 s)
    #[serde(default)]
    pub protocol_version_timeout: Option<u16>,
    pub connect: s5::Connect5,
    /// client role: CONNACK the scripted server answers with
    pub connack: s5::ConnAck5,
}

impl Default for Cfg5 {
    fn default() -> Self {
        Cfg5 {
            max_qos: 2,
            max_size: 0,
            max_receive: 16,
            max_receive_size: 65_535,
            max_topic_alias: 32,
            max_send: 16,
            min_chunk_size: 32 * 1024,
            max_payload_buffer: 32 * 1024,
            handle_qos_after_disconnect: None,
            write_hw: 0,
            connect_timeout: 0,
            frame_read_rate: None,
            router: false,
            hs: Hs5::default(),
            no_retain: false,
            no_sub_ids: false,
            hs_with: None,
            hold_factory: false,
            protocol_version_timeout: None,
            connect: s5::Connect5 { client_id: "cid".into(), clean_start: true, ..Default::default() },
            connack: s5::ConnAck5::default(),
        }
    }
}

impl Cfg5 {
    pub fn shared(&self) -> SharedCfg {
        let mut m = MqttServiceConfig::new()
            .set_max_qos(conv::qos(self.max_qos))
            .set_max_size(self.max_size)
            .set_max_receive(self.max_receive)
            .set_max_receive_size(self.max_receive_size)
            .set_max_topic_alias(self.max_topic_alias)
            .set_max_send(self.max_send)
            .set_min_chunk_size(self.min_chunk_size)
            .set_max_payload_buffer_size(self.max_payload_buffer)
            .set_handle_qos_after_disconnect(self.handle_qos_after_disconnect.map(conv::qos));
        m = m.set_connect_timeout(Seconds(self.connect_timeout));
        if let Some(t) = self.protocol_version_timeout {
            m = m.protocol_version_timeout(Seconds(t));
        }
        let mut io = IoConfig::new().set_keepalive_timeout(Seconds::ZERO).set_disconnect_timeout(Seconds(1));
        if let Some((t, mx, rate)) = self.frame_read_rate {
            io = io.set_frame_read_rate(Seconds(t), Seconds(mx), rate);
        }
        if self.write_hw != 0 {
            io = io.set_write_buf(self.write_hw, self.write_hw / 4, 0).set_write_buf_threshold(0);
        }
        SharedCfg::new("VERIF5").add(m).add(io).into()
    }
}

pub type BoxFut<T> = Pin<Box<dyn Future<Output = T>>>;
/// `PublishReceived` is not nameable outside the crate: kept as a closure that releases it
pub type Receipt = Box<dyn FnOnce() -> BoxFut<Result<(), ntex_mqtt::error::SendPacketError>>>;
/// a `StreamingPayload` (not nameable for v3): `send(chunk)`; dropping the closure drops the stream
pub type StreamFn = Rc<dyn Fn(Vec<u8>) -> BoxFut<Result<(), SendErr>>>;
pub type SrvPipeline = Pipeline<ntex::service::boxed::BoxService<IoBoxed, (), ntex_mqtt::MqttError<AppErr>>>;

/// Neutral result of a sink operation.
#[derive(Clone, Debug, PartialEq, Eq)]
pub enum SendRes {
    PubAck(s5::Ack5),
    /// QoS 2 first leg done: index of the receipt kept by the bed + PUBREC contents
    Receipt(usize, s5::Ack5),
    SubAck(s5::SubAck5),
    UnsubAck(s5::SubAck5),
    Released,
    Ready(bool),
    Sent,
    Err(SendErr),
}

#[derive(Clone, Debug, PartialEq, Eq)]
pub enum SendErr {
    Encode(String),
    PacketIdInUse(u16),
    UnexpectedRelease,
    StreamingCancelled,
    Disconnected,
    /// non-blocking send attempted while the sink is not ready (the harness does not call the API then)
    NotReady,
}

pub fn send_err(e: ntex_mqtt::error::SendPacketError) -> SendErr {
    use ntex_mqtt::error::SendPacketError as E;
    match e {
        E::Encode(e) => SendErr::Encode(format!("{e:?}")),
        E::PacketIdInUse(id) => SendErr::PacketIdInUse(id.get()),
        E::UnexpectedRelease => SendErr::UnexpectedRelease,
        E::StreamingCancelled => SendErr::StreamingCancelled,
        E::Disconnected => SendErr::Disconnected,
    }
}

fn ack_from(a: &codec::PublishAck) -> s5::Ack5 {
    match conv::from_lib5(&codec::Packet::PublishAck(a.clone())) {
        s5::P5::PubAck(a) => a,
        _ => unreachable!(),
    }
}

pub struct Eut5 {
    pub role: Role,
    pub peer: Peer,
    pub app: Rc<App>,
    pub done: Rc<Done>,
    pub sink: Rc<RefCell<Option<v5::MqttSink>>>,
    pub receipts: Rc<RefCell<Vec<Option<Receipt>>>>,
    pub streams: Rc<RefCell<Vec<Option<StreamFn>>>>,
    pub noblock: Rc<NoBlock>,
}

fn stop_kind(r: &Reason<AppErr>) -> StopKind {
    match r {
        Reason::Error(e) => StopKind::Error(e.get_ref().tag.to_owned()),
        Reason::Protocol(p) => StopKind::Protocol(format!("{:?}", p.get_ref())),
        Reason::PeerGone(p) => StopKind::PeerGone(p.err().map(|e| e.kind().to_string())),
    }
}

async fn control_service(app: Rc<App>, msg: Control<AppErr>) -> Result<Option<codec::Encoded>, AppErr> {
    match msg {
        Control::WrBackpressure(w) => {
            app.push(Ev::WrBackpressure(w.enabled()));
            // a control service that takes its time over the notification (the sink's state must not depend on it)
            if w.enabled() && app.hold_backpressure.get() {
                app.wait_backpressure().await;
            }
            let res = if app.fail_on_backpressure.get() && w.enabled() {
                Err(AppErr { tag: "control-backpressure", ack: None })
            } else {
                Ok(None)
            };
            app.push(Ev::ControlExit { stop: false });
            res
        }
        Control::Stop(reason) => {
            app.push(Ev::Stop(stop_kind(&reason)));
            if app.hold_stop.get() {
                app.wait(G_STOP, 0).await;
            }
            app.push(Ev::ControlExit { stop: true });
            match app.stop_answer.get() {
                StopAnswer::None => Ok(None),
                StopAnswer::Own(code) => {
                    let code = codec::DisconnectReasonCode::try_from(code).unwrap_or(codec::DisconnectReasonCode::UnspecifiedError);
                    Ok(Some(codec::Packet::from(codec::Disconnect::new(code)).into()))
                }
                StopAnswer::Fail => Err(AppErr { tag: "control-fail", ack: None }),
            }
        }
    }
}

async fn read_payload<F, Fut>(app: &App, seq: u32, mut read: F, max_chunks: Option<u8>)
where
    F: FnMut() -> Fut,
    Fut: Future<Output = Result<Option<Bytes>, ntex_mqtt::error::PayloadError>>,
{
    let mut data = Vec::new();
    let mut n = 0u8;
    let end = loop {
        if let Some(m) = max_chunks {
            if n >= m {
                break ReadEnd::Stopped;
            }
        }
        match read().await {
            Ok(Some(b)) => {
                app.pieces.borrow_mut().push((seq, b.len()));
                data.extend_from_slice(&b);
                n = n.saturating_add(1);
            }
            Ok(None) => break ReadEnd::Eof,
            Err(e) => break ReadEnd::Err(format!("{e:?}")),
        }
    };
    app.push(Ev::PubRead { seq, data, end });
}

/// read a payload to the end in a task of its own and log the result
pub fn read_detached(app: Rc<App>, seq: u32, pl: ntex_mqtt::Payload) {
    ntex::rt::spawn(async move {
        let mut data = Vec::new();
        let end = loop {
            match pl.read().await {
                Ok(Some(b)) => data.extend_from_slice(&b),
                Ok(None) => break ReadEnd::Eof,
                Err(e) => break ReadEnd::Err(format!("{e:?}")),
            }
        };
        app.push(Ev::PubRead { seq, data, end });
    });
}

/// log the result of `read_all()`
pub fn read_whole(app: &App, seq: u32, r: Result<Bytes, ntex_mqtt::error::PayloadError>) {
    match r {
        Ok(b) => app.push(Ev::PubRead { seq, data: b.to_vec(), end: ReadEnd::Eof }),
        Err(e) => app.push(Ev::PubRead { seq, data: Vec::new(), end: ReadEnd::Err(format!("{e:?}")) }),
    }
}

fn seen_of(p: &codec::Publish, route: u8) -> Seen {
    let pr = conv::publish5_from_lib(p);
    Seen {
        topic: p.topic.to_string(),
        qos: conv::qos_u8(p.qos),
        dup: p.dup,
        retain: p.retain,
        pid: p.packet_id.map(NonZeroU16::get),
        payload_size: p.payload_size,
        props: Some(pr),
        route,
    }
}

async fn publish_handler(app: Rc<App>, mut p: v5::Publish, route: u8) -> Result<v5::PublishAck, AppErr> {
    let seq = app.next_pub_seq();
    let size = u64::from(p.packet_size());
    app.enter_pub(size);
    let mut guard = DropGuard { app: app.clone(), seq, publish: true, size, done: false };
    app.push(Ev::PubEnter { seq, seen: seen_of(p.packet(), route) });
    app.entered(seq);
    let plan = app.pub_plan(seq);
    match plan.read {
        ReadPlan::Eager => read_payload(&app, seq, || p.read(), None).await,
        ReadPlan::ReadK(k) => read_payload(&app, seq, || p.read(), Some(k)).await,
        ReadPlan::EagerAll => read_whole(&app, seq, p.read_all().await),
        ReadPlan::Detached => read_detached(app.clone(), seq, p.take_payload()),
        _ => {}
    }
    app.wait(G_PUB, seq).await;
    if plan.read == ReadPlan::Lazy {
        read_payload(&app, seq, || p.read(), None).await;
    }
    if plan.read == ReadPlan::LazyAll {
        read_whole(&app, seq, p.read_all().await);
    }
    guard.done = true;
    app.push(Ev::PubExit { seq, outcome: plan.outcome });
    match plan.outcome {
        Outcome::Ok => Ok(p.ack()),
        Outcome::NegAck(c) => Ok(v5::PublishAck::new(codec::PublishAckReason::try_from(c).unwrap_or(codec::PublishAckReason::UnspecifiedError))),
        Outcome::Err => Err(AppErr { tag: "publish-error", ack: None }),
        Outcome::ErrAck(c) => Err(AppErr { tag: "publish-error-ack", ack: Some(c) }),
    }
}

async fn protocol_handler(app: Rc<App>, msg: v5::ProtocolMessage) -> Result<v5::ProtocolMessageAck, AppErr> {
    let (kind, pid) = match &msg {
        v5::ProtocolMessage::Auth(_) => (CtlKind::Auth, None),
        v5::ProtocolMessage::PublishRelease(m) => (CtlKind::PubRel, Some(m.packet().packet_id.get())),
        v5::ProtocolMessage::Subscribe(m) => (CtlKind::Subscribe, Some(m.packet().packet_id.get())),
        v5::ProtocolMessage::Unsubscribe(m) => (CtlKind::Unsubscribe, Some(m.packet().packet_id.get())),
        v5::ProtocolMessage::Disconnect(_) => (CtlKind::Disconnect, None),
        v5::ProtocolMessage::Ping(_) => (CtlKind::Ping, None),
    };
    let seq = app.next_ctl_seq();
    let mut guard = DropGuard { app: app.clone(), seq, publish: false, size: 0, done: false };
    app.push(Ev::CtlEnter { seq, kind, pid });
    app.wait(G_CTL, seq).await;
    guard.done = true;
    app.push(Ev::CtlExit { seq });
    match app.ctl_plan(seq) {
        CtlPlan::Ack => Ok(match msg {
            v5::ProtocolMessage::Subscribe(mut s) => {
                for mut sub in &mut s {
                    let q = sub.options().qos;
                    sub.confirm(q);
                }
                s.ack()
            }
            v5::ProtocolMessage::Auth(a) => {
                let resp = a.packet().clone();
                a.ack(resp)
            }
            other => other.ack(),
        }),
        CtlPlan::AckDiag => Ok(match msg {
            v5::ProtocolMessage::Subscribe(mut s) => {
                for mut sub in &mut s {
                    let q = sub.options().qos;
                    sub.confirm(q);
                }
                s.ack_reason(ByteString::from_static("because")).ack_properties(|p| p.push((ByteString::from_static("k"), ByteString::from_static("v")))).ack()
            }
            v5::ProtocolMessage::Unsubscribe(u) => u.ack_reason(ByteString::from_static("because")).ack_properties(|p| p.push((ByteString::from_static("k"), ByteString::from_static("v")))).ack(),
            other => other.ack(),
        }),
        CtlPlan::Err => Err(AppErr { tag: "protocol-error", ack: None }),
        CtlPlan::Disconnect(code) => {
            let code = codec::DisconnectReasonCode::try_from(code).unwrap_or(codec::DisconnectReasonCode::UnspecifiedError);
            Ok(msg.disconnect_with(codec::Disconnect::new(code)))
        }
    }
}

/// Build a v5 server pipeline bound to `app`; several connections may be
/// started from it (C17: bindings never leak between connections).
pub async fn server_pipeline(
    app: Rc<App>,
    cfg: &Cfg5,
    sinks: Rc<RefCell<Vec<v5::MqttSink>>>,
) -> SrvPipeline {
    let hs = cfg.hs.clone();
    let (no_retain, no_sub_ids) = (cfg.no_retain, cfg.no_sub_ids);
    let hs_with = cfg.hs_with;
    let app_h = app.clone();
    let handshake = move |h: v5::Handshake| {
        let hs = hs.clone();
        let app = app_h.clone();
        let sinks = sinks.clone();
        async move {
            app.push(Ev::Handshake);
            // the application may use the sink while its handshake service is still running
            if matches!(hs, Hs5::Accept { .. }) {
                sinks.borrow_mut().push(h.sink());
            }
            // a slow handshake service (gate closed by the check)
            app.wait(G_HS, 0).await;
            match hs {
                Hs5::Accept { keep_alive, max_send } => {
                    let mut ack = h.ack(());
                    if let Some(k) = keep_alive {
                        ack = ack.keep_alive(k);
                    }
                    if max_send.is_some() {
                        ack = ack.max_send(max_send);
                    }
                    if no_retain || no_sub_ids {
                        ack = ack.with(|a| {
                            a.retain_available = !no_retain;
                            a.subscription_identifiers_available = !no_sub_ids;
                        });
                    }
                    if let Some(o) = hs_with {
                        ack = ack.with(|a| {
                            if let Some(q) = o.max_qos {
                                a.max_qos = conv::qos(q);
                            }
                            if let Some(r) = o.receive_max.and_then(NonZeroU16::new) {
                                a.receive_max = r;
                            }
                            if let Some(t) = o.topic_alias_max {
                                a.topic_alias_max = t;
                            }
                            if let Some(m) = o.max_packet_size {
                                a.max_packet_size = (m != 0).then_some(m);
                            }
                            if let Some(e) = o.session_expiry {
                                a.session_expiry_interval_secs = Some(e);
                            }
                        });
                    }
                    Ok::<_, AppErr>(ack)
                }
                Hs5::Refuse(code) => Ok(h.failed(codec::ConnectAckReason::try_from(code).unwrap_or(codec::ConnectAckReason::NotAuthorized))),
                Hs5::Fail => Err(AppErr { tag: "handshake-fail", ack: None }),
                Hs5::RefuseWith { code, reason_len, props } => {
                    let mut ack = codec::ConnectAck { reason_code: codec::ConnectAckReason::try_from(code).unwrap_or(codec::ConnectAckReason::NotAuthorized), ..Default::default() };
                    if reason_len > 0 {
                        ack.reason_string = Some(ByteString::from("r".repeat(usize::from(reason_len))));
                    }
                    for i in 0..props {
                        ack.user_properties.push((ByteString::from(format!("k{i}")), ByteString::from("value")));
                    }
                    Ok(h.fail_with(ack))
                }
            }
        }
    };
    let app_c = app.clone();
    let app_p = app.clone();
    let app_pub = app.clone();
    let shared = cfg.shared();
    let builder = v5::MqttServer::new(handshake)
        .control(move |msg: Control<AppErr>| control_service(app_c.clone(), msg))
        .protocol(move |msg: v5::ProtocolMessage| protocol_handler(app_p.clone(), msg));
    if cfg.router {
        let a0 = app_pub.clone();
        let a1 = app_pub.clone();
        let a2 = app_pub.clone();
        let router = v5::Router::<(), AppErr>::new(ntex::service::fn_factory_with_config(move |_: v5::Session<()>| {
            let a0 = a0.clone();
            async move { Ok::<_, AppErr>(fn_service(move |p: v5::Publish| publish_handler(a0.clone(), p, 0))) }
        }))
            .resource("t/a", fn_service(move |p: v5::Publish| publish_handler(a1.clone(), p, 1)))
            .resource("t/{x}", fn_service(move |p: v5::Publish| publish_handler(a2.clone(), p, 2)));
        let srv = builder.publish(router);
        let svc = ServiceFactory::<IoBoxed, SharedCfg>::create(&srv, shared).await.expect("server factory");
        Pipeline::new(ntex::service::boxed::service(svc))
    } else {
        if cfg.hold_factory {
            app_pub.hold(G_FACT, 0);
        }
        let srv = builder.publish(ntex::service::fn_factory_with_config(move |_: v5::Session<()>| {
            let app = app_pub.clone();
            async move {
                // a service factory that takes its time (only when held)
                app.wait(G_FACT, 0).await;
                let gate_app = app.clone();
                Ok::<_, AppErr>(GatedReady { inner: fn_service(move |p: v5::Publish| publish_handler(app.clone(), p, 0)), app: gate_app })
            }
        }));
        let svc = ServiceFactory::<IoBoxed, SharedCfg>::create(&srv, shared).await.expect("server factory");
        Pipeline::new(ntex::service::boxed::service(svc))
    }
}

/// One decoded packet from the endpoint's output stream.
#[derive(Clone, Debug, PartialEq, Eq)]
pub struct WirePkt {
    pub pkt: s5::P5,
    pub payload: Vec<u8>,
    /// offset of the first byte after this packet in the stream
    pub end: usize,
}

#[derive(Clone, Debug, PartialEq, Eq)]
pub enum WireTail {
    Clean,
    /// bytes that do not (yet) form a complete packet
    Incomplete(usize),
    /// the stream stops parsing here
    Garbage { at: usize, why: String },
}

/// Parse the complete output stream with the reference decoder.
pub fn parse_wire(wire: &[u8]) -> (Vec<WirePkt>, WireTail) {
    use crate::spec::wire::{Split, split};
    let mut out = Vec::new();
    let mut off = 0;
    while off < wire.len() {
        match split(&wire[off..]) {
            Split::NeedHeader => return (out, WireTail::Incomplete(wire.len() - off)),
            Split::BadVarint => return (out, WireTail::Garbage { at: off, why: "bad Remaining Length".into() }),
            Split::Frame { first, rl, hdr, complete } => {
                if !complete {
                    return (out, WireTail::Incomplete(wire.len() - off));
                }
                let body = &wire[off + hdr..off + hdr + rl as usize];
                let end = off + hdr + rl as usize;
                if first >> 4 == 3 {
                    match s5::decode_publish_header(first, rl, body) {
                        Ok(Some((p, hl, _))) => out.push(WirePkt { pkt: s5::P5::Publish(Box::new(p)).normalize(), payload: body[hl..].to_vec(), end }),
                        other => return (out, WireTail::Garbage { at: off, why: format!("PUBLISH: {other:?}") }),
                    }
                } else {
                    match s5::decode(first, body) {
                        s5::Verdict::Valid { pkt, .. } => out.push(WirePkt { pkt, payload: Vec::new(), end }),
                        s5::Verdict::Invalid(r) => return (out, WireTail::Garbage { at: off, why: format!("{r:?}") }),
                    }
                }
                off = end;
            }
        }
    }
    (out, WireTail::Clean)
}

pub fn enc(p: &s5::P5) -> Vec<u8> {
    s5::encode(p, &[], &s5::Layout::default())
}
pub fn enc_pub(p: &s5::Publish5, payload: &[u8]) -> Vec<u8> {
    s5::encode(&s5::P5::Publish(Box::new(p.clone())), payload, &s5::Layout::default())
}

impl Eut5 {
    fn new(role: Role, peer: Peer, app: Rc<App>) -> Self {
        Eut5 {
            role,
            peer,
            app,
            done: Rc::new(Done::default()),
            sink: Rc::new(RefCell::new(None)),
            receipts: Rc::new(RefCell::new(Vec::new())),
            streams: Rc::new(RefCell::new(Vec::new())),
            noblock: Rc::new(NoBlock::default()),
        }
    }

    /// Start one more connection on an existing server pipeline.
    pub fn attach_server(pipeline: &SrvPipeline, app: Rc<App>, cfg: &Cfg5) -> Eut5 {
        let (peer, server_io) = Peer::pair();
        let eut = Eut5::new(Role::V5Server, peer, app);
        let io = Io::new(server_io, cfg.shared());
        let done = eut.done.clone();
        let pl = pipeline.clone();
        ntex::rt::spawn(async move {
            let r = pl.call(IoBoxed::from(io)).await;
            *done.0.borrow_mut() = Some(match r {
                Ok(()) => "ok".to_owned(),
                Err(e) => format!("err: {e:?}"),
            });
        });
        eut
    }

    /// Server endpoint; performs no handshake yet.
    pub async fn start_server(cfg: &Cfg5) -> Eut5 {
        let app = App::new();
        let sinks = Rc::new(RefCell::new(Vec::new()));
        let pipeline = server_pipeline(app.clone(), cfg, sinks.clone()).await;
        let eut = Eut5::attach_server(&pipeline, app, cfg);
        // the sink becomes available when the handshake service runs
        let slot = eut.sink.clone();
        let s2 = sinks.clone();
        ntex::rt::spawn(async move {
            loop {
                if let Some(s) = s2.borrow().first() {
                    *slot.borrow_mut() = Some(s.clone());
                    break;
                }
                yield_now().await;
                if Rc::strong_count(&s2) == 1 {
                    break;
                }
            }
        });
        eut
    }

    /// Client endpoint: the connector hands out the in-memory transport; the
    /// CONNECT is written as soon as the runtime runs.
    pub async fn start_client(cfg: &Cfg5) -> Eut5 {
        let app = App::new();
        let (peer, client_io) = Peer::pair();
        let eut = Eut5::new(Role::V5Client, peer, app.clone());
        let shared = cfg.shared();
        let io_slot = Rc::new(RefCell::new(Some(client_io)));
        let shared2 = shared.clone();
        let connector = client::MqttConnector::new().connector(fn_service(move |_: ntex::connect::Connect<String>| {
            let io = io_slot.borrow_mut().take();
            let cfg = shared2.clone();
            async move {
                match io {
                    Some(io) => Ok::<_, ntex::connect::ConnectError>(Io::new(io, cfg)),
                    None => Err(ntex::connect::ConnectError::Unresolved),
                }
            }
        }));
        let pkt = match conv::to_lib5(&s5::P5::Connect(Box::new(cfg.connect.clone()))) {
            Ok(conv::Lib5::Packet(codec::Packet::Connect(c))) => *c,
            _ => codec::Connect::default(),
        };
        let done = eut.done.clone();
        let slot = eut.sink.clone();
        let router = cfg.router;
        ntex::rt::spawn(async move {
            let pipeline = match ServiceFactory::<client::Connect<String>, SharedCfg>::pipeline(&connector, shared).await {
                Ok(p) => p,
                Err(e) => {
                    *done.0.borrow_mut() = Some(format!("connector-init-error: {e:?}"));
                    return;
                }
            };
            let res = pipeline.call(client::Connect::with("127.0.0.1:1883".to_owned(), pkt)).await;
            match res {
                Err(e) => {
                    *done.0.borrow_mut() = Some(format!("connect-error: {e:?}"));
                }
                Ok(cl) => {
                    *slot.borrow_mut() = Some(cl.sink());
                    app.push(Ev::Handshake);
                    let a_p = app.clone();
                    let a_c = app.clone();
                    let r = if router {
                        let a1 = app.clone();
                        let a2 = app.clone();
                        cl.resource("t/a", fn_service(move |p: v5::Publish| publish_handler(a1.clone(), p, 1)))
                            .resource("t/{x}", fn_service(move |p: v5::Publish| publish_handler(a2.clone(), p, 2)))
                            .start(fn_service(move |m: client::ProtocolMessage| client_protocol_handler(a_p.clone(), m)))
                            .await
                            .map_err(|e| format!("{e:?}"))
                    } else {
                        cl.start_with_control(
                            fn_service(move |m: client::ProtocolMessage| client_protocol_handler(a_p.clone(), m)),
                            fn_service(move |m: Control<AppErr>| control_service(a_c.clone(), m)),
                        )
                        .await
                        .map_err(|e| format!("{e:?}"))
                    };
                    *done.0.borrow_mut() = Some(match r {
                        Ok(()) => "ok".to_owned(),
                        Err(e) => format!("err: {e}"),
                    });
                }
            }
        });
        eut
    }

    pub async fn start(role: Role, cfg: &Cfg5) -> Eut5 {
        if role == Role::V5Server { Eut5::start_server(cfg).await } else { Eut5::start_client(cfg).await }
    }

    pub async fn settle(&self) -> bool {
        let sink = self.sink.clone();
        let extra = move || sink.borrow().as_ref().map_or(0, |s| s.credit() * 2 + usize::from(s.is_open()));
        let w = Watch { peer: &self.peer, app: &self.app, done: &self.done, extra: &extra };
        settle(&w).await
    }

    /// Scripted handshake with the configured CONNECT / CONNACK.  Returns the
    /// packets the endpoint wrote during the handshake.
    pub async fn handshake(&self, cfg: &Cfg5) -> Vec<WirePkt> {
        if self.role == Role::V5Server {
            self.peer.send(&enc(&s5::P5::Connect(Box::new(cfg.connect.clone()))));
            self.settle().await;
        } else {
            self.settle().await;
            self.peer.send(&enc(&s5::P5::ConnAck(Box::new(cfg.connack.clone()))));
            self.settle().await;
        }
        self.packets().0
    }

    pub fn packets(&self) -> (Vec<WirePkt>, WireTail) {
        self.peer.pump();
        parse_wire(&self.peer.wire.borrow())
    }

    pub fn sink(&self) -> Option<v5::MqttSink> {
        self.sink.borrow().clone()
    }

    pub fn send5(&self, p: &s5::P5) {
        self.peer.send(&enc(p));
    }
}

async fn client_protocol_handler(app: Rc<App>, msg: client::ProtocolMessage) -> Result<v5::ProtocolMessageAck, AppErr> {
    match msg {
        client::ProtocolMessage::Publish(p) => {
            // unrouted publish: behaves like the publish handler, acknowledged through the protocol message
            let seq = app.next_pub_seq();
            let size = u64::from(p.packet_size());
            app.enter_pub(size);
            let mut guard = DropGuard { app: app.clone(), seq, publish: true, size, done: false };
            app.push(Ev::PubEnter { seq, seen: seen_of(p.packet(), 255) });
            let plan = app.pub_plan(seq);
            match plan.read {
                ReadPlan::Eager => read_payload(&app, seq, || p.read(), None).await,
                ReadPlan::ReadK(k) => read_payload(&app, seq, || p.read(), Some(k)).await,
                ReadPlan::EagerAll => read_whole(&app, seq, p.read_all().await),
                _ => {}
            }
            app.wait(G_PUB, seq).await;
            if plan.read == ReadPlan::Lazy {
                read_payload(&app, seq, || p.read(), None).await;
            }
            if plan.read == ReadPlan::LazyAll {
                read_whole(&app, seq, p.read_all().await);
            }
            guard.done = true;
            app.push(Ev::PubExit { seq, outcome: plan.outcome });
            match plan.outcome {
                Outcome::Ok => Ok(p.ack(codec::PublishAckReason::Success)),
                Outcome::NegAck(c) | Outcome::ErrAck(c) => {
                    Ok(p.ack(codec::PublishAckReason::try_from(c).unwrap_or(codec::PublishAckReason::UnspecifiedError)))
                }
                Outcome::Err => Err(AppErr { tag: "publish-error", ack: None }),
            }
        }
        other => {
            let (kind, pid) = match &other {
                client::ProtocolMessage::PublishRelease(m) => (CtlKind::PubRel, Some(m.packet().packet_id.get())),
                client::ProtocolMessage::Disconnect(_) => (CtlKind::Disconnect, None),
                _ => (CtlKind::Ping, None),
            };
            let seq = app.next_ctl_seq();
            let mut guard = DropGuard { app: app.clone(), seq, publish: false, size: 0, done: false };
            app.push(Ev::CtlEnter { seq, kind, pid });
            app.wait(G_CTL, seq).await;
            guard.done = true;
            app.push(Ev::CtlExit { seq });
            match app.ctl_plan(seq) {
                CtlPlan::Ack | CtlPlan::AckDiag => Ok(other.ack()),
                CtlPlan::Err => Err(AppErr { tag: "protocol-error", ack: None }),
                CtlPlan::Disconnect(code) => {
                    let code = codec::DisconnectReasonCode::try_from(code).unwrap_or(codec::DisconnectReasonCode::UnspecifiedError);
                    Ok(other.disconnect(codec::Disconnect::new(code)))
                }
            }
        }
    }
}

// --- sink operations with neutral results ---------------------------------------------

#[derive(Clone, Copy, Debug, PartialEq, Eq, Hash, serde::Serialize, serde::Deserialize)]
pub enum SendKind {
    Qos0,
    Qos1,
    Qos2,
    Subscribe,
    Unsubscribe,
    /// `MqttSink::ready()`
    Ready,
    /// QoS 1 through the non-blocking API: `publish_ack_cb` + `send_at_least_once_no_block` (called only when
    /// `is_ready()`); the harness future resolves when the callback reports the acknowledgement
    NoBlock,
}

/// state of the non-blocking publish API of one connection: acknowledgements reported by `publish_ack_cb`,
/// in order; the k-th non-blocking publish is answered by the k-th callback (acknowledgements arrive in order)
#[derive(Default)]
pub struct NoBlock {
    pub registered: Cell<bool>,
    pub sent: Cell<usize>,
    pub acks: RefCell<Vec<(s5::Ack5, bool)>>,
    /// the callback touches the sink again (is_ready / credit), as an application that sends the next message would
    pub reenter: Cell<bool>,
}

pub fn noblock_future(nb: Rc<NoBlock>, res: Result<(), SendErr>) -> BoxFut<SendRes> {
    match res {
        Err(e) => Box::pin(async move { SendRes::Err(e) }),
        Ok(()) => {
            let k = nb.sent.get();
            nb.sent.set(k + 1);
            Box::pin(std::future::poll_fn(move |_| match nb.acks.borrow().get(k) {
                Some((a, false)) => std::task::Poll::Ready(SendRes::PubAck(a.clone())),
                Some((_, true)) => std::task::Poll::Ready(SendRes::Err(SendErr::Disconnected)),
                None => std::task::Poll::Pending,
            }))
        }
    }
}

pub struct SendSpec {
    pub kind: SendKind,
    pub topic: String,
    pub payload: Vec<u8>,
    pub pid: Option<u16>,
    pub user_prop: Option<(String, String)>,
}

impl Eut5 {
    /// Create (not poll) the future of an awaiting sink operation.
    pub fn send(&self, spec: SendSpec) -> BoxFut<SendRes> {
        let Some(sink) = self.sink() else {
            return Box::pin(async { SendRes::Err(SendErr::Disconnected) });
        };
        let receipts = self.receipts.clone();
        match spec.kind {
            SendKind::Qos0 => {
                let mut b = sink.publish(ByteString::from(spec.topic));
                if let Some((k, v)) = spec.user_prop {
                    b = b.properties(|p| p.user_properties.push((ByteString::from(k), ByteString::from(v))));
                }
                let r = b.send_at_most_once(Bytes::from(spec.payload));
                Box::pin(async move {
                    match r {
                        Ok(()) => SendRes::Sent,
                        Err(e) => SendRes::Err(send_err(e)),
                    }
                })
            }
            SendKind::NoBlock => {
                if !sink.is_ready() {
                    return Box::pin(async { SendRes::Err(SendErr::NotReady) });
                }
                let nb = self.noblock.clone();
                if !nb.registered.replace(true) {
                    let (nb2, sink2) = (nb.clone(), sink.clone());
                    sink.publish_ack_cb(move |ack, disconnected| {
                        if nb2.reenter.get() {
                            let _ = (sink2.is_ready(), sink2.credit(), sink2.is_open());
                            // an application that, told that the connection is gone, tries one more publish (it may not know
                            // better) and closes its sink
                            if disconnected {
                                let _ = sink2.publish(ByteString::from_static("late/word")).send_at_most_once(Bytes::new());
                                sink2.close();
                            }
                        }
                        nb2.acks.borrow_mut().push((ack_from(&ack), disconnected));
                    });
                }
                let mut b = sink.publish(ByteString::from(spec.topic));
                if let Some(id) = spec.pid {
                    b = b.packet_id(id);
                }
                if let Some((k, v)) = spec.user_prop {
                    b = b.properties(|p| p.user_properties.push((ByteString::from(k), ByteString::from(v))));
                }
                let r = b.send_at_least_once_no_block(Bytes::from(spec.payload)).map_err(send_err);
                noblock_future(nb, r)
            }
            SendKind::Qos1 => {
                let mut b = sink.publish(ByteString::from(spec.topic));
                if let Some(id) = spec.pid {
                    b = b.packet_id(id);
                }
                if let Some((k, v)) = spec.user_prop {
                    b = b.properties(|p| p.user_properties.push((ByteString::from(k), ByteString::from(v))));
                }
                let fut = b.send_at_least_once(Bytes::from(spec.payload));
                Box::pin(async move {
                    match fut.await {
                        Ok(a) => SendRes::PubAck(ack_from(&a)),
                        Err(e) => SendRes::Err(send_err(e)),
                    }
                })
            }
            SendKind::Qos2 => {
                let mut b = sink.publish(ByteString::from(spec.topic));
                if let Some(id) = spec.pid {
                    b = b.packet_id(id);
                }
                let fut = b.send_exactly_once(Bytes::from(spec.payload));
                Box::pin(async move {
                    match fut.await {
                        Ok(rec) => {
                            let ack = ack_from(rec.packet());
                            let mut r = receipts.borrow_mut();
                            r.push(Some(Box::new(move || Box::pin(rec.release()) as BoxFut<_>)));
                            SendRes::Receipt(r.len() - 1, ack)
                        }
                        Err(e) => SendRes::Err(send_err(e)),
                    }
                })
            }
            SendKind::Subscribe => {
                let mut b = sink.subscribe(None).topic_filter(ByteString::from(spec.topic), codec::SubscriptionOptions::default());
                if let Some(id) = spec.pid {
                    b = b.packet_id(id);
                }
                if let Some((k, v)) = spec.user_prop {
                    b = b.property(ByteString::from(k), ByteString::from(v));
                }
                let fut = b.send();
                Box::pin(async move {
                    match fut.await {
                        Ok(a) => match conv::from_lib5(&codec::Packet::SubscribeAck(a)) {
                            s5::P5::SubAck(a) => SendRes::SubAck(a),
                            _ => unreachable!(),
                        },
                        Err(e) => SendRes::Err(send_err(e)),
                    }
                })
            }
            SendKind::Unsubscribe => {
                let mut b = sink.unsubscribe().topic_filter(ByteString::from(spec.topic));
                if let Some(id) = spec.pid {
                    b = b.packet_id(id);
                }
                if let Some((k, v)) = spec.user_prop {
                    b = b.property(ByteString::from(k), ByteString::from(v));
                }
                let fut = b.send();
                Box::pin(async move {
                    match fut.await {
                        Ok(a) => match conv::from_lib5(&codec::Packet::UnsubscribeAck(a)) {
                            s5::P5::UnsubAck(a) => SendRes::UnsubAck(a),
                            _ => unreachable!(),
                        },
                        Err(e) => SendRes::Err(send_err(e)),
                    }
                })
            }
            SendKind::Ready => {
                // (the future borrows the sink: created and first polled together)
                Box::pin(async move { SendRes::Ready(sink.ready().await) })
            }
        }
    }

    /// start a streamed publish (QoS 0 or 1): the awaiting future (QoS 1) and the index of the stream handle
    pub fn stream_start(&self, qos: u8, topic: String, declared: u32, pid: Option<u16>) -> (Option<BoxFut<SendRes>>, Result<usize, SendErr>) {
        let Some(sink) = self.sink() else {
            return (None, Err(SendErr::Disconnected));
        };
        let mut b = sink.publish(ByteString::from(topic));
        if let Some(id) = pid {
            b = b.packet_id(id);
        }
        let keep = |stream: v5::StreamingPayload| -> usize {
            let st = Rc::new(stream);
            let f: StreamFn = Rc::new(move |chunk: Vec<u8>| {
                let st = st.clone();
                Box::pin(async move { st.send(Bytes::from(chunk)).await.map_err(send_err) }) as BoxFut<_>
            });
            let mut v = self.streams.borrow_mut();
            v.push(Some(f));
            v.len() - 1
        };
        if qos == 0 {
            match b.stream_at_most_once(declared) {
                Ok(stream) => (None, Ok(keep(stream))),
                Err(e) => (None, Err(send_err(e))),
            }
        } else {
            let (fut, stream) = b.stream_at_least_once(declared);
            let idx = keep(stream);
            let fut: BoxFut<SendRes> = Box::pin(async move {
                match fut.await {
                    Ok(a) => SendRes::PubAck(ack_from(&a)),
                    Err(e) => SendRes::Err(send_err(e)),
                }
            });
            (Some(fut), Ok(idx))
        }
    }

    /// `StreamingPayload::send(chunk)` (created, not polled)
    pub fn stream_chunk(&self, idx: usize, chunk: Vec<u8>) -> BoxFut<Result<(), SendErr>> {
        let f = self.streams.borrow().get(idx).and_then(Clone::clone);
        match f {
            Some(f) => f(chunk),
            None => Box::pin(async { Err(SendErr::StreamingCancelled) }),
        }
    }

    /// drop the `StreamingPayload` (chunk futures still alive keep it alive)
    pub fn stream_drop(&self, idx: usize) {
        if let Some(slot) = self.streams.borrow_mut().get_mut(idx) {
            slot.take();
        }
    }

    /// `PublishReceived::release()` of a stored receipt
    pub fn release(&self, idx: usize) -> BoxFut<SendRes> {
        let r = self.receipts.borrow_mut().get_mut(idx).and_then(Option::take);
        match r {
            Some(f) => {
                let fut = f();
                Box::pin(async move {
                    match fut.await {
                        Ok(()) => SendRes::Released,
                        Err(e) => SendRes::Err(send_err(e)),
                    }
                })
            }
            None => Box::pin(async { SendRes::Err(SendErr::UnexpectedRelease) }),
        }
    }

    /// drop a stored receipt without releasing it explicitly
    pub fn drop_receipt(&self, idx: usize) {
        if let Some(slot) = self.receipts.borrow_mut().get_mut(idx) {
            slot.take();
        }
    }
}
