//! MQTT 3.1.1 endpoints under test (server and client) on the in-memory bed.

use std::cell::RefCell;
use std::num::NonZeroU16;
use std::rc::Rc;

use ntex::service::{Pipeline, ServiceFactory, cfg::SharedCfg, fn_service};
use ntex_bytes::{ByteString, Bytes};
use ntex_io::{Io, IoBoxed, IoConfig};
use ntex_mqtt::v3::{self, client, codec};
use ntex_mqtt::{Control, MqttServiceConfig, Reason};
use ntex_util::time::Seconds;

use super::v5::{read_whole, BoxFut, Receipt, SendErr, SendKind, SendRes, SendSpec, StreamFn, send_err};
use super::*;
use crate::conv;
use crate::spec::v3 as s3;
use crate::spec::v5 as s5;

#[derive(Debug, Clone)]
pub struct AppErr {
    pub tag: &'static str,
}

impl From<()> for AppErr {
    fn from((): ()) -> Self {
        AppErr { tag: "init" }
    }
}

#[derive(Clone, Debug, PartialEq, serde::Serialize, serde::Deserialize)]
pub enum Hs3 {
    Accept { idle_timeout: Option<u16>, max_send: Option<u16>, session_present: bool },
    Refuse(u8),
    Fail,
}

impl Default for Hs3 {
    fn default() -> Self {
        Hs3::Accept { idle_timeout: None, max_send: None, session_present: false }
    }
}

#[derive(Clone, Debug, PartialEq, serde::Serialize, serde::Deserialize)]
pub struct Cfg3 {
    pub max_qos: u8,
    pub max_size: u32,
    pub max_receive: u16,
    pub max_receive_size: usize,
    pub max_send: u16,
    pub min_chunk_size: u32,
    pub max_payload_buffer: usize,
    pub handle_qos_after_disconnect: Option<u8>,
    pub write_hw: usize,
    /// seconds the peer has to complete CONNECT (0 = disabled)
    #[serde(default)]
    pub connect_timeout: u16,
    /// frame read rate: (timeout s, max timeout s, bytes per timeout)
    #[serde(default)]
    pub frame_read_rate: Option<(u16, u16, u32)>,
    pub router: bool,
    pub hs: Hs3,
    /// server: `HandshakeAck::max_packet_size`
    #[serde(default)]
    pub hs_max_packet: Option<u32>,
    /// server: the per-connection publish service is created only when gate (G_FACT, 0) opens (a slow service factory)
    #[serde(default)]
    pub hold_factory: bool,
    pub connect: s3::Connect3,
    /// client role: (session present, return code) of the scripted CONNACK
    pub connack: (bool, u8),
}

impl Default for Cfg3 {
    fn default() -> Self {
        Cfg3 {
            max_qos: 2,
            max_size: 0,
            max_receive: 16,
            max_receive_size: 65_535,
            max_send: 16,
            min_chunk_size: 32 * 1024,
            max_payload_buffer: 32 * 1024,
            handle_qos_after_disconnect: None,
            write_hw: 0,
            connect_timeout: 0,
            frame_read_rate: None,
            router: false,
            hs: Hs3::default(),
            hs_max_packet: None,
            hold_factory: false,
            connect: s3::Connect3 { client_id: "cid".into(), clean_session: true, ..Default::default() },
            connack: (false, 0),
        }
    }
}

impl Cfg3 {
    pub fn shared(&self) -> SharedCfg {
        let m = MqttServiceConfig::new()
            .set_max_qos(conv::qos(self.max_qos))
            .set_max_size(self.max_size)
            .set_max_receive(self.max_receive)
            .set_max_receive_size(self.max_receive_size)
            .set_max_send(self.max_send)
            .set_min_chunk_size(self.min_chunk_size)
            .set_max_payload_buffer_size(self.max_payload_buffer)
            .set_handle_qos_after_disconnect(self.handle_qos_after_disconnect.map(conv::qos))
            .set_connect_timeout(Seconds(self.connect_timeout));
        let mut io = IoConfig::new().set_keepalive_timeout(Seconds::ZERO).set_disconnect_timeout(Seconds(1));
        if let Some((t, mx, rate)) = self.frame_read_rate {
            io = io.set_frame_read_rate(Seconds(t), Seconds(mx), rate);
        }
        if self.write_hw != 0 {
            io = io.set_write_buf(self.write_hw, self.write_hw / 4, 0).set_write_buf_threshold(0);
        }
        SharedCfg::new("VERIF3").add(m).add(io).into()
    }
}

pub type SrvPipeline = Pipeline<ntex::service::boxed::BoxService<IoBoxed, (), ntex_mqtt::MqttError<AppErr>>>;

pub struct Eut3 {
    pub role: Role,
    pub peer: Peer,
    pub app: Rc<App>,
    pub done: Rc<Done>,
    pub sink: Rc<RefCell<Option<v3::MqttSink>>>,
    pub receipts: Rc<RefCell<Vec<Option<Receipt>>>>,
    pub streams: Rc<RefCell<Vec<Option<StreamFn>>>>,
    pub noblock: Rc<crate::bed::v5::NoBlock>,
}

fn stop_kind(r: &Reason<AppErr>) -> StopKind {
    match r {
        Reason::Error(e) => StopKind::Error(e.get_ref().tag.to_owned()),
        Reason::Protocol(p) => StopKind::Protocol(format!("{:?}", p.get_ref())),
        Reason::PeerGone(p) => StopKind::PeerGone(p.err().map(|e| e.kind().to_string())),
    }
}

async fn control_service(app: Rc<App>, msg: Control<AppErr>) -> Result<Option<codec::Encoded>, AppErr> {
    match msg {
        Control::WrBackpressure(w) => {
            app.push(Ev::WrBackpressure(w.enabled()));
            // a control service that takes its time over the notification (the sink's state must not depend on it)
            if w.enabled() && app.hold_backpressure.get() {
                app.wait_backpressure().await;
            }
            let res = if app.fail_on_backpressure.get() && w.enabled() { Err(AppErr { tag: "control-backpressure" }) } else { Ok(None) };
            app.push(Ev::ControlExit { stop: false });
            res
        }
        Control::Stop(reason) => {
            app.push(Ev::Stop(stop_kind(&reason)));
            if app.hold_stop.get() {
                app.wait(G_STOP, 0).await;
            }
            app.push(Ev::ControlExit { stop: true });
            match app.stop_answer.get() {
                StopAnswer::Fail => Err(AppErr { tag: "control-fail" }),
                _ => Ok(None),
            }
        }
    }
}

async fn read_payload<F, Fut>(app: &App, seq: u32, mut read: F, max_chunks: Option<u8>)
where
    F: FnMut() -> Fut,
    Fut: std::future::Future<Output = Result<Option<Bytes>, ntex_mqtt::error::PayloadError>>,
{
    let mut data = Vec::new();
    let mut n = 0u8;
    let end = loop {
        if let Some(m) = max_chunks {
            if n >= m {
                break ReadEnd::Stopped;
            }
        }
        match read().await {
            Ok(Some(b)) => {
                app.pieces.borrow_mut().push((seq, b.len()));
                data.extend_from_slice(&b);
                n = n.saturating_add(1);
            }
            Ok(None) => break ReadEnd::Eof,
            Err(e) => break ReadEnd::Err(format!("{e:?}")),
        }
    };
    app.push(Ev::PubRead { seq, data, end });
}

fn seen_of(p: &codec::Publish, route: u8) -> Seen {
    Seen {
        topic: p.topic.to_string(),
        qos: conv::qos_u8(p.qos),
        dup: p.dup,
        retain: p.retain,
        pid: p.packet_id.map(NonZeroU16::get),
        payload_size: p.payload_size,
        props: None,
        route,
    }
}

async fn publish_handler(app: Rc<App>, mut p: v3::Publish, route: u8) -> Result<(), AppErr> {
    let seq = app.next_pub_seq();
    let size = u64::from(p.packet_size());
    app.enter_pub(size);
    let mut guard = DropGuard { app: app.clone(), seq, publish: true, size, done: false };
    app.push(Ev::PubEnter { seq, seen: seen_of(p.packet(), route) });
    app.entered(seq);
    let plan = app.pub_plan(seq);
    match plan.read {
        ReadPlan::Eager => read_payload(&app, seq, || p.read(), None).await,
        ReadPlan::ReadK(k) => read_payload(&app, seq, || p.read(), Some(k)).await,
        ReadPlan::EagerAll => read_whole(&app, seq, p.read_all().await),
        ReadPlan::Detached => super::v5::read_detached(app.clone(), seq, p.take_payload()),
        _ => {}
    }
    app.wait(G_PUB, seq).await;
    if plan.read == ReadPlan::Lazy {
        read_payload(&app, seq, || p.read(), None).await;
    }
    if plan.read == ReadPlan::LazyAll {
        read_whole(&app, seq, p.read_all().await);
    }
    guard.done = true;
    app.push(Ev::PubExit { seq, outcome: plan.outcome });
    match plan.outcome {
        Outcome::Ok => Ok(()),
        _ => Err(AppErr { tag: "publish-error" }),
    }
}

async fn protocol_handler(app: Rc<App>, msg: v3::ProtocolMessage) -> Result<v3::ProtocolMessageAck, AppErr> {
    let (kind, pid) = match &msg {
        v3::ProtocolMessage::PublishRelease(m) => (CtlKind::PubRel, Some(m.packet_id.get())),
        v3::ProtocolMessage::Subscribe(_) => (CtlKind::Subscribe, None),
        v3::ProtocolMessage::Unsubscribe(_) => (CtlKind::Unsubscribe, None),
        v3::ProtocolMessage::Disconnect(_) => (CtlKind::Disconnect, None),
        v3::ProtocolMessage::Ping(_) => (CtlKind::Ping, None),
    };
    let seq = app.next_ctl_seq();
    let mut guard = DropGuard { app: app.clone(), seq, publish: false, size: 0, done: false };
    app.push(Ev::CtlEnter { seq, kind, pid });
    app.wait(G_CTL, seq).await;
    guard.done = true;
    app.push(Ev::CtlExit { seq });
    match app.ctl_plan(seq) {
        CtlPlan::Ack | CtlPlan::AckDiag => Ok(match msg {
            v3::ProtocolMessage::Subscribe(mut s) => {
                for mut sub in &mut s {
                    let q = sub.qos();
                    sub.confirm(q);
                }
                s.ack()
            }
            v3::ProtocolMessage::Unsubscribe(u) => u.ack(),
            other => other.ack(),
        }),
        CtlPlan::Err => Err(AppErr { tag: "protocol-error" }),
        CtlPlan::Disconnect(_) => Ok(msg.disconnect()),
    }
}

pub async fn server_pipeline(app: Rc<App>, cfg: &Cfg3, sinks: Rc<RefCell<Vec<v3::MqttSink>>>) -> SrvPipeline {
    let hs = cfg.hs.clone();
    let hs_max_packet = cfg.hs_max_packet;
    let app_h = app.clone();
    let handshake = move |h: v3::Handshake| {
        let hs = hs.clone();
        let app = app_h.clone();
        let sinks = sinks.clone();
        async move {
            app.push(Ev::Handshake);
            // the application may use the sink while its handshake service is still running
            if matches!(hs, Hs3::Accept { .. }) {
                sinks.borrow_mut().push(h.sink());
            }
            // a slow handshake service (gate closed by the check)
            app.wait(G_HS, 0).await;
            match hs {
                Hs3::Accept { idle_timeout, max_send, session_present } => {
                    let mut ack = h.ack((), session_present);
                    if let Some(k) = idle_timeout {
                        ack = ack.idle_timeout(Seconds(k));
                    }
                    if max_send.is_some() {
                        ack = ack.max_send(max_send);
                    }
                    if let Some(m) = hs_max_packet.and_then(std::num::NonZeroU32::new) {
                        ack = ack.max_packet_size(m);
                    }
                    Ok::<_, AppErr>(ack)
                }
                Hs3::Refuse(code) => Ok(h.failed(codec::ConnectAckReason::try_from(code).unwrap_or(codec::ConnectAckReason::NotAuthorized))),
                Hs3::Fail => Err(AppErr { tag: "handshake-fail" }),
            }
        }
    };
    let app_c = app.clone();
    let app_p = app.clone();
    let app_pub = app.clone();
    let shared = cfg.shared();
    let builder = v3::MqttServer::new(handshake)
        .control(move |msg: Control<AppErr>| control_service(app_c.clone(), msg))
        .protocol(move |msg: v3::ProtocolMessage| protocol_handler(app_p.clone(), msg));
    if cfg.router {
        let a0 = app_pub.clone();
        let a1 = app_pub.clone();
        let a2 = app_pub.clone();
        let router = v3::Router::<(), AppErr>::new(ntex::service::fn_factory_with_config(move |_: v3::Session<()>| {
            let a0 = a0.clone();
            async move { Ok::<_, AppErr>(fn_service(move |p: v3::Publish| publish_handler(a0.clone(), p, 0))) }
        }))
        .resource("t/a", fn_service(move |p: v3::Publish| publish_handler(a1.clone(), p, 1)))
        .resource("t/{x}", fn_service(move |p: v3::Publish| publish_handler(a2.clone(), p, 2)));
        let srv = builder.publish(router);
        let svc = ServiceFactory::<IoBoxed, SharedCfg>::create(&srv, shared).await.expect("server factory");
        Pipeline::new(ntex::service::boxed::service(svc))
    } else {
        if cfg.hold_factory {
            app_pub.hold(G_FACT, 0);
        }
        let srv = builder.publish(ntex::service::fn_factory_with_config(move |_: v3::Session<()>| {
            let app = app_pub.clone();
            async move {
                // a service factory that takes its time (only when held)
                app.wait(G_FACT, 0).await;
                let gate_app = app.clone();
                Ok::<_, AppErr>(GatedReady { inner: fn_service(move |p: v3::Publish| publish_handler(app.clone(), p, 0)), app: gate_app })
            }
        }));
        let svc = ServiceFactory::<IoBoxed, SharedCfg>::create(&srv, shared).await.expect("server factory");
        Pipeline::new(ntex::service::boxed::service(svc))
    }
}

#[derive(Clone, Debug, PartialEq, Eq)]
pub struct WirePkt3 {
    pub pkt: s3::P3,
    pub payload: Vec<u8>,
    pub end: usize,
}

pub use super::v5::WireTail;

pub fn parse_wire(wire: &[u8]) -> (Vec<WirePkt3>, WireTail) {
    use crate::spec::wire::{Split, split};
    let mut out = Vec::new();
    let mut off = 0;
    while off < wire.len() {
        match split(&wire[off..]) {
            Split::NeedHeader => return (out, WireTail::Incomplete(wire.len() - off)),
            Split::BadVarint => return (out, WireTail::Garbage { at: off, why: "bad Remaining Length".into() }),
            Split::Frame { first, rl, hdr, complete } => {
                if !complete {
                    return (out, WireTail::Incomplete(wire.len() - off));
                }
                let body = &wire[off + hdr..off + hdr + rl as usize];
                let end = off + hdr + rl as usize;
                if first >> 4 == 3 {
                    match s3::decode_publish_header(first, rl, body) {
                        Ok(Some((p, hl, _))) => out.push(WirePkt3 { pkt: s3::P3::Publish(p), payload: body[hl..].to_vec(), end }),
                        other => return (out, WireTail::Garbage { at: off, why: format!("PUBLISH: {other:?}") }),
                    }
                } else {
                    match s3::decode(first, body) {
                        s3::Verdict::Valid { pkt, .. } => out.push(WirePkt3 { pkt, payload: Vec::new(), end }),
                        s3::Verdict::Invalid(r) => return (out, WireTail::Garbage { at: off, why: format!("{r:?}") }),
                    }
                }
                off = end;
            }
        }
    }
    (out, WireTail::Clean)
}

pub fn enc(p: &s3::P3) -> Vec<u8> {
    s3::encode(p, &[])
}
pub fn enc_pub(p: &s3::Publish3, payload: &[u8]) -> Vec<u8> {
    s3::encode(&s3::P3::Publish(p.clone()), payload)
}

impl Eut3 {
    fn new(role: Role, peer: Peer, app: Rc<App>) -> Self {
        Eut3 { role, peer, app, done: Rc::new(Done::default()), sink: Rc::new(RefCell::new(None)), receipts: Rc::new(RefCell::new(Vec::new())), streams: Rc::new(RefCell::new(Vec::new())), noblock: Rc::new(crate::bed::v5::NoBlock::default()) }
    }

    pub fn attach_server(pipeline: &SrvPipeline, app: Rc<App>, cfg: &Cfg3) -> Eut3 {
        let (peer, server_io) = Peer::pair();
        let eut = Eut3::new(Role::V3Server, peer, app);
        let io = Io::new(server_io, cfg.shared());
        let done = eut.done.clone();
        let pl = pipeline.clone();
        ntex::rt::spawn(async move {
            let r = pl.call(IoBoxed::from(io)).await;
            *done.0.borrow_mut() = Some(match r {
                Ok(()) => "ok".to_owned(),
                Err(e) => format!("err: {e:?}"),
            });
        });
        eut
    }

    pub async fn start_server(cfg: &Cfg3) -> Eut3 {
        let app = App::new();
        let sinks = Rc::new(RefCell::new(Vec::new()));
        let pipeline = server_pipeline(app.clone(), cfg, sinks.clone()).await;
        let eut = Eut3::attach_server(&pipeline, app, cfg);
        let slot = eut.sink.clone();
        let s2 = sinks.clone();
        ntex::rt::spawn(async move {
            loop {
                if let Some(s) = s2.borrow().first() {
                    *slot.borrow_mut() = Some(s.clone());
                    break;
                }
                yield_now().await;
                if Rc::strong_count(&s2) == 1 {
                    break;
                }
            }
        });
        eut
    }

    pub async fn start_client(cfg: &Cfg3) -> Eut3 {
        let app = App::new();
        let (peer, client_io) = Peer::pair();
        let eut = Eut3::new(Role::V3Client, peer, app.clone());
        let shared = cfg.shared();
        let io_slot = Rc::new(RefCell::new(Some(client_io)));
        let shared2 = shared.clone();
        let connector = client::MqttConnector::new().connector(fn_service(move |_: ntex::connect::Connect<String>| {
            let io = io_slot.borrow_mut().take();
            let cfg = shared2.clone();
            async move {
                match io {
                    Some(io) => Ok::<_, ntex::connect::ConnectError>(Io::new(io, cfg)),
                    None => Err(ntex::connect::ConnectError::Unresolved),
                }
            }
        }));
        let pkt = match conv::to_lib3(&s3::P3::Connect(Box::new(cfg.connect.clone()))) {
            Ok(conv::Lib3::Packet(codec::Packet::Connect(c))) => *c,
            _ => codec::Connect::default(),
        };
        let done = eut.done.clone();
        let slot = eut.sink.clone();
        let router = cfg.router;
        ntex::rt::spawn(async move {
            let pipeline = match ServiceFactory::<client::Connect<String>, SharedCfg>::pipeline(&connector, shared).await {
                Ok(p) => p,
                Err(e) => {
                    *done.0.borrow_mut() = Some(format!("connector-init-error: {e:?}"));
                    return;
                }
            };
            let res = pipeline.call(client::Connect::with("127.0.0.1:1883".to_owned(), pkt)).await;
            match res {
                Err(e) => {
                    *done.0.borrow_mut() = Some(format!("connect-error: {e:?}"));
                }
                Ok(cl) => {
                    *slot.borrow_mut() = Some(cl.sink());
                    app.push(Ev::Handshake);
                    let a_p = app.clone();
                    let a_c = app.clone();
                    let r = if router {
                        let a1 = app.clone();
                        let a2 = app.clone();
                        cl.resource("t/a", fn_service(move |p: v3::Publish| publish_handler(a1.clone(), p, 1)))
                            .resource("t/{x}", fn_service(move |p: v3::Publish| publish_handler(a2.clone(), p, 2)))
                            .start(fn_service(move |m: client::ProtocolMessage| client_protocol_handler(a_p.clone(), m)))
                            .await
                            .map_err(|e| format!("{e:?}"))
                    } else {
                        cl.start_with_control(
                            fn_service(move |m: client::ProtocolMessage| client_protocol_handler(a_p.clone(), m)),
                            fn_service(move |m: Control<AppErr>| control_service(a_c.clone(), m)),
                        )
                        .await
                        .map_err(|e| format!("{e:?}"))
                    };
                    *done.0.borrow_mut() = Some(match r {
                        Ok(()) => "ok".to_owned(),
                        Err(e) => format!("err: {e}"),
                    });
                }
            }
        });
        eut
    }

    pub async fn start(role: Role, cfg: &Cfg3) -> Eut3 {
        if role == Role::V3Server { Eut3::start_server(cfg).await } else { Eut3::start_client(cfg).await }
    }

    pub async fn settle(&self) -> bool {
        let sink = self.sink.clone();
        let extra = move || sink.borrow().as_ref().map_or(0, |s| s.credit() * 2 + usize::from(s.is_open()));
        let w = Watch { peer: &self.peer, app: &self.app, done: &self.done, extra: &extra };
        settle(&w).await
    }

    pub async fn handshake(&self, cfg: &Cfg3) -> Vec<WirePkt3> {
        if self.role == Role::V3Server {
            self.peer.send(&enc(&s3::P3::Connect(Box::new(cfg.connect.clone()))));
            self.settle().await;
        } else {
            self.settle().await;
            self.peer.send(&enc(&s3::P3::ConnAck { session_present: cfg.connack.0, code: cfg.connack.1 }));
            self.settle().await;
        }
        self.packets().0
    }

    pub fn packets(&self) -> (Vec<WirePkt3>, WireTail) {
        self.peer.pump();
        parse_wire(&self.peer.wire.borrow())
    }

    pub fn sink(&self) -> Option<v3::MqttSink> {
        self.sink.borrow().clone()
    }

    pub fn send3(&self, p: &s3::P3) {
        self.peer.send(&enc(p));
    }

    pub fn send(&self, spec: SendSpec) -> BoxFut<SendRes> {
        let Some(sink) = self.sink() else {
            return Box::pin(async { SendRes::Err(SendErr::Disconnected) });
        };
        let receipts = self.receipts.clone();
        match spec.kind {
            SendKind::Qos0 => {
                let r = sink.publish(ByteString::from(spec.topic)).send_at_most_once(Bytes::from(spec.payload));
                Box::pin(async move {
                    match r {
                        Ok(()) => SendRes::Sent,
                        Err(e) => SendRes::Err(send_err(e)),
                    }
                })
            }
            SendKind::NoBlock => {
                if !sink.is_ready() {
                    return Box::pin(async { SendRes::Err(SendErr::NotReady) });
                }
                let nb = self.noblock.clone();
                if !nb.registered.replace(true) {
                    let (nb2, sink2) = (nb.clone(), sink.clone());
                    sink.publish_ack_cb(move |id, disconnected| {
                        if nb2.reenter.get() {
                            let _ = (sink2.is_ready(), sink2.credit(), sink2.is_open());
                            // an application that, told that the connection is gone, tries one more publish (it may not know
                            // better) and closes its sink
                            if disconnected {
                                let _ = sink2.publish(ByteString::from_static("late/word")).send_at_most_once(Bytes::new());
                                sink2.close();
                            }
                        }
                        nb2.acks.borrow_mut().push((s5::Ack5 { pid: id.get(), ..Default::default() }, disconnected));
                    });
                }
                let mut b = sink.publish(ByteString::from(spec.topic));
                if let Some(id) = spec.pid {
                    b = b.packet_id(id);
                }
                let r = b.send_at_least_once_no_block(Bytes::from(spec.payload)).map_err(send_err);
                crate::bed::v5::noblock_future(nb, r)
            }
            SendKind::Qos1 => {
                let mut b = sink.publish(ByteString::from(spec.topic));
                if let Some(id) = spec.pid {
                    b = b.packet_id(id);
                }
                let fut = b.send_at_least_once(Bytes::from(spec.payload));
                Box::pin(async move {
                    match fut.await {
                        Ok(()) => SendRes::PubAck(s5::Ack5::default()),
                        Err(e) => SendRes::Err(send_err(e)),
                    }
                })
            }
            SendKind::Qos2 => {
                let mut b = sink.publish(ByteString::from(spec.topic));
                if let Some(id) = spec.pid {
                    b = b.packet_id(id);
                }
                let fut = b.send_exactly_once(Bytes::from(spec.payload));
                Box::pin(async move {
                    match fut.await {
                        Ok(rec) => {
                            let mut r = receipts.borrow_mut();
                            r.push(Some(Box::new(move || Box::pin(rec.release()) as BoxFut<_>)));
                            SendRes::Receipt(r.len() - 1, s5::Ack5::default())
                        }
                        Err(e) => SendRes::Err(send_err(e)),
                    }
                })
            }
            SendKind::Subscribe => {
                let mut b = sink.subscribe().topic_filter(ByteString::from(spec.topic), ntex_mqtt::QoS::AtLeastOnce);
                if let Some(id) = spec.pid {
                    b = b.packet_id(id);
                }
                let fut = b.send();
                Box::pin(async move {
                    match fut.await {
                        Ok(codes) => SendRes::SubAck(s5::SubAck5 {
                            codes: codes
                                .iter()
                                .map(|c| match c {
                                    codec::SubscribeReturnCode::Failure => 0x80,
                                    codec::SubscribeReturnCode::Success(q) => conv::qos_u8(*q),
                                })
                                .collect(),
                            ..Default::default()
                        }),
                        Err(e) => SendRes::Err(send_err(e)),
                    }
                })
            }
            SendKind::Unsubscribe => {
                let mut b = sink.unsubscribe().topic_filter(ByteString::from(spec.topic));
                if let Some(id) = spec.pid {
                    b = b.packet_id(id);
                }
                let fut = b.send();
                Box::pin(async move {
                    match fut.await {
                        Ok(()) => SendRes::UnsubAck(s5::SubAck5::default()),
                        Err(e) => SendRes::Err(send_err(e)),
                    }
                })
            }
            SendKind::Ready => Box::pin(async move { SendRes::Ready(sink.ready().await) }),
        }
    }

    /// start a streamed publish (QoS 0 or 1): the awaiting future (QoS 1) and the index of the stream handle
    pub fn stream_start(&self, qos: u8, topic: String, declared: u32, pid: Option<u16>) -> (Option<BoxFut<SendRes>>, Result<usize, SendErr>) {
        let Some(sink) = self.sink() else {
            return (None, Err(SendErr::Disconnected));
        };
        let mut b = sink.publish(ByteString::from(topic));
        if let Some(id) = pid {
            b = b.packet_id(id);
        }
        let keep = |f: StreamFn| -> usize {
            let mut v = self.streams.borrow_mut();
            v.push(Some(f));
            v.len() - 1
        };
        macro_rules! erase {
            ($stream:expr) => {{
                let st = Rc::new($stream);
                let f: StreamFn = Rc::new(move |chunk: Vec<u8>| {
                    let st = st.clone();
                    Box::pin(async move { st.send(Bytes::from(chunk)).await.map_err(send_err) }) as BoxFut<_>
                });
                f
            }};
        }
        if qos == 0 {
            match b.stream_at_most_once(declared) {
                Ok(stream) => (None, Ok(keep(erase!(stream)))),
                Err(e) => (None, Err(send_err(e))),
            }
        } else {
            let (fut, stream) = b.stream_at_least_once(declared);
            let idx = keep(erase!(stream));
            let fut: BoxFut<SendRes> = Box::pin(async move {
                match fut.await {
                    Ok(()) => SendRes::PubAck(s5::Ack5::default()),
                    Err(e) => SendRes::Err(send_err(e)),
                }
            });
            (Some(fut), Ok(idx))
        }
    }

    /// `StreamingPayload::send(chunk)` (created, not polled)
    pub fn stream_chunk(&self, idx: usize, chunk: Vec<u8>) -> BoxFut<Result<(), SendErr>> {
        let f = self.streams.borrow().get(idx).and_then(Clone::clone);
        match f {
            Some(f) => f(chunk),
            None => Box::pin(async { Err(SendErr::StreamingCancelled) }),
        }
    }

    /// drop the `StreamingPayload` (chunk futures still alive keep it alive)
    pub fn stream_drop(&self, idx: usize) {
        if let Some(slot) = self.streams.borrow_mut().get_mut(idx) {
            slot.take();
        }
    }

    pub fn release(&self, idx: usize) -> BoxFut<SendRes> {
        let r = self.receipts.borrow_mut().get_mut(idx).and_then(Option::take);
        match r {
            Some(f) => {
                let fut = f();
                Box::pin(async move {
                    match fut.await {
                        Ok(()) => SendRes::Released,
                        Err(e) => SendRes::Err(send_err(e)),
                    }
                })
            }
            None => Box::pin(async { SendRes::Err(SendErr::UnexpectedRelease) }),
        }
    }

    pub fn drop_receipt(&self, idx: usize) {
        if let Some(slot) = self.receipts.borrow_mut().get_mut(idx) {
            slot.take();
        }
    }
}

async fn client_protocol_handler(app: Rc<App>, msg: client::ProtocolMessage) -> Result<v3::ProtocolMessageAck, AppErr> {
    match msg {
        client::ProtocolMessage::Publish(p) => {
            let seq = app.next_pub_seq();
            let size = u64::from(p.packet_size());
            app.enter_pub(size);
            let mut guard = DropGuard { app: app.clone(), seq, publish: true, size, done: false };
            app.push(Ev::PubEnter { seq, seen: seen_of(p.packet(), 255) });
            let plan = app.pub_plan(seq);
            match plan.read {
                ReadPlan::Eager => read_payload(&app, seq, || p.read(), None).await,
                ReadPlan::ReadK(k) => read_payload(&app, seq, || p.read(), Some(k)).await,
                ReadPlan::EagerAll => read_whole(&app, seq, p.read_all().await),
                _ => {}
            }
            app.wait(G_PUB, seq).await;
            if plan.read == ReadPlan::Lazy {
                read_payload(&app, seq, || p.read(), None).await;
            }
            if plan.read == ReadPlan::LazyAll {
                read_whole(&app, seq, p.read_all().await);
            }
            guard.done = true;
            app.push(Ev::PubExit { seq, outcome: plan.outcome });
            match plan.outcome {
                Outcome::Ok => Ok(p.ack()),
                _ => Err(AppErr { tag: "publish-error" }),
            }
        }
        other => {
            let (kind, pid) = match &other {
                client::ProtocolMessage::PublishRelease(m) => (CtlKind::PubRel, Some(m.packet_id.get())),
                _ => (CtlKind::Ping, None),
            };
            let seq = app.next_ctl_seq();
            let mut guard = DropGuard { app: app.clone(), seq, publish: false, size: 0, done: false };
            app.push(Ev::CtlEnter { seq, kind, pid });
            app.wait(G_CTL, seq).await;
            guard.done = true;
            app.push(Ev::CtlExit { seq });
            match app.ctl_plan(seq) {
                CtlPlan::Err => Err(AppErr { tag: "protocol-error" }),
                _ => Ok(other.ack()),
            }
        }
    }
}
