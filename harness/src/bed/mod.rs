//! In-memory test bed: one ntex `System` per worker, an `IoTest` duplex pipe
//! whose far side is played by the harness, an instrumented application whose
//! handlers are gated by the driver, and a yield-only `settle()`.

use std::cell::{Cell, RefCell};
use std::collections::HashMap;
use std::future::Future;
use std::pin::Pin;
use std::rc::Rc;
use std::task::{Context, Poll, Waker};

use ntex_io::testing::IoTest;

use crate::runner::{CaseInfo, Failure, catch, take_panic_info};

pub mod any;
pub mod v3;
pub mod v5;

// --- runtime ------------------------------------------------------------------------

/// Returns `Pending` once and wakes itself: puts the driver at the back of the
/// runtime's FIFO queue, so every currently runnable library task runs once.
pub struct Yield(bool);

impl Future for Yield {
    type Output = ();
    fn poll(mut self: Pin<&mut Self>, cx: &mut Context<'_>) -> Poll<()> {
        if self.0 {
            Poll::Ready(())
        } else {
            self.0 = true;
            cx.waker().wake_by_ref();
            Poll::Pending
        }
    }
}

pub fn yield_now() -> Yield {
    Yield(false)
}

pub async fn yields(n: usize) {
    for _ in 0..n {
        yield_now().await;
    }
}

/// Run an async body inside a fresh ntex System; panics anywhere (driver,
/// dispatcher task, spawned response task) unwind out of `block_on` and are
/// returned as `Err(panic description)`.
///
/// Every System lives on an OS thread of its own: ntex keeps per-thread state
/// (timer wheel and its driver task, the io registry) that outlives a System,
/// so a second System on the same thread finds a timer wheel whose driver died
/// with the first one (sleeps never fire) and everything those structures still
/// reference is never freed (about 30 KB per simulated connection).  A thread
/// per System gives each a clean slate and returns the memory when it ends.
pub fn with_system<R: 'static>(fut: impl Future<Output = R> + 'static) -> Result<R, String> {
    /// the future has not been polled when it crosses the thread boundary and is
    /// consumed entirely on the new thread; the result comes back by value after
    /// the thread (and every thread-local `Rc` it created) has gone
    struct Ferry<T>(T);
    unsafe impl<T> Send for Ferry<T> {}
    if std::env::var_os("VERIF_SAME_THREAD").is_some() {
        return catch(move || ntex::rt::System::new("verif", ntex::rt::DefaultRuntime).block_on(fut));
    }
    let fut = Ferry(fut);
    let handle = std::thread::Builder::new()
        .name("verif-system".into())
        .stack_size(16 << 20)
        .spawn(move || {
            let fut = fut;
            Ferry(catch(move || ntex::rt::System::new("verif", ntex::rt::DefaultRuntime).block_on(fut.0)))
        })
        .expect("spawn system thread");
    match handle.join() {
        Ok(r) => r.0,
        Err(_) => Err("panic (system thread died)".into()),
    }
}

/// Poll a boxed future once with the driver's own waker.
pub fn poll_once<T>(fut: &mut Pin<Box<dyn Future<Output = T>>>) -> impl Future<Output = Option<T>> + '_ {
    std::future::poll_fn(move |cx| match fut.as_mut().poll(cx) {
        Poll::Ready(v) => Poll::Ready(Some(v)),
        Poll::Pending => Poll::Ready(None),
    })
}

// --- application side log -------------------------------------------------------------

#[derive(Clone, Debug, PartialEq, Eq)]
pub enum StopKind {
    /// application error (tag of the error the application produced)
    Error(String),
    /// protocol error, Debug rendering of `ProtocolError`
    Protocol(String),
    PeerGone(Option<String>),
}

#[derive(Clone, Copy, Debug, PartialEq, Eq, Hash)]
pub enum CtlKind {
    Subscribe,
    Unsubscribe,
    PubRel,
    Ping,
    Auth,
    Disconnect,
    /// client role: PUBLISH that no resource route matched
    Publish,
}

#[derive(Clone, Debug, PartialEq, Eq)]
pub enum ReadEnd {
    Eof,
    Err(String),
    /// handler stopped reading by plan
    Stopped,
}

/// Neutral rendering of what a publish handler saw.
#[derive(Clone, Debug, PartialEq, Eq, Default)]
pub struct Seen {
    pub topic: String,
    pub qos: u8,
    pub dup: bool,
    pub retain: bool,
    pub pid: Option<u16>,
    pub payload_size: u32,
    /// v5: the reference rendering of all publish properties
    pub props: Option<crate::spec::v5::Publish5>,
    /// which handler ran: 0 = plain publish service, n = n-th router resource,
    /// 255 = client protocol handler (unrouted)
    pub route: u8,
}

#[derive(Clone, Debug, PartialEq, Eq)]
pub enum Ev {
    Handshake,
    PubEnter { seq: u32, seen: Seen },
    PubRead { seq: u32, data: Vec<u8>, end: ReadEnd },
    PubExit { seq: u32, outcome: Outcome },
    PubDrop { seq: u32 },
    CtlEnter { seq: u32, kind: CtlKind, pid: Option<u16> },
    CtlExit { seq: u32 },
    CtlDrop { seq: u32 },
    WrBackpressure(bool),
    Stop(StopKind),
    /// the control service finished handling the n-th control message
    ControlExit { stop: bool },
}

#[derive(Clone, Copy, Debug, PartialEq, Eq, Hash, serde::Serialize, serde::Deserialize)]
pub enum Outcome {
    Ok,
    /// application error without acknowledgement mapping
    Err,
    /// v5: handler returns a negative acknowledgement with this reason code
    NegAck(u8),
    /// v5: handler fails with an error that converts into a negative
    /// acknowledgement with this reason code
    ErrAck(u8),
}

#[derive(Clone, Copy, Debug, PartialEq, Eq, Hash, serde::Serialize, serde::Deserialize)]
pub enum ReadPlan {
    /// read until the end before waiting on the gate
    Eager,
    /// wait on the gate first, then read until the end
    Lazy,
    /// never read
    Abandon,
    /// read this many chunks, then stop
    ReadK(u8),
    /// `read_all()` before waiting on the gate
    EagerAll,
    /// wait on the gate first, then `read_all()`
    LazyAll,
    /// `take_payload()` and read it to the end in a task of its own (the reader outlives the handler)
    Detached,
}

#[derive(Clone, Copy, Debug, PartialEq, Eq, Hash, serde::Serialize, serde::Deserialize)]
pub struct PubPlan {
    pub outcome: Outcome,
    pub read: ReadPlan,
}

impl Default for PubPlan {
    fn default() -> Self {
        PubPlan { outcome: Outcome::Ok, read: ReadPlan::Eager }
    }
}

#[derive(Clone, Copy, Debug, PartialEq, Eq, Hash, serde::Serialize, serde::Deserialize)]
pub enum CtlPlan {
    /// acknowledge normally
    Ack,
    /// acknowledge; v5 SUBSCRIBE / UNSUBSCRIBE acknowledgements carry a reason string and a user property
    AckDiag,
    /// fail with an application error
    Err,
    /// v5: answer with `disconnect_with(reason)`; v3: `disconnect()`
    Disconnect(u8),
}

#[derive(Clone, Copy, Debug, PartialEq, Eq, Hash, serde::Serialize, serde::Deserialize)]
pub enum StopAnswer {
    /// `Ok(None)`: let the library pick the packet
    None,
    /// v5: answer with an own DISCONNECT carrying this reason code
    Own(u8),
    /// the control service itself fails
    Fail,
}

enum Gate {
    Closed(Option<Waker>),
    Open,
}

/// Instrumented application shared by all handlers of one connection (or of
/// several connections of one server factory).
pub struct App {
    pub log: RefCell<Vec<Ev>>,
    /// sizes of the pieces the chunk-wise readers (`read()`) were handed, by publish
    pub pieces: RefCell<Vec<(u32, usize)>>,
    gates: RefCell<HashMap<(u8, u32), Gate>>,
    /// gate state of invocations that have no explicit entry
    pub default_open: Cell<bool>,
    pub pub_plans: RefCell<HashMap<u32, PubPlan>>,
    pub default_pub_plan: Cell<PubPlan>,
    pub ctl_plans: RefCell<HashMap<u32, CtlPlan>>,
    pub stop_answer: Cell<StopAnswer>,
    /// hold the Stop notification open until the driver releases gate (2, 0)
    pub hold_stop: Cell<bool>,
    /// fail the control service on the first back-pressure notification
    pub fail_on_backpressure: Cell<bool>,
    /// the control service stays inside every "write back-pressure enabled" notification until gate (G_BP, 0) opens
    pub hold_backpressure: Cell<bool>,
    pub bp_seq: Cell<u32>,
    /// readiness of the application's publish service itself (server roles, plain publish service): false = not ready
    pub svc_ready: Cell<bool>,
    svc_waker: RefCell<Option<Waker>>,
    /// called synchronously when a publish handler is entered (before its first await)
    pub on_pub_enter: RefCell<Option<Rc<dyn Fn(u32)>>>,
    pub pub_seq: Cell<u32>,
    pub ctl_seq: Cell<u32>,
    pub active_pub: Cell<u32>,
    pub max_active_pub: Cell<u32>,
    /// bytes (Remaining Length) of the publishes currently inside handlers
    pub active_bytes: Cell<u64>,
    pub max_active_bytes: Cell<u64>,
    /// size of the packet admitted when the maximum was reached
    pub max_active_last: Cell<u64>,
}

pub const G_PUB: u8 = 0;
pub const G_CTL: u8 = 1;
pub const G_STOP: u8 = 2;
/// the handshake service (server roles)
pub const G_HS: u8 = 3;
/// the control service handling a "write back-pressure enabled" notification (only when `hold_backpressure` is set)
pub const G_BP: u8 = 4;
/// the per-connection publish service factory (server roles; only when the configuration asks for `hold_factory`)
pub const G_FACT: u8 = 5;

impl App {
    pub fn new() -> Rc<App> {
        Rc::new(App {
            log: RefCell::new(Vec::new()),
            gates: RefCell::new(HashMap::new()),
            default_open: Cell::new(true),
            pub_plans: RefCell::new(HashMap::new()),
            default_pub_plan: Cell::new(PubPlan::default()),
            ctl_plans: RefCell::new(HashMap::new()),
            stop_answer: Cell::new(StopAnswer::None),
            hold_stop: Cell::new(false),
            fail_on_backpressure: Cell::new(false),
            hold_backpressure: Cell::new(false),
            bp_seq: Cell::new(0),
            svc_ready: Cell::new(true),
            svc_waker: RefCell::new(None),
            on_pub_enter: RefCell::new(None),
            pub_seq: Cell::new(0),
            ctl_seq: Cell::new(0),
            active_pub: Cell::new(0),
            max_active_pub: Cell::new(0),
            active_bytes: Cell::new(0),
            max_active_bytes: Cell::new(0),
            pieces: RefCell::new(Vec::new()),
            max_active_last: Cell::new(0),
        })
    }
    pub fn push(&self, ev: Ev) {
        self.log.borrow_mut().push(ev);
    }
    pub fn next_pub_seq(&self) -> u32 {
        let s = self.pub_seq.get();
        self.pub_seq.set(s + 1);
        s
    }
    pub fn next_ctl_seq(&self) -> u32 {
        let s = self.ctl_seq.get();
        self.ctl_seq.set(s + 1);
        s
    }
    pub fn pub_plan(&self, seq: u32) -> PubPlan {
        self.pub_plans.borrow().get(&seq).copied().unwrap_or(self.default_pub_plan.get())
    }
    pub fn ctl_plan(&self, seq: u32) -> CtlPlan {
        self.ctl_plans.borrow().get(&seq).copied().unwrap_or(CtlPlan::Ack)
    }
    /// open the gate of an invocation (also before it exists)
    pub fn open(&self, kind: u8, seq: u32) {
        let prev = self.gates.borrow_mut().insert((kind, seq), Gate::Open);
        if let Some(Gate::Closed(Some(w))) = prev {
            w.wake();
        }
    }
    /// keep the gate of a future invocation closed although `default_open`
    pub fn hold(&self, kind: u8, seq: u32) {
        self.gates.borrow_mut().entry((kind, seq)).or_insert(Gate::Closed(None));
    }
    /// close a gate again (after `open_all`)
    pub fn rehold(&self, kind: u8, seq: u32) {
        self.gates.borrow_mut().insert((kind, seq), Gate::Closed(None));
    }
    pub fn open_all(&self) {
        self.default_open.set(true);
        let mut g = self.gates.borrow_mut();
        for (_, v) in g.iter_mut() {
            if let Gate::Closed(Some(w)) = std::mem::replace(v, Gate::Open) {
                w.wake();
            }
        }
    }
    pub fn wait(self: &Rc<Self>, kind: u8, seq: u32) -> impl Future<Output = ()> + 'static {
        let app = self.clone();
        std::future::poll_fn(move |cx| {
            let mut g = app.gates.borrow_mut();
            match g.get_mut(&(kind, seq)) {
                Some(Gate::Open) => Poll::Ready(()),
                Some(Gate::Closed(w)) => {
                    *w = Some(cx.waker().clone());
                    Poll::Pending
                }
                None => {
                    if app.default_open.get() {
                        Poll::Ready(())
                    } else {
                        g.insert((kind, seq), Gate::Closed(Some(cx.waker().clone())));
                        Poll::Pending
                    }
                }
            }
        })
    }
    /// the publish service of the application turns not ready / ready again by itself (no inbound packet involved)
    pub fn set_service_ready(&self, ready: bool) {
        self.svc_ready.set(ready);
        if let Some(w) = self.svc_waker.borrow_mut().take() {
            w.wake();
        }
    }
    /// readiness check of `GatedReady`
    pub fn poll_service_ready(&self, cx: &mut Context<'_>) -> Poll<()> {
        // the waker is kept in either case: a service that turns not ready wakes whoever asked last, the way a
        // service whose resource ran out would (a spurious wake-up is always legitimate)
        *self.svc_waker.borrow_mut() = Some(cx.waker().clone());
        if self.svc_ready.get() { Poll::Ready(()) } else { Poll::Pending }
    }
    /// a held "write back-pressure enabled" notification: each waits on a gate of its own
    pub fn wait_backpressure(self: &Rc<Self>) -> impl Future<Output = ()> + 'static {
        let n = self.bp_seq.get();
        self.bp_seq.set(n + 1);
        self.hold(G_BP, n);
        self.wait(G_BP, n)
    }
    /// let every held back-pressure notification return, hold none from now on
    pub fn release_backpressure(&self) {
        self.hold_backpressure.set(false);
        for n in 0..self.bp_seq.get() {
            self.open(G_BP, n);
        }
    }
    pub fn entered(&self, seq: u32) {
        let cb = self.on_pub_enter.borrow().clone();
        if let Some(cb) = cb {
            cb(seq);
        }
    }
    pub fn enter_pub(&self, size: u64) {
        let n = self.active_pub.get() + 1;
        self.active_pub.set(n);
        if n > self.max_active_pub.get() {
            self.max_active_pub.set(n);
        }
        let b = self.active_bytes.get() + size;
        self.active_bytes.set(b);
        if b > self.max_active_bytes.get() {
            self.max_active_bytes.set(b);
            self.max_active_last.set(size);
        }
    }
    pub fn leave_pub(&self, size: u64) {
        self.active_pub.set(self.active_pub.get() - 1);
        self.active_bytes.set(self.active_bytes.get() - size);
    }
    pub fn events(&self) -> Vec<Ev> {
        self.log.borrow().clone()
    }
    pub fn stops(&self) -> Vec<StopKind> {
        self.log.borrow().iter().filter_map(|e| if let Ev::Stop(k) = e { Some(k.clone()) } else { None }).collect()
    }
    pub fn pub_enters(&self) -> Vec<(u32, Seen)> {
        self.log.borrow().iter().filter_map(|e| if let Ev::PubEnter { seq, seen } = e { Some((*seq, seen.clone())) } else { None }).collect()
    }
}

/// Logs `PubDrop` / `CtlDrop` when a handler future is cancelled.
pub struct DropGuard {
    pub app: Rc<App>,
    pub seq: u32,
    pub publish: bool,
    pub size: u64,
    pub done: bool,
}

impl Drop for DropGuard {
    fn drop(&mut self) {
        if self.publish {
            self.app.leave_pub(self.size);
        }
        if !self.done {
            self.app.push(if self.publish { Ev::PubDrop { seq: self.seq } } else { Ev::CtlDrop { seq: self.seq } });
        }
    }
}

// --- transport (harness side) -----------------------------------------------------------

pub struct Peer {
    pub io: IoTest,
    /// a clone whose drop delivers "peer closed" to the endpoint
    closer: RefCell<Option<IoTest>>,
    /// every byte the endpoint has written so far
    pub wire: RefCell<Vec<u8>>,
    pub sent: Cell<usize>,
}

impl Peer {
    pub fn pair() -> (Peer, IoTest) {
        let (client, server) = IoTest::create();
        client.remote_buffer_cap(1 << 30);
        let closer = client.clone();
        (Peer { io: client, closer: RefCell::new(Some(closer)), wire: RefCell::new(Vec::new()), sent: Cell::new(0) }, server)
    }
    pub fn send(&self, bytes: &[u8]) {
        self.sent.set(self.sent.get() + bytes.len());
        self.io.write(bytes);
    }
    /// move what the endpoint wrote into `wire`; returns the number of new bytes
    pub fn pump(&self) -> usize {
        let b = self.io.read_any();
        self.wire.borrow_mut().extend_from_slice(&b);
        b.len()
    }
    /// how many more bytes the endpoint may write (0 = stalled peer)
    pub fn window(&self, n: usize) {
        self.io.remote_buffer_cap(n);
    }
    pub fn close(&self) {
        // dropping a clone marks the endpoint's read side as closed
        self.closer.borrow_mut().take();
    }
    pub fn is_closed_by_us(&self) -> bool {
        self.closer.borrow().is_none()
    }
    pub fn read_error(&self) {
        self.io.read_error(std::io::Error::new(std::io::ErrorKind::ConnectionReset, "injected read error"));
    }
    pub fn write_error(&self) {
        self.io.write_error(std::io::Error::new(std::io::ErrorKind::BrokenPipe, "injected write error"));
    }
    /// bytes the endpoint has not consumed yet
    pub fn unread(&self) -> usize {
        self.io.remote_buffer(|b| b.len())
    }
    /// the endpoint finished shutting its side down
    pub fn endpoint_closed(&self) -> bool {
        self.io.is_closed() || self.io.is_server_dropped()
    }
    pub fn wire_len(&self) -> usize {
        self.wire.borrow().len()
    }
}

/// Completion flag of the connection task.
#[derive(Default)]
pub struct Done(pub RefCell<Option<String>>);

impl Done {
    pub fn is_done(&self) -> bool {
        self.0.borrow().is_some()
    }
}

/// What settle() watches.
pub trait Observe {
    fn fingerprint(&self) -> (usize, usize, bool, usize, usize);
}

pub struct Watch<'a> {
    pub peer: &'a Peer,
    pub app: &'a App,
    pub done: &'a Done,
    pub extra: &'a dyn Fn() -> usize,
}

impl Observe for Watch<'_> {
    fn fingerprint(&self) -> (usize, usize, bool, usize, usize) {
        self.peer.pump();
        (self.peer.wire_len(), self.app.log.borrow().len(), self.done.is_done(), self.peer.unread(), (self.extra)())
    }
}

pub const SETTLE_IDLE: usize = 16;
pub const SETTLE_CAP: usize = 3000;

/// Yield until the observation fingerprint is unchanged for `SETTLE_IDLE`
/// consecutive yields.  Returns false when the cap was hit (no quiescence).
pub async fn settle(w: &dyn Observe) -> bool {
    let mut last = w.fingerprint();
    let mut idle = 0;
    let slow = std::env::var_os("VERIF_SLEEP").is_some();
    for _ in 0..SETTLE_CAP {
        yield_now().await;
        if slow {
            ntex::time::sleep(ntex::time::Millis(1)).await;
        }
        let f = w.fingerprint();
        if f == last {
            idle += 1;
            if idle >= SETTLE_IDLE {
                return true;
            }
        } else {
            idle = 0;
            last = f;
        }
    }
    false
}

/// Roles of the endpoint under test.
#[derive(Clone, Copy, Debug, PartialEq, Eq, Hash, serde::Serialize, serde::Deserialize)]
pub enum Role {
    V3Server,
    V5Server,
    V3Client,
    V5Client,
}

impl Role {
    pub const ALL: [Role; 4] = [Role::V3Server, Role::V5Server, Role::V3Client, Role::V5Client];
    pub fn is_v5(self) -> bool {
        matches!(self, Role::V5Server | Role::V5Client)
    }
    pub fn is_server(self) -> bool {
        matches!(self, Role::V3Server | Role::V5Server)
    }
    pub fn name(self) -> &'static str {
        match self {
            Role::V3Server => "v3-server",
            Role::V5Server => "v5-server",
            Role::V3Client => "v3-client",
            Role::V5Client => "v5-client",
        }
    }
}

/// Helper for property modules: run one async case in a fresh System,
/// mapping panics to a failure whose signature carries the panic site.
pub fn run_case<F>(id: &str, fut: F) -> Result<CaseInfo, Failure>
where
    F: Future<Output = Result<CaseInfo, Failure>> + 'static,
{
    match with_system(fut) {
        Ok(r) => r,
        Err(p) => {
            let _ = take_panic_info();
            Err(Failure::new("panic", format!("{id}/panic/{}", crate::decoding::panic_key(&p)), p))
        }
    }
}

// --- batched execution (one System per batch, not per case) ---------------------------------

use std::sync::atomic::{AtomicUsize, Ordering};
use std::sync::{Arc, Mutex};

use proptest::strategy::{BoxedStrategy, Strategy, ValueTree};
use proptest::test_runner::{Config, RngAlgorithm, RngSeed, TestRunner};

use crate::runner::Stats;

fn panic_failure(id: &str, p: String) -> Failure {
    let _ = take_panic_info();
    Failure::new("panic", format!("{id}/panic/{}", crate::decoding::panic_key(&p)), p)
}

/// Run all `values` inside one System.  Returns the per-case infos of the
/// cases that passed before the first failure and, if any, the index and
/// failure of the first failing case (panics included).
pub fn run_batch<T, F, Fut>(id: &str, values: Vec<T>, check: F) -> (Vec<CaseInfo>, Option<(usize, Failure)>)
where
    T: 'static,
    F: Fn(T) -> Fut + 'static,
    Fut: Future<Output = Result<CaseInfo, Failure>> + 'static,
{
    let out: Arc<Mutex<Vec<CaseInfo>>> = Arc::new(Mutex::new(Vec::new()));
    let cur = Arc::new(AtomicUsize::new(0));
    let (out2, cur2) = (out.clone(), cur.clone());
    let res = with_system(async move {
        for (i, v) in values.into_iter().enumerate() {
            cur2.store(i, Ordering::SeqCst);
            match check(v).await {
                Ok(info) => out2.lock().unwrap().push(info),
                Err(f) => return Some((i, f)),
            }
        }
        None
    });
    let infos = std::mem::take(&mut *out.lock().unwrap());
    match res {
        Ok(fail) => (infos, fail),
        Err(p) => (infos, Some((cur.load(Ordering::SeqCst), panic_failure(id, p)))),
    }
}

/// One case in its own System (used while shrinking and for replays).
pub fn run_isolated<T, F, Fut>(id: &str, value: T, check: &F) -> Result<CaseInfo, Failure>
where
    T: 'static,
    F: Fn(T) -> Fut + Clone + 'static,
    Fut: Future<Output = Result<CaseInfo, Failure>> + 'static,
{
    let check = check.clone();
    match with_system(async move { check(value).await }) {
        Ok(r) => r,
        Err(p) => Err(panic_failure(id, p)),
    }
}

/// proptest-driven generation with batched execution; on the first failure
/// the case is shrunk (each candidate in its own System) and recorded, and the
/// shard stops, as proptest's own runner would.
pub fn run_proptest_bed<T, F, Fut, J>(
    id: &str,
    seed: u64,
    cases: u32,
    strategy: &BoxedStrategy<T>,
    stats: &mut Stats,
    to_case: J,
    check: F,
) where
    T: Clone + std::fmt::Debug + 'static,
    F: Fn(T) -> Fut + Clone + 'static,
    Fut: Future<Output = Result<CaseInfo, Failure>> + 'static,
    J: Fn(&T) -> serde_json::Value,
{
    let config = Config {
        cases,
        failure_persistence: None,
        rng_algorithm: RngAlgorithm::ChaCha,
        rng_seed: RngSeed::Fixed(seed),
        ..Config::default()
    };
    let mut runner = TestRunner::new(config);
    let mut done = 0u32;
    const BATCH: u32 = 400;
    while done < cases {
        let k = BATCH.min(cases - done);
        let mut trees: Vec<Box<dyn ValueTree<Value = T>>> = Vec::new();
        for _ in 0..k {
            if let Ok(t) = strategy.new_tree(&mut runner) {
                trees.push(Box::new(t));
            }
        }
        let values: Vec<T> = trees.iter().map(|t| t.current()).collect();
        let (infos, fail) = run_batch(id, values.clone(), check.clone());
        for (i, info) in infos.iter().enumerate() {
            let idx = stats.evaluations;
            stats.record(info);
            stats.sample_at(idx, || to_case(&values[i]));
        }
        if let Some((i, f)) = fail {
            stats.evaluations += 1;
            let mut tree = trees.swap_remove(i);
            let mut best = (values[i].clone(), f);
            let mut iters = 0;
            if tree.simplify() {
                loop {
                    iters += 1;
                    if iters > 400 {
                        break;
                    }
                    let v = tree.current();
                    match run_isolated(id, v.clone(), &check) {
                        Ok(_) => {
                            if !tree.complicate() {
                                break;
                            }
                        }
                        Err(f2) => {
                            best = (v, f2);
                            if !tree.simplify() {
                                break;
                            }
                        }
                    }
                }
            }
            let case = to_case(&best.0);
            stats.fail(best.1.with_case(case));
            return;
        }
        done += k;
    }
}

/// exhaustive / enumerated work lists: batches of cases per System; every
/// failing case is recorded (no shrinking), execution continues after it.
pub fn run_list_bed<T, F, Fut, J>(id: &str, work: Vec<T>, stats: &mut Stats, to_case: J, check: F)
where
    T: Clone + 'static,
    F: Fn(T) -> Fut + Clone + 'static,
    Fut: Future<Output = Result<CaseInfo, Failure>> + 'static,
    J: Fn(&T) -> serde_json::Value,
{
    let mut start = 0usize;
    while start < work.len() {
        // one runtime per batch (each leaks a little): long lists use larger batches
        let batch_len = std::env::var("VERIF_BATCH").ok().and_then(|v| v.parse().ok()).unwrap_or(if work.len() > 40_000 { 4_000 } else { 400 });
        let end = (start + batch_len).min(work.len());
        let batch: Vec<T> = work[start..end].to_vec();
        let (infos, fail) = run_batch(id, batch, check.clone());
        for (i, info) in infos.iter().enumerate() {
            let idx = stats.evaluations;
            stats.record(info);
            if info.nontrivial.is_some() {
                stats.sample_at(idx, || to_case(&work[start + i]));
            }
        }
        match fail {
            Some((i, f)) => {
                stats.evaluations += 1;
                stats.fail(f.with_case(to_case(&work[start + i])));
                start += i + 1;
            }
            None => start = end,
        }
    }
}

/// A service whose own readiness the harness controls (`App::set_service_ready`): an application service with a
/// `ready()` of its own, busy for reasons that have nothing to do with inbound traffic.
pub struct GatedReady<S> {
    pub inner: S,
    pub app: Rc<App>,
}

impl<S, R> ntex::service::Service<R> for GatedReady<S>
where
    S: ntex::service::Service<R>,
{
    type Response = S::Response;
    type Error = S::Error;

    async fn ready(&self, ctx: ntex::service::ServiceCtx<'_, Self>) -> Result<(), S::Error> {
        std::future::poll_fn(|cx| self.app.poll_service_ready(cx)).await;
        ctx.ready(&self.inner).await
    }

    async fn call(&self, req: R, ctx: ntex::service::ServiceCtx<'_, Self>) -> Result<S::Response, S::Error> {
        ctx.call(&self.inner, req).await
    }
}
