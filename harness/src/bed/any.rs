//! Version independent facade over `Eut3` / `Eut5`: packets are exchanged in
//! the MQTT 5 reference form (`P5`); for 3.1.1 roles they are mapped to the
//! 3.1.1 subset.

use std::rc::Rc;

use super::v3::{Cfg3, Eut3};
use super::v5::{BoxFut, Cfg5, Eut5, SendRes, SendSpec, WirePkt, WireTail};
use super::*;
use crate::spec::v3::{self as s3, P3};
use crate::spec::v5::{self as s5, P5};

#[derive(Clone, Debug, Default, PartialEq, serde::Serialize, serde::Deserialize)]
pub struct Cfg {
    pub v3: Cfg3,
    pub v5: Cfg5,
}

/// 3.1.1 packet -> reference v5 form
pub fn up(p: &P3) -> P5 {
    match p {
        P3::Connect(c) => P5::Connect(Box::new(s5::Connect5 {
            clean_start: c.clean_session,
            keep_alive: c.keep_alive,
            client_id: c.client_id.clone(),
            username: c.username.clone(),
            password: c.password.clone(),
            will: c.will.as_ref().map(|w| s5::Will5 { qos: w.qos, retain: w.retain, topic: w.topic.clone(), payload: w.message.clone(), ..Default::default() }),
            ..Default::default()
        })),
        P3::ConnAck { session_present, code } => {
            P5::ConnAck(Box::new(s5::ConnAck5 { session_present: *session_present, reason: *code, ..Default::default() }))
        }
        P3::Publish(pb) => P5::Publish(Box::new(s5::Publish5 {
            dup: pb.dup,
            qos: pb.qos,
            retain: pb.retain,
            topic: pb.topic.clone(),
            pid: pb.pid,
            payload_len: pb.payload_len,
            ..Default::default()
        })),
        P3::PubAck(id) => P5::PubAck(s5::Ack5 { pid: *id, ..Default::default() }),
        P3::PubRec(id) => P5::PubRec(s5::Ack5 { pid: *id, ..Default::default() }),
        P3::PubRel(id) => P5::PubRel(s5::Ack5 { pid: *id, ..Default::default() }),
        P3::PubComp(id) => P5::PubComp(s5::Ack5 { pid: *id, ..Default::default() }),
        P3::Subscribe { pid, filters } => P5::Subscribe(s5::Sub5 {
            pid: *pid,
            filters: filters.iter().map(|(f, q)| (f.clone(), s5::SubOpts { qos: *q, ..Default::default() })).collect(),
            ..Default::default()
        }),
        P3::SubAck { pid, codes } => P5::SubAck(s5::SubAck5 { pid: *pid, codes: codes.clone(), ..Default::default() }),
        P3::Unsubscribe { pid, filters } => P5::Unsubscribe(s5::Unsub5 { pid: *pid, filters: filters.clone(), ..Default::default() }),
        P3::UnsubAck(id) => P5::UnsubAck(s5::SubAck5 { pid: *id, ..Default::default() }),
        P3::PingReq => P5::PingReq,
        P3::PingResp => P5::PingResp,
        P3::Disconnect => P5::Disconnect(s5::Disc5::default()),
    }
}

/// reference v5 form -> 3.1.1 packet (properties and reason codes dropped;
/// AUTH has no 3.1.1 counterpart)
pub fn down(p: &P5) -> Option<P3> {
    Some(match p {
        P5::Connect(c) => P3::Connect(Box::new(s3::Connect3 {
            clean_session: c.clean_start,
            keep_alive: c.keep_alive,
            client_id: c.client_id.clone(),
            username: c.username.clone(),
            password: c.password.clone(),
            will: c.will.as_ref().map(|w| s3::Will3 { qos: w.qos, retain: w.retain, topic: w.topic.clone(), message: w.payload.clone() }),
        })),
        P5::ConnAck(c) => P3::ConnAck { session_present: c.session_present, code: c.reason.min(5) },
        P5::Publish(pb) => P3::Publish(s3::Publish3 {
            dup: pb.dup,
            qos: pb.qos,
            retain: pb.retain,
            topic: pb.topic.clone(),
            pid: pb.pid,
            payload_len: pb.payload_len,
        }),
        P5::PubAck(a) => P3::PubAck(a.pid),
        P5::PubRec(a) => P3::PubRec(a.pid),
        P5::PubRel(a) => P3::PubRel(a.pid),
        P5::PubComp(a) => P3::PubComp(a.pid),
        P5::Subscribe(s) => P3::Subscribe { pid: s.pid, filters: s.filters.iter().map(|(f, o)| (f.clone(), o.qos)).collect() },
        P5::SubAck(s) => P3::SubAck { pid: s.pid, codes: s.codes.iter().map(|c| if *c <= 2 { *c } else { 0x80 }).collect() },
        P5::Unsubscribe(u) => P3::Unsubscribe { pid: u.pid, filters: u.filters.clone() },
        P5::UnsubAck(a) => P3::UnsubAck(a.pid),
        P5::PingReq => P3::PingReq,
        P5::PingResp => P3::PingResp,
        P5::Disconnect(_) => P3::Disconnect,
        P5::Auth(_) => return None,
    })
}

pub enum Eut {
    V3(Eut3),
    V5(Eut5),
}

impl Eut {
    pub async fn start(role: Role, cfg: &Cfg) -> Eut {
        if role.is_v5() { Eut::V5(Eut5::start(role, &cfg.v5).await) } else { Eut::V3(Eut3::start(role, &cfg.v3).await) }
    }
    pub fn role(&self) -> Role {
        match self {
            Eut::V3(e) => e.role,
            Eut::V5(e) => e.role,
        }
    }
    pub fn peer(&self) -> &Peer {
        match self {
            Eut::V3(e) => &e.peer,
            Eut::V5(e) => &e.peer,
        }
    }
    pub fn app(&self) -> &Rc<App> {
        match self {
            Eut::V3(e) => &e.app,
            Eut::V5(e) => &e.app,
        }
    }
    pub fn done(&self) -> Option<String> {
        match self {
            Eut::V3(e) => e.done.0.borrow().clone(),
            Eut::V5(e) => e.done.0.borrow().clone(),
        }
    }
    pub async fn settle(&self) -> bool {
        match self {
            Eut::V3(e) => e.settle().await,
            Eut::V5(e) => e.settle().await,
        }
    }
    pub async fn handshake(&self, cfg: &Cfg) -> Vec<WirePkt> {
        match self {
            Eut::V3(e) => {
                e.handshake(&cfg.v3).await;
            }
            Eut::V5(e) => {
                e.handshake(&cfg.v5).await;
            }
        }
        self.packets().0
    }
    /// everything the endpoint wrote so far, in reference v5 form
    pub fn packets(&self) -> (Vec<WirePkt>, WireTail) {
        match self {
            Eut::V5(e) => e.packets(),
            Eut::V3(e) => {
                let (p, t) = e.packets();
                (p.into_iter().map(|w| WirePkt { pkt: up(&w.pkt), payload: w.payload, end: w.end }).collect(), t)
            }
        }
    }
    pub fn encode(&self, p: &P5, payload: &[u8]) -> Vec<u8> {
        match self {
            Eut::V5(_) => s5::encode(p, payload, &s5::Layout::default()),
            Eut::V3(_) => match down(p) {
                Some(p3) => s3::encode(&p3, payload),
                None => Vec::new(),
            },
        }
    }
    /// scripted peer writes one packet
    pub fn peer_send(&self, p: &P5, payload: &[u8]) {
        let b = self.encode(p, payload);
        if !b.is_empty() {
            self.peer().send(&b);
        }
    }
    pub fn send(&self, spec: SendSpec) -> BoxFut<SendRes> {
        match self {
            Eut::V3(e) => e.send(spec),
            Eut::V5(e) => e.send(spec),
        }
    }
    pub fn stream_start(&self, qos: u8, topic: String, declared: u32, pid: Option<u16>) -> (Option<BoxFut<SendRes>>, Result<usize, crate::bed::v5::SendErr>) {
        match self {
            Eut::V3(e) => e.stream_start(qos, topic, declared, pid),
            Eut::V5(e) => e.stream_start(qos, topic, declared, pid),
        }
    }
    pub fn stream_chunk(&self, idx: usize, chunk: Vec<u8>) -> BoxFut<Result<(), crate::bed::v5::SendErr>> {
        match self {
            Eut::V3(e) => e.stream_chunk(idx, chunk),
            Eut::V5(e) => e.stream_chunk(idx, chunk),
        }
    }
    pub fn stream_drop(&self, idx: usize) {
        match self {
            Eut::V3(e) => e.stream_drop(idx),
            Eut::V5(e) => e.stream_drop(idx),
        }
    }
    pub fn release(&self, idx: usize) -> BoxFut<SendRes> {
        match self {
            Eut::V3(e) => e.release(idx),
            Eut::V5(e) => e.release(idx),
        }
    }
    pub fn drop_receipt(&self, idx: usize) {
        match self {
            Eut::V3(e) => e.drop_receipt(idx),
            Eut::V5(e) => e.drop_receipt(idx),
        }
    }
    pub fn credit(&self) -> Option<usize> {
        match self {
            Eut::V3(e) => e.sink().map(|s| s.credit()),
            Eut::V5(e) => e.sink().map(|s| s.credit()),
        }
    }
    /// `MqttSink::is_ready()`: the precondition of the non-blocking send API
    pub fn sink_ready(&self) -> bool {
        match self {
            Eut::V3(e) => e.sink().is_some_and(|s| s.is_open() && s.is_ready()),
            Eut::V5(e) => e.sink().is_some_and(|s| s.is_open() && s.is_ready()),
        }
    }
    pub fn noblock(&self) -> &Rc<crate::bed::v5::NoBlock> {
        match self {
            Eut::V3(e) => &e.noblock,
            Eut::V5(e) => &e.noblock,
        }
    }
    pub fn sink_open(&self) -> Option<bool> {
        match self {
            Eut::V3(e) => e.sink().map(|s| s.is_open()),
            Eut::V5(e) => e.sink().map(|s| s.is_open()),
        }
    }
    /// application closes the connection: 0 = close(), 1 = force_close(),
    /// 2 = close_with_reason(code) (v5), 3 = close_with_no_reason (v5)
    pub fn app_close(&self, how: u8, code: u8) {
        match self {
            Eut::V3(e) => {
                if let Some(s) = e.sink() {
                    if how == 1 { s.force_close() } else { s.close() }
                }
            }
            Eut::V5(e) => {
                if let Some(s) = e.sink() {
                    match how {
                        1 => s.force_close(),
                        2 => {
                            use ntex_mqtt::v5::codec;
                            let rc = codec::DisconnectReasonCode::try_from(code).unwrap_or(codec::DisconnectReasonCode::UnspecifiedError);
                            s.close_with_reason(codec::Disconnect::new(rc));
                        }
                        3 => s.close_with_no_reason(),
                        _ => s.close(),
                    }
                }
            }
        }
    }
    /// end of case: peer closes, everything settles
    pub async fn finish(&self) {
        self.app().open_all();
        self.settle().await;
        self.peer().window(1 << 30);
        self.peer().close();
        self.settle().await;
    }
}
