//! Engine for the outbound (sink) properties C05, C06, C08, C13, C14: the
//! driver owns every application future (send / ready / release) and polls
//! them in the generated order; the scripted peer answers what it received in
//! order of receipt, singly or batched, correctly or with a deviation.

use std::collections::VecDeque;
use std::task::{Context, Poll};

use serde::{Deserialize, Serialize};

use crate::bed::any::{Cfg, Eut};
use crate::bed::v5::{BoxFut, SendErr, SendKind, SendRes, SendSpec, WireTail};
use crate::bed::*;
use crate::props::c16::futures_noop_waker;
use crate::runner::Failure;
use crate::spec::v5::{self as s5, P5};

#[derive(Clone, Copy, Debug, PartialEq, Eq, Hash, Serialize, Deserialize)]
pub enum LimitHow {
    /// MqttServiceConfig::max_send (client v3: config; client v5: CONNACK Receive Maximum)
    Config,
    /// HandshakeAck::max_send (server roles)
    Handshake,
    /// v5: peer's Receive Maximum lower than the configured value
    PeerLower,
    /// v5: peer's Receive Maximum higher than the configured value
    PeerHigher,
    /// v5 server: HandshakeAck::max_send above the peer's Receive Maximum (the lower value binds)
    HandshakeAbovePeer,
    /// v5 server: HandshakeAck::max_send below the peer's Receive Maximum
    HandshakeBelowPeer,
}

#[derive(Clone, Copy, Debug, PartialEq, Eq, Hash, Serialize, Deserialize)]
pub enum Dev {
    /// acknowledge with this packet type number instead (4 PUBACK, 5 PUBREC, 7 PUBCOMP, 9 SUBACK, 11 UNSUBACK)
    WrongType(u8),
    /// right type, packet id + 1000
    WrongId,
    /// repeat the most recent acknowledgement
    Duplicate,
    /// acknowledge the second-oldest request first
    Reorder,
}

#[derive(Clone, Copy, Debug, PartialEq, Eq, Hash, Serialize, Deserialize)]
pub enum Op {
    /// create a sink future (not polled)
    Create { kind: SendKind, again: bool, own_id: u8 },
    /// create and poll once
    Send { kind: SendKind, again: bool, own_id: u8 },
    Poll(u8),
    DropFut(u8),
    /// peer answers the n oldest unanswered requests (1..), in one write or one write each
    Ack { n: u8, batch: bool },
    /// peer answers with a deviation
    AckDev(Dev),
    /// peer's receive window: false = stalled (write back-pressure builds up)
    Window(bool),
    Yield(u8),
    Settle,
    /// `PublishReceived::release()` of the k-th live receipt (create + poll once)
    Release(u8),
    DropReceipt(u8),
    /// application closes the sink
    Close(u8),
    /// a send that must fail locally: create + poll once.  how (bits 0-1): 0 over-long topic / filter,
    /// 1 over-long user property (v5), 2 larger than the peer's Maximum Packet Size (v5, when configured); bits 2-3: caller-chosen packet id (0 = automatic)
    SendBad { kind: SendKind, how: u8 },
    /// start a streamed publish (QoS 0 / 1) with `declared` payload bytes.
    /// bad: 0 no, 1 over-long topic, 2 packet id of an outstanding request (QoS 1), 3 no failure but the future is not polled yet (QoS 1)
    StreamStart { qos: u8, declared: u8, bad: u8 },
    /// `StreamingPayload::send` on the k-th live stream.  len class: 0 empty, 1 one byte,
    /// 2 half of what is owed, 3 all that is owed, 4 one byte too many, 5 three bytes
    Chunk { stream: u8, len: u8 },
    /// drop the k-th live `StreamingPayload`
    StreamDrop(u8),
    /// inbound traffic that makes the endpoint write a response: 0 PUBLISH QoS 1, 1 PINGREQ,
    /// 2 SUBSCRIBE (server roles; PUBLISH QoS 1 otherwise), 3 PUBLISH QoS 0
    Inbound(u8),
    /// handlers invoked from now on wait (true) / every waiting handler continues (false)
    Hold(bool),
    /// the peer closes / injects a read error / a write error
    PeerFault(u8),
}

/// a streamed publish started by the application
#[derive(Clone, Debug)]
pub struct StreamRec {
    /// topic tag is `1000 + index`
    pub qos: u8,
    pub declared: u32,
    /// handle index in the bed; None: the start failed locally
    pub handle: Option<usize>,
    pub start_err: Option<SendErr>,
    /// the application still holds the StreamingPayload
    pub live: bool,
    /// bytes of chunks whose send returned Ok, in order
    pub accepted: Vec<u8>,
    /// slot of the awaiting future (QoS 1)
    pub fut_slot: Option<usize>,
    /// slot of the chunk future in progress
    pub chunk_slot: Option<usize>,
    /// a chunk was refused as over-long, or the stream was dropped incomplete
    pub aborted: bool,
    pub step: usize,
}

/// a request the endpoint wrote, as seen by the peer
#[derive(Clone, Debug, PartialEq, Eq)]
pub struct Req {
    /// packet type number: 3 PUBLISH, 6 PUBREL, 8 SUBSCRIBE, 10 UNSUBSCRIBE
    pub t: u8,
    pub qos: u8,
    pub id: u16,
    /// tag recovered from topic / filter: index of the application future
    pub tag: Option<usize>,
    /// position in the wire packet list
    pub pos: usize,
}

#[derive(Clone, Debug, PartialEq, Eq)]
pub struct AckRec {
    /// the acknowledgement as sent by the peer
    pub pkt: P5,
    pub t: u8,
    pub id: u16,
    pub reason: u8,
    pub for_req: Option<Req>,
    pub step: usize,
    /// deviation that produced it
    pub dev: Option<Dev>,
}

pub struct Slot {
    pub kind: SendKind,
    pub fut: Option<BoxFut<SendRes>>,
    pub result: Option<SendRes>,
    pub created: usize,
    pub first_polled: Option<usize>,
    pub resolved: Option<usize>,
    pub dropped: bool,
    pub again: bool,
    /// Some(idx of the receipt slot) for release futures
    pub release_of: Option<usize>,
    pub own_id: Option<u16>,
    /// chunk future: (stream index, bytes)
    pub chunk_of: Option<(usize, Vec<u8>)>,
    /// awaiting future of a streamed QoS 1 publish
    pub stream_of: Option<usize>,
}

impl Slot {
    pub fn new(kind: SendKind, fut: BoxFut<SendRes>, step: usize) -> Slot {
        Slot { kind, fut: Some(fut), result: None, created: step, first_polled: None, resolved: None, dropped: false, again: false, release_of: None, own_id: None, chunk_of: None, stream_of: None }
    }
}

pub struct World {
    pub eut: Eut,
    pub limit: usize,
    pub slots: Vec<Slot>,
    /// wire packets already looked at
    pub seen: usize,
    pub requests: Vec<Req>,
    /// indices into `requests` not yet answered by the peer
    pub unanswered: VecDeque<usize>,
    pub acks: Vec<AckRec>,
    pub stalled: bool,
    pub step: usize,
    /// receipts: (slot of the send, receipt index in the bed, live)
    pub receipts: Vec<(usize, usize, bool)>,
    pub deviated: bool,
    pub closed_by_app: bool,
    pub parked_then_ran: bool,
    pub max_outstanding_pubs: usize,
    /// vary the contents of v5 acknowledgements (reason codes, reason strings, user properties, SUBACK lists)
    pub flavor: bool,
    pub streams: Vec<StreamRec>,
    /// peer's Maximum Packet Size announced to the endpoint (v5)
    pub peer_max: Option<u32>,
    pub inbound_id: u16,
    /// a response was due while a streamed payload was owed
    pub response_during_stream: bool,
    /// bytes of every chunk whose send returned Ok, in order of acceptance (whichever handle was used)
    pub accepted_all: Vec<u8>,
    /// payload bytes of a partly sent inbound PUBLISH the peer still owes
    pub inbound_owed: usize,
    pub inbound_qos2: u16,
    /// the header of a streamed QoS 1/2 publish is on the wire, its frame is not complete yet
    pub partial_pub_out: bool,
    /// topic of the partly delivered inbound PUBLISH (`Inbound(4)`)
    pub partial_topic: String,
    /// v5: the peer refuses every second QoS 2 publish with a negative PUBREC (0x87); by the specification the
    /// exchange is over then (the library still lets the application release the receipt and completes with PUBCOMP)
    pub neg_pubrec: bool,
}

/// topic of an incomplete PUBLISH frame at the end of the stream, once its header is complete
pub fn partial_publish_topic(role: Role, tail: &[u8]) -> Option<String> {
    let crate::spec::wire::Split::Frame { first, rl, hdr, .. } = crate::spec::wire::split(tail) else { return None };
    if first >> 4 != 3 {
        return None;
    }
    let body = &tail[hdr..];
    if role.is_v5() {
        crate::spec::v5::decode_publish_header(first, rl, body).ok().flatten().map(|(p, _, _)| p.topic)
    } else {
        crate::spec::v3::decode_publish_header(first, rl, body).ok().flatten().map(|(p, _, _)| p.topic)
    }
}

pub fn tag_topic(i: usize) -> String {
    format!("s/{i}")
}

fn tag_of(s: &str) -> Option<usize> {
    s.strip_prefix("s/").and_then(|x| x.parse().ok())
}

pub fn limit_cfg(role: Role, limit: u16, how: LimitHow) -> Cfg {
    let mut cfg = Cfg::default();
    let other = limit + 3;
    match (role, how) {
        (Role::V3Server, LimitHow::Handshake) => {
            cfg.v3.max_send = other;
            cfg.v3.hs = crate::bed::v3::Hs3::Accept { idle_timeout: None, max_send: Some(limit), session_present: false };
        }
        (Role::V3Server | Role::V3Client, _) => cfg.v3.max_send = limit,
        (Role::V5Server, LimitHow::Handshake) => {
            cfg.v5.max_send = other;
            cfg.v5.hs = crate::bed::v5::Hs5::Accept { keep_alive: None, max_send: Some(limit) };
        }
        (Role::V5Server, LimitHow::PeerLower) => {
            cfg.v5.max_send = other;
            cfg.v5.connect.receive_max = Some(limit);
        }
        (Role::V5Server, LimitHow::PeerHigher) => {
            cfg.v5.max_send = limit;
            cfg.v5.connect.receive_max = Some(other);
        }
        (Role::V5Server, LimitHow::HandshakeAbovePeer) => {
            cfg.v5.max_send = other + 2;
            cfg.v5.hs = crate::bed::v5::Hs5::Accept { keep_alive: None, max_send: Some(other) };
            cfg.v5.connect.receive_max = Some(limit);
        }
        (Role::V5Server, LimitHow::HandshakeBelowPeer) => {
            cfg.v5.max_send = other + 2;
            cfg.v5.hs = crate::bed::v5::Hs5::Accept { keep_alive: None, max_send: Some(limit) };
            cfg.v5.connect.receive_max = Some(other);
        }
        (Role::V5Server, LimitHow::Config) => cfg.v5.max_send = limit,
        (Role::V5Client, _) => {
            // the client's send window is the server's Receive Maximum
            cfg.v5.max_send = other;
            cfg.v5.connack.receive_max = Some(limit);
        }
    }
    cfg
}

impl World {
    pub async fn start(role: Role, limit: u16, how: LimitHow, write_hw: usize) -> Result<World, Failure> {
        Self::start_with(role, limit, how, write_hw, None).await
    }

    pub async fn start_with(role: Role, limit: u16, how: LimitHow, write_hw: usize, peer_max: Option<u32>) -> Result<World, Failure> {
        Self::start_cfg(role, limit, how, write_hw, peer_max, &|_| {}).await
    }

    pub async fn start_cfg(role: Role, limit: u16, how: LimitHow, write_hw: usize, peer_max: Option<u32>, tweak: &dyn Fn(&mut Cfg)) -> Result<World, Failure> {
        Self::start_pre(role, limit, how, write_hw, peer_max, tweak, &[]).await
    }

    /// `pre` (server roles): sink futures the application creates and polls once while its handshake service is
    /// still running (the send window is not established yet, they park); `true` = dropped again at once.  The
    /// survivors are ordinary slots of the world.
    pub async fn start_pre(role: Role, limit: u16, how: LimitHow, write_hw: usize, peer_max: Option<u32>, tweak: &dyn Fn(&mut Cfg), pre: &[(SendKind, bool)]) -> Result<World, Failure> {
        let mut cfg = limit_cfg(role, limit, how);
        let peer_max = if role.is_v5() { peer_max } else { None };
        cfg.v5.connect.max_packet_size = peer_max;
        cfg.v5.connack.max_packet_size = peer_max;
        tweak(&mut cfg);
        cfg.v3.write_hw = write_hw;
        cfg.v5.write_hw = write_hw;
        let eut = Eut::start(role, &cfg).await;
        let early = role.is_server() && !pre.is_empty();
        if early {
            eut.app().hold(G_HS, 0);
        }
        eut.handshake(&cfg).await;
        let mut early_slots: Vec<Slot> = Vec::new();
        if early {
            if eut.credit().is_none() {
                return Err(Failure::new("harness-handshake", "harness/handshake", "sink not available inside the handshake service".to_string()));
            }
            for (k, (kind, drop_it)) in pre.iter().enumerate() {
                // slot index = tag in the topic
                let mut fut = if *kind == SendKind::NoBlock {
                    Box::pin(async { SendRes::Err(SendErr::NotReady) }) as BoxFut<SendRes>
                } else {
                    eut.send(SendSpec { kind: *kind, topic: tag_topic(k), payload: vec![k as u8; 1 + k % 3], pid: None, user_prop: None })
                };
                let r = poll_once(&mut fut).await;
                let mut slot = Slot::new(*kind, fut, 0);
                slot.first_polled = Some(0);
                if *kind == SendKind::NoBlock {
                    // the non-blocking API is not called on a sink that is not ready
                    slot.fut = None;
                    slot.dropped = true;
                } else if let Some(r) = r {
                    slot.fut = None;
                    slot.resolved = Some(0);
                    slot.result = Some(r);
                } else if *drop_it {
                    slot.fut = None;
                    slot.dropped = true;
                }
                early_slots.push(slot);
            }
            eut.app().open(G_HS, 0);
            eut.settle().await;
        }
        if eut.done().is_some() || eut.credit().is_none() {
            return Err(Failure::new("harness-handshake", "harness/handshake", format!("handshake failed: {:?}", eut.done())));
        }
        // the acknowledgement callback of the non-blocking API looks at the sink, as an application sending its next message would
        eut.noblock().reenter.set(true);
        let seen = eut.packets().0.len();
        Ok(World {
            eut,
            limit: usize::from(limit),
            slots: early_slots,
            seen,
            requests: Vec::new(),
            unanswered: VecDeque::new(),
            acks: Vec::new(),
            stalled: false,
            step: 0,
            receipts: Vec::new(),
            deviated: false,
            closed_by_app: false,
            parked_then_ran: false,
            max_outstanding_pubs: 0,
            flavor: false,
            streams: Vec::new(),
            peer_max,
            inbound_id: 100,
            response_during_stream: false,
            accepted_all: Vec::new(),
            inbound_owed: 0,
            inbound_qos2: 0,
            partial_pub_out: false,
            partial_topic: "in/p".into(),
            neg_pubrec: false,
        })
    }

    /// look at everything the endpoint has written since the last call
    pub fn absorb(&mut self) -> Result<(), Failure> {
        let (pk, tail) = self.eut.packets();
        if let WireTail::Garbage { at, why } = tail {
            return Err(Failure::new("wire-garbage", "wire-garbage", format!("output does not parse at {at}: {why}")));
        }
        for (pos, w) in pk.iter().enumerate().skip(self.seen) {
            let req = match &w.pkt {
                P5::Publish(p) if p.qos > 0 => Some(Req { t: 3, qos: p.qos, id: p.pid.unwrap_or(0), tag: tag_of(&p.topic), pos }),
                P5::PubRel(a) => Some(Req { t: 6, qos: 2, id: a.pid, tag: None, pos }),
                P5::Subscribe(s) => Some(Req { t: 8, qos: 0, id: s.pid, tag: s.filters.first().and_then(|f| tag_of(&f.0)), pos }),
                P5::Unsubscribe(u) => Some(Req { t: 10, qos: 0, id: u.pid, tag: u.filters.first().and_then(|f| tag_of(f)), pos }),
                _ => None,
            };
            if let Some(r) = req {
                self.unanswered.push_back(self.requests.len());
                self.requests.push(r);
            }
        }
        self.seen = pk.len();
        // a streamed QoS 1 publish whose header is out occupies the window although its frame is not complete yet
        self.partial_pub_out = match &tail {
            WireTail::Incomplete(n) => {
                let wire = self.eut.peer().wire.borrow();
                let tb = &wire[wire.len() - n..];
                matches!(crate::spec::wire::split(tb), crate::spec::wire::Split::Frame { first, .. } if first >> 4 == 3 && (first >> 1) & 3 > 0) && partial_publish_topic(self.eut.role(), tb).is_some()
            }
            _ => false,
        };
        let o = self.outstanding_pubs();
        if o > self.max_outstanding_pubs {
            self.max_outstanding_pubs = o;
        }
        Ok(())
    }

    /// QoS>0 PUBLISH frames on the wire whose final acknowledgement (PUBACK; PUBCOMP for QoS 2, also after a negative
    /// PUBREC: the library completes such an exchange with PUBREL / PUBCOMP like any other) the peer has not sent yet
    pub fn outstanding_pubs(&self) -> usize {
        usize::from(self.partial_pub_out) + self
            .requests
            .iter()
            .filter(|r| r.t == 3)
            .filter(|r| {
                !self.acks.iter().any(|a| {
                    a.dev.is_none()
                        && a.for_req.as_ref().is_some_and(|q| q.t == 3 && q.pos == r.pos && r.qos == 1 && a.t == 4)
                        || (a.dev.is_none() && r.qos == 2 && a.t == 7 && a.for_req.as_ref().is_some_and(|q| q.t == 6 && q.id == r.id && q.pos > r.pos))
                })
            })
            .count()
    }

    /// requests (PUBLISH QoS>0, SUBSCRIBE, UNSUBSCRIBE) not finally acknowledged, as the library counts its window
    pub fn outstanding_all(&self) -> usize {
        let pubs = self.outstanding_pubs();
        let others = self
            .requests
            .iter()
            .filter(|r| r.t == 8 || r.t == 10)
            .filter(|r| !self.acks.iter().any(|a| a.dev.is_none() && a.for_req.as_ref().is_some_and(|q| q.pos == r.pos)))
            .count();
        pubs + others
    }

    fn poll_slot(&mut self, i: usize) {
        let step = self.step;
        let Some(slot) = self.slots.get_mut(i) else { return };
        let Some(fut) = slot.fut.as_mut() else { return };
        let waker = futures_noop_waker();
        let mut cx = Context::from_waker(&waker);
        if slot.first_polled.is_none() {
            slot.first_polled = Some(step);
        }
        if let Poll::Ready(r) = fut.as_mut().poll(&mut cx) {
            slot.fut = None;
            slot.resolved = Some(step);
            if slot.first_polled != Some(step) {
                self.parked_then_ran = true;
            }
            if let SendRes::Receipt(idx, _) = &r {
                self.receipts.push((i, *idx, true));
            }
            if let Some((si, bytes)) = slot.chunk_of.take() {
                let st = &mut self.streams[si];
                st.chunk_slot = None;
                match &r {
                    SendRes::Sent => {
                        st.accepted.extend_from_slice(&bytes);
                        self.accepted_all.extend_from_slice(&bytes);
                    }
                    SendRes::Err(SendErr::Encode(e)) if e.contains("OverPublishSize") => st.aborted = true,
                    _ => {}
                }
                slot.chunk_of = Some((si, bytes));
            }
            slot.result = Some(r);
        }
    }

    fn create(&mut self, kind: SendKind, again: bool, own_id: u8) -> Option<usize> {
        // the non-blocking API may only be called on a ready sink (documented precondition)
        if kind == SendKind::NoBlock && !self.eut.sink_ready() {
            return None;
        }
        let i = self.slots.len();
        // caller-chosen ids: 1..=249 as they are, 250..=255 stand for the top of the range (65530..=65535)
        let own = match own_id {
            0 => None,
            x if x >= 250 => Some(65_535 - u16::from(255 - x)),
            x => Some(u16::from(x)),
        };
        let spec = SendSpec { kind: kind.clone(), topic: tag_topic(i), payload: vec![i as u8; 1 + i % 3], pid: own, user_prop: None };
        let fut = self.eut.send(spec);
        self.slots.push(Slot { again, own_id: own, ..Slot::new(kind, fut, self.step) });
        Some(i)
    }

    /// create + poll once, regardless of the cap on the number of slots (end-of-case probes)
    pub fn force_send(&mut self, kind: SendKind) {
        self.step += 1;
        if let Some(i) = self.create(kind, false, 0) {
            self.poll_slot(i);
        }
    }

    /// the same with a caller-chosen packet id
    pub fn force_send_own(&mut self, kind: SendKind, own_id: u8) {
        self.step += 1;
        if let Some(i) = self.create(kind, false, own_id) {
            self.poll_slot(i);
        }
    }

    /// "send again immediately on completion" loops
    fn resend_loops(&mut self) {
        let mut guard = 0;
        loop {
            guard += 1;
            let next = self.slots.iter().position(|s| s.again && s.resolved == Some(self.step) && matches!(s.result, Some(SendRes::PubAck(_) | SendRes::SubAck(_) | SendRes::UnsubAck(_))));
            let Some(i) = next else { break };
            self.slots[i].again = false;
            if guard > 8 || self.slots.len() > 60 {
                break;
            }
            let kind = self.slots[i].kind.clone();
            if let Some(j) = self.create(kind, true, 0) {
                self.poll_slot(j);
            }
        }
    }

    pub fn live_idx(&self, k: u8) -> Option<usize> {
        let live: Vec<usize> = self.slots.iter().enumerate().filter(|(_, s)| s.fut.is_some()).map(|(i, _)| i).collect();
        if live.is_empty() { None } else { Some(live[usize::from(k) % live.len()]) }
    }

    fn response_for(&self, r: &Req) -> P5 {
        let v5 = self.eut.role().is_v5();
        let mut ack = s5::Ack5 { pid: r.id, ..Default::default() };
        let mut codes: Vec<u8> = vec![1];
        if self.neg_pubrec && v5 && r.t == 3 && r.qos == 2 && r.id % 2 == 1 {
            ack.reason = 0x87;
        }
        if self.flavor && v5 {
            let k = usize::from(r.id) + r.pos;
            if r.t == 3 && r.qos == 1 {
                ack.reason = [0u8, 0x10, 0x80, 0x87][k % 4];
            }
            if r.t == 3 && r.qos == 2 {
                ack.reason = [0u8, 0x10][k % 2];
            }
            if k % 2 == 0 {
                ack.reason_string = Some(format!("reason-{}", r.id));
            }
            if k % 3 == 0 {
                ack.user_props = vec![("k".into(), format!("v{}", r.id)), ("k".into(), "again".into())];
            }
            codes = vec![[0u8, 1, 2, 0x80][k % 4], 0x87][..1 + k % 2].to_vec();
        }
        match (r.t, r.qos) {
            (3, 1) => P5::PubAck(ack),
            (3, _) => P5::PubRec(ack),
            // (v5, varied contents: every other PUBCOMP says "packet identifier not found", a valid answer to a PUBREL that
            // completes the exchange all the same)
            (6, _) => P5::PubComp(s5::Ack5 { reason: if self.flavor && v5 && (usize::from(r.id) + r.pos) % 2 == 1 { 0x92 } else { 0 }, ..ack }),
            (8, _) => P5::SubAck(s5::SubAck5 { pid: r.id, codes, reason_string: ack.reason_string, user_props: ack.user_props }),
            _ => P5::UnsubAck(s5::SubAck5 {
                pid: r.id,
                codes: if v5 { vec![if self.flavor { [0u8, 0x11][usize::from(r.id) % 2] } else { 0 }] } else { vec![] },
                reason_string: ack.reason_string,
                user_props: ack.user_props,
            }),
        }
    }

    fn ack_type(p: &P5) -> (u8, u16, u8) {
        match p {
            P5::PubAck(a) => (4, a.pid, a.reason),
            P5::PubRec(a) => (5, a.pid, a.reason),
            P5::PubComp(a) => (7, a.pid, a.reason),
            P5::SubAck(a) => (9, a.pid, 0),
            P5::UnsubAck(a) => (11, a.pid, 0),
            _ => (0, 0, 0),
        }
    }

    pub async fn apply(&mut self, op: Op) -> Result<(), Failure> {
        self.step += 1;
        match op {
            Op::Create { kind, again, own_id } => {
                if self.slots.len() < 60 {
                    self.create(kind, again, own_id);
                }
            }
            Op::Send { kind, again, own_id } => {
                if self.slots.len() < 60 {
                    if let Some(i) = self.create(kind, again, own_id) {
                        self.poll_slot(i);
                    }
                }
            }
            Op::Poll(k) => {
                if let Some(i) = self.live_idx(k) {
                    self.poll_slot(i);
                    self.resend_loops();
                }
            }
            Op::DropFut(k) => {
                if let Some(i) = self.live_idx(k) {
                    self.slots[i].fut = None;
                    self.slots[i].dropped = true;
                    // a cancelled chunk send: the stream can take the next chunk
                    if let Some((si, _)) = &self.slots[i].chunk_of {
                        if self.streams[*si].chunk_slot == Some(i) {
                            self.streams[*si].chunk_slot = None;
                        }
                    }
                }
            }
            Op::Ack { n, batch } => {
                self.eut.settle().await;
                self.absorb()?;
                let mut bytes = Vec::new();
                for _ in 0..n.max(1) {
                    let Some(qi) = self.unanswered.pop_front() else { break };
                    let r = self.requests[qi].clone();
                    let resp = self.response_for(&r);
                    let (t, id, reason) = Self::ack_type(&resp);
                    self.acks.push(AckRec { pkt: resp.clone(), t, id, reason, for_req: Some(r), step: self.step, dev: None });
                    let b = self.eut.encode(&resp, &[]);
                    if batch {
                        bytes.extend_from_slice(&b);
                    } else {
                        self.eut.peer().send(&b);
                        self.eut.settle().await;
                    }
                }
                if !bytes.is_empty() {
                    self.eut.peer().send(&bytes);
                }
                self.eut.settle().await;
            }
            Op::AckDev(dev) => {
                self.eut.settle().await;
                self.absorb()?;
                let oldest = self.unanswered.front().map(|qi| self.requests[*qi].clone());
                let pkt: Option<(P5, Option<Req>)> = match dev {
                    Dev::WrongType(t) => {
                        let id = oldest.as_ref().map_or(1, |r| r.id);
                        let right = oldest.as_ref().map(|r| Self::ack_type(&self.response_for(r)).0);
                        if right == Some(t) {
                            None
                        } else {
                            let a = s5::Ack5 { pid: id, ..Default::default() };
                            Some((
                                match t {
                                    4 => P5::PubAck(a),
                                    5 => P5::PubRec(a),
                                    7 => P5::PubComp(a),
                                    9 => P5::SubAck(s5::SubAck5 { pid: id, codes: vec![0], ..Default::default() }),
                                    _ => P5::UnsubAck(s5::SubAck5 { pid: id, codes: if self.eut.role().is_v5() { vec![0] } else { vec![] }, ..Default::default() }),
                                },
                                oldest.clone(),
                            ))
                        }
                    }
                    Dev::WrongId => oldest.as_ref().map(|r| {
                        let mut r2 = r.clone();
                        r2.id = r.id.wrapping_add(1000).max(1);
                        (self.response_for(&r2), Some(r.clone()))
                    }),
                    Dev::Duplicate => self.acks.last().and_then(|a| a.for_req.clone()).map(|r| (self.response_for(&r), Some(r))),
                    Dev::Reorder => {
                        if self.unanswered.len() >= 2 {
                            let r = self.requests[self.unanswered[1]].clone();
                            Some((self.response_for(&r), Some(r)))
                        } else {
                            None
                        }
                    }
                };
                // with nothing outstanding every acknowledgement is unsolicited
                let pkt = pkt.or_else(|| {
                    if self.unanswered.is_empty() {
                        Some((P5::PubAck(s5::Ack5 { pid: 7, ..Default::default() }), None))
                    } else {
                        None
                    }
                });
                if let Some((p, req)) = pkt {
                    let (t, id, reason) = Self::ack_type(&p);
                    // is it, by the protocol, a correct acknowledgement after all?  PUBCOMP answers any
                    // outstanding PUBREL with its id; everything else must answer the oldest other request
                    let legit = if t == 7 {
                        self.unanswered.iter().position(|qi| self.requests[*qi].t == 6 && self.requests[*qi].id == id)
                    } else {
                        self.unanswered.iter().position(|qi| self.requests[*qi].t != 6).filter(|k| {
                            let r = &self.requests[self.unanswered[*k]];
                            r.id == id && Self::ack_type(&self.response_for(r)).0 == t
                        })
                    };
                    if let Some(k) = legit {
                        let qi = self.unanswered.remove(k).unwrap();
                        let r = self.requests[qi].clone();
                        self.acks.push(AckRec { pkt: p.clone(), t, id, reason, for_req: Some(r), step: self.step, dev: None });
                    } else {
                        self.acks.push(AckRec { pkt: p.clone(), t, id, reason, for_req: req, step: self.step, dev: Some(dev) });
                        self.deviated = true;
                    }
                    self.eut.peer_send(&p, &[]);
                    self.eut.settle().await;
                }
            }
            Op::Window(open) => {
                if open {
                    self.eut.peer().window(1 << 30);
                    self.stalled = false;
                    self.eut.settle().await;
                } else {
                    self.eut.peer().window(0);
                    self.stalled = true;
                }
            }
            Op::Yield(k) => yields(usize::from(k % 8) + 1).await,
            Op::Settle => {
                self.eut.settle().await;
            }
            Op::Release(k) => {
                let live: Vec<usize> = self.receipts.iter().enumerate().filter(|(_, r)| r.2).map(|(i, _)| i).collect();
                if !live.is_empty() {
                    let ri = live[usize::from(k) % live.len()];
                    let (send_slot, ridx, _) = self.receipts[ri];
                    self.receipts[ri].2 = false;
                    let fut = self.eut.release(ridx);
                    let i = self.slots.len();
                    self.slots.push(Slot { release_of: Some(send_slot), ..Slot::new(SendKind::Qos2, fut, self.step) });
                    self.poll_slot(i);
                }
            }
            Op::DropReceipt(k) => {
                let live: Vec<usize> = self.receipts.iter().enumerate().filter(|(_, r)| r.2).map(|(i, _)| i).collect();
                if !live.is_empty() {
                    let ri = live[usize::from(k) % live.len()];
                    self.receipts[ri].2 = false;
                    let idx = self.receipts[ri].1;
                    self.eut.drop_receipt(idx);
                }
            }
            Op::SendBad { kind, how } => {
                if self.slots.len() < 60 && (kind != SendKind::NoBlock || self.eut.sink_ready()) {
                    let i = self.slots.len();
                    let v5 = self.eut.role().is_v5();
                    // how: bits 0-1 the cause (3 counts as 0), bits 2-3 a caller-chosen packet id 1..3 (0 = automatic)
                    let own = (how >> 2) & 3;
                    let how = how & 3;
                    let mut spec = SendSpec { kind, topic: tag_topic(i), payload: vec![1], pid: (own != 0).then_some(u16::from(own)), user_prop: None };
                    match (how % 3, v5, self.peer_max) {
                        (1, true, _) if kind != SendKind::Qos2 => spec.user_prop = Some(("k".into(), "v".repeat(66_000))),
                        (2, true, Some(max)) if matches!(kind, SendKind::Qos0 | SendKind::Qos1 | SendKind::Qos2) => spec.payload = vec![2; max as usize],
                        (2, true, Some(max)) => spec.topic = format!("{}/{}", tag_topic(i), "y".repeat(max as usize)),
                        _ => spec.topic = "x".repeat(70_000),
                    }
                    let fut = self.eut.send(spec);
                    self.slots.push(Slot { own_id: Some(0), ..Slot::new(kind, fut, self.step) });
                    self.poll_slot(i);
                }
            }
            Op::StreamStart { qos, declared, bad } => {
                if self.slots.len() < 60 && self.streams.len() < 20 {
                    let si = self.streams.len();
                    let qos = qos % 2;
                    let topic = if bad == 1 { "x".repeat(70_000) } else { tag_topic(1000 + si) };
                    let pid = if bad == 2 && qos == 1 { self.unanswered.iter().map(|qi| &self.requests[*qi]).find(|r| r.t != 6).map(|r| r.id) } else { None };
                    let (fut, res) = self.eut.stream_start(qos, topic, u32::from(declared), pid);
                    let mut rec = StreamRec {
                        qos,
                        declared: u32::from(declared),
                        handle: res.as_ref().ok().copied(),
                        start_err: res.as_ref().err().cloned(),
                        live: res.is_ok(),
                        accepted: Vec::new(),
                        fut_slot: None,
                        chunk_slot: None,
                        aborted: false,
                        step: self.step,
                    };
                    if let Some(fut) = fut {
                        let i = self.slots.len();
                        rec.fut_slot = Some(i);
                        self.slots.push(Slot { stream_of: Some(si), own_id: pid, ..Slot::new(SendKind::Qos1, fut, self.step) });
                        self.streams.push(rec);
                        // bad == 3: created now, first polled later (by a Poll op)
                        if bad != 3 {
                            self.poll_slot(i);
                        }
                    } else {
                        self.streams.push(rec);
                    }
                }
            }
            Op::Chunk { stream, len } => {
                let live: Vec<usize> = self.streams.iter().enumerate().filter(|(_, s)| s.live).map(|(i, _)| i).collect();
                if !live.is_empty() && self.slots.len() < 60 {
                    let si = live[usize::from(stream) % live.len()];
                    if let Some(cs) = self.streams[si].chunk_slot {
                        // one chunk at a time: drive the one in progress
                        self.poll_slot(cs);
                    } else {
                        let st = &self.streams[si];
                        let owed = st.declared as usize - st.accepted.len().min(st.declared as usize);
                        let n = match len % 6 {
                            0 => 0,
                            1 => 1,
                            2 => (owed / 2).max(1),
                            3 => owed,
                            4 => owed + 1,
                            _ => 3,
                        };
                        let off = st.accepted.len();
                        let bytes: Vec<u8> = (0..n).map(|k| ((si * 37 + off + k) % 251) as u8).collect();
                        let h = st.handle.unwrap();
                        let fut = self.eut.stream_chunk(h, bytes.clone());
                        let fut: BoxFut<SendRes> = Box::pin(async move {
                            match fut.await {
                                Ok(()) => SendRes::Sent,
                                Err(e) => SendRes::Err(e),
                            }
                        });
                        let i = self.slots.len();
                        self.slots.push(Slot { chunk_of: Some((si, bytes)), ..Slot::new(SendKind::Qos0, fut, self.step) });
                        self.streams[si].chunk_slot = Some(i);
                        self.poll_slot(i);
                    }
                }
            }
            Op::StreamDrop(k) => {
                let live: Vec<usize> = self.streams.iter().enumerate().filter(|(_, s)| s.live).map(|(i, _)| i).collect();
                if !live.is_empty() {
                    let si = live[usize::from(k) % live.len()];
                    // a chunk future in progress holds the stream: the application drops it first
                    if let Some(cs) = self.streams[si].chunk_slot.take() {
                        self.slots[cs].fut = None;
                        self.slots[cs].dropped = true;
                    }
                    let st = &mut self.streams[si];
                    st.live = false;
                    if (st.accepted.len() as u32) < st.declared {
                        st.aborted = true;
                    }
                    let h = st.handle.unwrap();
                    self.eut.stream_drop(h);
                    self.eut.settle().await;
                }
            }
            Op::Inbound(what) => {
                self.eut.settle().await;
                if self.streams.iter().any(|s| s.handle.is_some() && (s.accepted.len() as u32) < s.declared && !s.aborted) {
                    self.response_during_stream = true;
                }
                let bytes = self.inbound_bytes(what);
                self.eut.peer().send(&bytes);
                self.eut.settle().await;
            }
            Op::Hold(hold) => {
                if hold {
                    self.eut.app().default_open.set(false);
                } else {
                    self.eut.app().open_all();
                    self.eut.settle().await;
                }
            }
            Op::PeerFault(k) => {
                match k % 3 {
                    0 => self.eut.peer().close(),
                    1 => self.eut.peer().read_error(),
                    _ => self.eut.peer().write_error(),
                }
                self.eut.settle().await;
            }
            Op::Close(how) => {
                self.closed_by_app = true;
                self.eut.app_close(how % 2, 0);
                self.eut.settle().await;
            }
        }
        if !self.stalled {
            self.eut.peer().pump();
            self.absorb()?;
        }
        Ok(())
    }

    /// bytes of the next inbound packet of class `what` (see `Op::Inbound`; 4: PUBLISH QoS 1 declaring 20 payload
    /// bytes of which 6 are sent, 5: the remaining 14 bytes, 6: PUBLISH QoS 2, 7: PUBREL for the last QoS 2 publish)
    pub fn inbound_bytes(&mut self, what: u8) -> Vec<u8> {
        let server = self.eut.role().is_server();
        if what % 8 == 5 {
            let n = self.inbound_owed;
            self.inbound_owed = 0;
            return vec![9; n];
        }
        if what % 8 == 7 {
            return self.eut.encode(&P5::PubRel(s5::Ack5 { pid: self.inbound_qos2, ..Default::default() }), &[]);
        }
        if what == 16 {
            // a QoS 2 PUBLISH of the peer that carries the packet id of the newest outbound publish (ids of the two directions
            // are independent)
            let id = self.requests.iter().rev().find(|r| r.t == 3 && r.id != 0).map_or(1, |r| r.id);
            self.inbound_qos2 = id;
            return self.eut.encode(&P5::Publish(Box::new(s5::Publish5 { topic: "in/2".into(), qos: 2, pid: Some(id), payload_len: 2, ..Default::default() })), &[7, 7]);
        }
        self.inbound_id += 1;
        let id = self.inbound_id;
        let p = match (what % 8, server) {
            (1, true) => P5::PingReq,
            (2, true) => P5::Subscribe(s5::Sub5 { pid: id, filters: vec![("in/#".into(), s5::SubOpts::default())], ..Default::default() }),
            (3, _) => P5::Publish(Box::new(s5::Publish5 { topic: "in/0".into(), qos: 0, payload_len: 2, ..Default::default() })),
            (4, _) => P5::Publish(Box::new(s5::Publish5 { topic: self.partial_topic.clone(), qos: 1, pid: Some(id), payload_len: 20, ..Default::default() })),
            (6, _) => {
                self.inbound_qos2 = id;
                P5::Publish(Box::new(s5::Publish5 { topic: "in/2".into(), qos: 2, pid: Some(id), payload_len: 2, ..Default::default() }))
            }
            _ => P5::Publish(Box::new(s5::Publish5 { topic: "in/1".into(), qos: 1, pid: Some(id), payload_len: 2, ..Default::default() })),
        };
        if what % 8 == 4 {
            let mut b = self.eut.encode(&p, &[9; 20]);
            b.truncate(b.len() - 14);
            self.inbound_owed = 14;
            return b;
        }
        let payload: &[u8] = if matches!(p, P5::Publish(_)) { &[7, 7] } else { &[] };
        self.eut.encode(&p, payload)
    }

    /// supply everything still owed on every live incomplete stream (drives a chunk in progress first)
    pub async fn finish_streams(&mut self) -> Result<(), Failure> {
        for _ in 0..4 {
            let live: Vec<usize> = self.streams.iter().enumerate().filter(|(_, s)| s.live).map(|(i, _)| i).collect();
            for (k, si) in live.iter().enumerate() {
                let st = &self.streams[*si];
                if (st.accepted.len() as u32) < st.declared && !st.aborted {
                    self.apply(Op::Chunk { stream: k as u8, len: 3 }).await?;
                }
            }
        }
        Ok(())
    }

    pub fn ended(&self) -> bool {
        self.eut.done().is_some() || !self.eut.app().stops().is_empty() || self.eut.sink_open() == Some(false)
    }

    /// poll every live future once
    pub fn poll_all(&mut self) {
        self.step += 1;
        for i in 0..self.slots.len() {
            if self.slots[i].fut.is_some() {
                self.poll_slot(i);
            }
        }
        self.resend_loops();
    }

    pub fn results_summary(&self) -> Vec<String> {
        self.slots.iter().enumerate().map(|(i, s)| format!("#{i}:{:?}:{}", s.kind, match (&s.result, s.fut.is_some(), s.dropped) {
            (Some(SendRes::Err(e)), _, _) => format!("{e:?}"),
            (Some(r), _, _) => format!("{r:?}").chars().take(24).collect(),
            (None, true, _) => "pending".into(),
            (None, false, true) => "dropped".into(),
            _ => "?".into(),
        })).collect()
    }
}

pub fn is_disconnected(r: &SendRes) -> bool {
    matches!(r, SendRes::Err(SendErr::Disconnected) | SendRes::Ready(false))
}

/// Decode a byte string into sink operations (two bytes each: opcode, argument), for the coverage-guided target
/// `fuzz/fuzz_targets/sink.rs`: every byte string is some history, similar strings are similar histories.
pub fn decode_ops(data: &[u8], max: usize) -> Vec<Op> {
    const KINDS: [SendKind; 7] = [SendKind::Qos0, SendKind::Qos1, SendKind::Qos2, SendKind::Subscribe, SendKind::Unsubscribe, SendKind::Ready, SendKind::NoBlock];
    let mut out = Vec::new();
    for ch in data.chunks_exact(2).take(max) {
        let (o, a) = (ch[0], ch[1]);
        let kind = KINDS[usize::from(a & 7) % KINDS.len()];
        out.push(match o % 23 {
            0 | 1 => Op::Send { kind, again: a & 8 != 0, own_id: if a & 0x30 == 0x30 { a >> 6 } else { 0 } },
            2 => Op::Create { kind, again: a & 8 != 0, own_id: 0 },
            3 | 4 => Op::Poll(a),
            5 => Op::DropFut(a),
            6 | 7 => Op::Ack { n: 1 + a % 3, batch: a & 4 != 0 },
            8 => Op::Window(a & 1 != 0),
            9 => Op::Yield(a % 4),
            10 => Op::Settle,
            11 => Op::Release(a),
            12 => Op::DropReceipt(a),
            13 => Op::SendBad { kind, how: (a >> 3) & 15 },
            14 => Op::StreamStart { qos: a & 1, declared: [0u8, 1, 3, 6, 9, 11, 200, 5][usize::from(a >> 1) % 8], bad: [0u8, 0, 0, 1, 2, 3][usize::from(a >> 4) % 6] },
            15 | 16 => Op::Chunk { stream: a & 1, len: (a >> 1) % 6 },
            17 => Op::StreamDrop(a),
            18 => Op::Inbound(a % 4),
            19 => Op::Hold(a & 1 != 0),
            20 => Op::AckDev([Dev::WrongType(4), Dev::WrongType(5), Dev::WrongType(7), Dev::WrongType(9), Dev::WrongType(11), Dev::WrongId, Dev::Duplicate, Dev::Reorder][usize::from(a) % 8]),
            21 => Op::Close(a),
            _ => Op::PeerFault(a),
        });
    }
    out
}

/// Inverse of `decode_ops` by search (seed corpus of the `sink` target): operations the byte form cannot express are left out.
pub fn encode_ops(ops: &[Op]) -> Vec<u8> {
    let mut out = Vec::new();
    for op in ops {
        'search: for o in 0u8..23 {
            for a in 0u8..=255 {
                if decode_ops(&[o, a], 1).first() == Some(op) {
                    out.extend_from_slice(&[o, a]);
                    break 'search;
                }
            }
        }
    }
    out
}
