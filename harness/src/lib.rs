//! Property-based verification harness for ntex-mqtt (see /verif/DESIGN.md).
#![allow(clippy::all)]
pub mod bed;
pub mod conv;
pub mod decoding;
pub mod strat;
pub mod libio;
pub mod props;
pub mod runner;
pub mod sinkbed;
pub mod spec;
