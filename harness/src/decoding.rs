//! Generic decode driver + oracle shared by C02 (hostile bytes) and C10
//! (fragmentation independence): runs one of the library's codecs over an
//! input delivered in pieces and judges the event stream against the
//! content-independent frame splitter and the reference decoder.

use ntex_bytes::{Bytes, BytesMut};
use ntex_mqtt::error::DecodeError;
use ntex_mqtt::{v3::codec as c3, v5::codec as c5};

use crate::conv::*;
use crate::libio::*;
use crate::runner::{Failure, catch};
use crate::spec::wire::{self, Rej, Reject, Split};
use crate::spec::{v3 as s3, v5 as s5};

#[derive(Clone, Copy, Debug, PartialEq, Eq, serde::Serialize, serde::Deserialize)]
pub struct DecCfg {
    pub max_size: u32,
    pub min_chunk: u32,
}

/// Version specific pieces of the oracle.
pub trait Ver {
    type C: AnyCodec;
    /// reference packet value
    type SP: PartialEq + std::fmt::Debug + Clone + serde::Serialize;
    const NAME: &'static str;

    fn spec_decode(first: u8, body: &[u8]) -> Result<(Self::SP, bool), Reject>;
    fn spec_publish_header(
        first: u8,
        rl: u32,
        avail: &[u8],
    ) -> Result<Option<(Self::SP, usize, bool)>, Reject>;
    fn from_packet(p: &<Self::C as AnyCodec>::P) -> Self::SP;
    fn from_publish(p: &<Self::C as AnyCodec>::B) -> Self::SP;
    /// re-encode with a fresh codec (stability oracle)
    fn reencode_packet(p: &<Self::C as AnyCodec>::P) -> Result<Vec<u8>, String>;
    fn reencode_publish(p: &<Self::C as AnyCodec>::B, payload: &[u8]) -> Result<Vec<u8>, String>;
    fn kind(sp: &Self::SP) -> &'static str;
}

pub struct V3;
pub struct V5;

impl Ver for V5 {
    type C = c5::Codec;
    type SP = s5::P5;
    const NAME: &'static str = "v5";
    fn spec_decode(first: u8, body: &[u8]) -> Result<(s5::P5, bool), Reject> {
        match s5::decode(first, body) {
            s5::Verdict::Valid { pkt, gray } => Ok((pkt, gray)),
            s5::Verdict::Invalid(r) => Err(r),
        }
    }
    fn spec_publish_header(first: u8, rl: u32, avail: &[u8]) -> Result<Option<(s5::P5, usize, bool)>, Reject> {
        Ok(s5::decode_publish_header(first, rl, avail)?
            .map(|(p, h, g)| (s5::P5::Publish(Box::new(p)).normalize(), h, g)))
    }
    fn from_packet(p: &c5::Packet) -> s5::P5 {
        from_lib5(p)
    }
    fn from_publish(p: &c5::Publish) -> s5::P5 {
        from_lib5_publish(p)
    }
    fn reencode_packet(p: &c5::Packet) -> Result<Vec<u8>, String> {
        encode5(&c5::Codec::new(), &Lib5::Packet(p.clone()), None).map_err(|(e, _)| format!("{e:?}"))
    }
    fn reencode_publish(p: &c5::Publish, payload: &[u8]) -> Result<Vec<u8>, String> {
        encode5(&c5::Codec::new(), &Lib5::Publish(p.clone()), Some(Bytes::copy_from_slice(payload)))
            .map_err(|(e, _)| format!("{e:?}"))
    }
    fn kind(sp: &s5::P5) -> &'static str {
        sp.kind()
    }
}

impl Ver for V3 {
    type C = c3::Codec;
    type SP = s3::P3;
    const NAME: &'static str = "v3";
    fn spec_decode(first: u8, body: &[u8]) -> Result<(s3::P3, bool), Reject> {
        match s3::decode(first, body) {
            s3::Verdict::Valid { pkt, gray } => Ok((pkt, gray)),
            s3::Verdict::Invalid(r) => Err(r),
        }
    }
    fn spec_publish_header(first: u8, rl: u32, avail: &[u8]) -> Result<Option<(s3::P3, usize, bool)>, Reject> {
        Ok(s3::decode_publish_header(first, rl, avail)?.map(|(p, h, g)| (s3::P3::Publish(p), h, g)))
    }
    fn from_packet(p: &c3::Packet) -> s3::P3 {
        from_lib3(p)
    }
    fn from_publish(p: &c3::Publish) -> s3::P3 {
        s3::P3::Publish(publish3_from_lib(p))
    }
    fn reencode_packet(p: &c3::Packet) -> Result<Vec<u8>, String> {
        encode3(&c3::Codec::new(), &Lib3::Packet(p.clone()), None).map_err(|(e, _)| format!("{e:?}"))
    }
    fn reencode_publish(p: &c3::Publish, payload: &[u8]) -> Result<Vec<u8>, String> {
        encode3(&c3::Codec::new(), &Lib3::Publish(p.clone()), Some(Bytes::copy_from_slice(payload)))
            .map_err(|(e, _)| format!("{e:?}"))
    }
    fn kind(sp: &s3::P3) -> &'static str {
        sp.kind()
    }
}

/// One observable event of the decode loop; `at` = cumulative bytes consumed
/// from the stream when the event was returned.
#[derive(Clone, Debug)]
pub enum Ev<P, B> {
    Packet { p: P, size: u32, at: usize },
    Publish { p: B, piece: Vec<u8>, size: u32, at: usize, delivered: usize },
    Chunk { piece: Vec<u8>, eof: bool, at: usize, delivered: usize },
    Err { e: DecodeError, at: usize, delivered: usize },
}

pub struct Run<P, B> {
    /// delivery boundaries (cumulative byte counts after each piece)
    pub bounds: Vec<usize>,
    pub events: Vec<Ev<P, B>>,
    /// decoder asked for more data at the end (no error)
    pub need_more: bool,
    pub calls: usize,
}

/// Feed `input` cut at the sorted offsets `cuts` (each 0 < c < len) and call
/// decode until it returns `None` after every piece.
pub fn run_lib<V: Ver>(
    input: &[u8],
    cuts: &[usize],
    cfg: DecCfg,
) -> Result<Run<<V::C as AnyCodec>::P, <V::C as AnyCodec>::B>, String> {
    catch(|| {
        let codec = V::C::fresh(cfg.max_size, cfg.min_chunk);
        let mut buf = BytesMut::new();
        let mut events = Vec::new();
        let mut delivered = 0usize;
        let mut calls = 0usize;
        let mut bounds: Vec<usize> = cuts.to_vec();
        bounds.push(input.len());
        let mut start = 0usize;
        let mut errored = false;
        let all_bounds = bounds.clone();
        'outer: for b in bounds {
            if b < start || b > input.len() {
                continue;
            }
            buf.extend_from_slice(&input[start..b]);
            delivered = b;
            start = b;
            let mut local = 0usize;
            loop {
                calls += 1;
                local += 1;
                assert!(local <= input.len() + 8, "decode loop makes no progress (more calls than bytes)");
                match codec.step(&mut buf) {
                    // (the codec may already have consumed the fixed header of the frame it waits for)
                    Ok(None) => break,
                    Ok(Some(item)) => {
                        let at = delivered - buf.len();
                        events.push(match item {
                            Item::Packet(p, size) => Ev::Packet { p, size, at },
                            Item::Publish(p, piece, size) => Ev::Publish { p, piece, size, at, delivered },
                            Item::Chunk(piece, eof) => Ev::Chunk { piece, eof, at, delivered },
                        });
                    }
                    Err(e) => {
                        events.push(Ev::Err { e, at: delivered - buf.len(), delivered });
                        errored = true;
                        break 'outer;
                    }
                }
            }
        }
        Run { bounds: all_bounds, events, need_more: !errored, calls }
    })
}

/// What the judge learned about the input (for classification).
#[derive(Clone, Debug, Default)]
pub struct Judged {
    pub frames_ok: usize,
    pub publishes: usize,
    /// verdict class of the last frame looked at
    pub last: &'static str,
    pub reject: Option<Rej>,
    pub kind: &'static str,
    pub accepted_gray: bool,
    pub body_examined: bool,
    pub cut_inside_publish: bool,
}

fn fail<V: Ver>(rule: &str, detail: String) -> Failure {
    Failure::new(rule, format!("{}/{rule}", V::NAME), detail)
}

fn hex(b: &[u8]) -> String {
    let n = b.len().min(40);
    let mut s: String = b[..n].iter().map(|x| format!("{x:02x}")).collect();
    if b.len() > n {
        s.push_str(&format!("..(+{})", b.len() - n));
    }
    s
}

/// Judge an event stream against the frame splitter + reference decoder.
/// The rule identifiers are the signature suffixes.
pub fn judge<V: Ver>(
    input: &[u8],
    cfg: DecCfg,
    run: &Run<<V::C as AnyCodec>::P, <V::C as AnyCodec>::B>,
    check_stability: bool,
) -> Result<Judged, Failure> {
    let mut j = Judged::default();
    let mut off = 0usize; // start of the current frame
    let mut evs = run.events.iter().peekable();

    loop {
        let rest = &input[off..];
        match wire::split(rest) {
            Split::NeedHeader => {
                j.last = "need-header";
                return end_need_more::<V>(&mut evs, run, j, "incomplete fixed header");
            }
            Split::BadVarint => {
                j.last = "bad-varint";
                j.reject = Some(Rej::BadVarint);
                return end_error::<V>(&mut evs, j, "five-byte Remaining Length", None);
            }
            Split::Frame { first, rl, hdr, complete } => {
                if cfg.max_size != 0 && rl > cfg.max_size {
                    // rule 5: rejected as soon as the fixed header is seen
                    j.last = "oversize";
                    match evs.next() {
                        Some(Ev::Err { e: DecodeError::MaxSizeExceeded { .. }, delivered, .. }) => {
                            // must not have waited for body bytes beyond the piece that completed the header
                            let due = run.bounds.iter().copied().find(|b| *b >= off + hdr).unwrap_or(input.len());
                            if *delivered > due {
                                return Err(fail::<V>(
                                    "oversize-late",
                                    format!("oversize frame (RL {rl} > {}) rejected only after {delivered} bytes; header complete at {due}", cfg.max_size),
                                ));
                            }
                            return no_more::<V>(&mut evs, j);
                        }
                        other => {
                            return Err(fail::<V>(
                                "oversize-not-rejected",
                                format!("frame with Remaining Length {rl} > max {}: got {:?}", cfg.max_size, brief_ev(other)),
                            ));
                        }
                    }
                }
                let end = off + hdr + rl as usize;
                if first >> 4 == 3 {
                    // PUBLISH: header, then streamed payload
                    let avail = &rest[hdr..rest.len().min(hdr + rl as usize)];
                    match V::spec_publish_header(first, rl, avail) {
                        Err(r) => {
                            j.last = "publish-invalid";
                            j.reject = Some(r.class);
                            j.body_examined = true;
                            if r.hard && complete {
                                return end_error::<V>(&mut evs, j, "malformed PUBLISH header", Some(r));
                            }
                            if r.hard {
                                // frame not complete yet: an early error or a wait are both fine
                                return match evs.next() {
                                    None | Some(Ev::Err { .. }) => no_more::<V>(&mut evs, j),
                                    other => Err(fail::<V>("invalid-accepted", format!("malformed PUBLISH header ({:?}) answered with {:?}", r.class, brief_ev(other)))),
                                };
                            }
                            return end_either::<V>(input, off, end, &mut evs, j, check_stability);
                        }
                        Ok(None) => {
                            j.last = "publish-header-incomplete";
                            // is the frame doomed whatever bytes follow?  (lengths already
                            // seen cannot fit into the Remaining Length): then an early
                            // error is as good as waiting
                            let doomed = publish_doomed(first, rl, avail, V::NAME == "v5");
                            if doomed {
                                j.reject = Some(Rej::Overrun);
                                return match evs.next() {
                                    None | Some(Ev::Err { .. }) => no_more::<V>(&mut evs, j),
                                    other => Err(fail::<V>("invalid-accepted", format!("PUBLISH header that cannot fit its Remaining Length answered with {:?}", brief_ev(other)))),
                                };
                            }
                            return end_need_more::<V>(&mut evs, run, j, "incomplete PUBLISH header");
                        }
                        Ok(Some((want, hlen, gray))) => {
                            j.body_examined = true;
                            j.kind = "PUBLISH";
                            let pay_start = off + hdr + hlen;
                            let pay_avail = &input[pay_start..input.len().min(end)];
                            let payload_len = rl as usize - hlen;
                            // the library's announcement
                            let (p, first_piece, size, at) = match evs.next() {
                                Some(Ev::Publish { p, piece, size, at, .. }) => (p, piece, *size, *at),
                                Some(Ev::Err { .. }) if gray => {
                                    j.last = "publish-gray-rejected";
                                    return no_more::<V>(&mut evs, j);
                                }
                                other => {
                                    return Err(fail::<V>(
                                        "publish-not-announced",
                                        format!("valid PUBLISH header at offset {off}: got {:?}; input {}", brief_ev(other), hex(input)),
                                    ));
                                }
                            };
                            if gray {
                                j.accepted_gray = true;
                            }
                            let got = V::from_publish(p);
                            if got != want {
                                return Err(fail::<V>(
                                    "publish-fields",
                                    format!("announced {got:?}, reference reads {want:?}; input {}", hex(input)),
                                ));
                            }
                            if size != rl {
                                return Err(fail::<V>("publish-size", format!("reported size {size}, Remaining Length {rl}")));
                            }
                            if <V::C as AnyCodec>::publish_payload_len(p) as usize != payload_len {
                                return Err(fail::<V>("publish-size", format!("declared payload {} but Remaining Length - header = {payload_len}", <V::C as AnyCodec>::publish_payload_len(p))));
                            }
                            // gather pieces
                            let mut got_payload: Vec<u8> = first_piece.clone();
                            let mut last_at = at;
                            let mut finals = usize::from(first_piece.len() == payload_len);
                            let mut pieces = 1usize;
                            if first_piece.len() > payload_len {
                                return Err(fail::<V>("payload-overrun", format!("first piece {} > declared {payload_len}", first_piece.len())));
                            }
                            // non-final, non-empty pieces must respect min_chunk
                            let mut check_piece = |piece: &[u8], is_final: bool| -> Result<(), Failure> {
                                if !is_final && !piece.is_empty() && (piece.len() as u32) < cfg.min_chunk {
                                    return Err(fail::<V>(
                                        "min-chunk",
                                        format!("non-final piece of {} bytes below min_chunk_size {}", piece.len(), cfg.min_chunk),
                                    ));
                                }
                                Ok(())
                            };
                            check_piece(first_piece, first_piece.len() == payload_len)?;
                            while finals == 0 {
                                match evs.peek() {
                                    Some(Ev::Chunk { piece, eof, at, .. }) => {
                                        pieces += 1;
                                        got_payload.extend_from_slice(piece);
                                        last_at = *at;
                                        if got_payload.len() > payload_len {
                                            return Err(fail::<V>("payload-overrun", format!("pieces add up to {} > declared {payload_len}", got_payload.len())));
                                        }
                                        if *eof {
                                            finals += 1;
                                            if got_payload.len() != payload_len {
                                                return Err(fail::<V>("payload-short-final", format!("final marker after {} of {payload_len} bytes", got_payload.len())));
                                            }
                                        } else if got_payload.len() == payload_len {
                                            return Err(fail::<V>("payload-no-final", "all payload bytes delivered but no piece is marked final".into()));
                                        }
                                        check_piece(piece, *eof)?;
                                        evs.next();
                                    }
                                    _ => break,
                                }
                            }
                            let _ = pieces;
                            if got_payload[..] != pay_avail[..got_payload.len().min(pay_avail.len())]
                                || got_payload.len() > pay_avail.len()
                            {
                                return Err(fail::<V>(
                                    "payload-bytes",
                                    format!("payload pieces {} are not a prefix of the payload sent {}", hex(&got_payload), hex(pay_avail)),
                                ));
                            }
                            j.publishes += 1;
                            if finals == 1 {
                                // complete: consumed exactly to the frame end
                                if last_at != end {
                                    return Err(fail::<V>("framing", format!("PUBLISH frame ends at {end}, decoder consumed to {last_at}")));
                                }
                                if check_stability {
                                    stability_publish::<V>(p, &got_payload, &want)?;
                                }
                                j.frames_ok += 1;
                                off = end;
                                continue;
                            }
                            // all payload bytes delivered but no final marker: the
                            // frame is complete and must have been finished
                            if pay_avail.len() == payload_len {
                                return Err(fail::<V>(
                                    "payload-no-final",
                                    format!("whole frame delivered, {} of {payload_len} payload bytes handed out, no final piece", got_payload.len()),
                                ));
                            }
                            j.last = "publish-payload-incomplete";
                            return end_need_more::<V>(&mut evs, run, j, "incomplete PUBLISH payload");
                        }
                    }
                }
                // non-PUBLISH
                if !complete {
                    j.last = "frame-incomplete";
                    return end_need_more::<V>(&mut evs, run, j, "incomplete frame");
                }
                j.body_examined = rl > 0;
                let body = &input[off + hdr..end];
                match V::spec_decode(first, body) {
                    Ok((want, gray)) => {
                        j.kind = V::kind(&want);
                        match evs.next() {
                            Some(Ev::Packet { p, size, at }) => {
                                let got = V::from_packet(p);
                                if got != want {
                                    return Err(fail::<V>(
                                        "packet-fields",
                                        format!("decoded {got:?}, reference reads {want:?}; frame {}", hex(&input[off..end])),
                                    ));
                                }
                                if *size != rl {
                                    return Err(fail::<V>("packet-size", format!("reported size {size}, Remaining Length {rl}")));
                                }
                                if *at != end {
                                    return Err(fail::<V>("framing", format!("frame ends at {end}, decoder consumed to {at}")));
                                }
                                if gray {
                                    j.accepted_gray = true;
                                }
                                if check_stability {
                                    stability_packet::<V>(p, &got)?;
                                }
                                j.frames_ok += 1;
                                off = end;
                            }
                            Some(Ev::Err { .. }) if gray => {
                                j.last = "gray-rejected";
                                return no_more::<V>(&mut evs, j);
                            }
                            other => {
                                return Err(fail::<V>(
                                    "valid-not-decoded",
                                    format!("valid {} frame {}: got {:?}", V::kind(&want), hex(&input[off..end]), brief_ev(other)),
                                ));
                            }
                        }
                    }
                    Err(r) => {
                        j.reject = Some(r.class);
                        j.last = "frame-invalid";
                        if r.hard {
                            return end_error::<V>(&mut evs, j, "malformed frame", Some(r));
                        }
                        return end_either::<V>(input, off, end, &mut evs, j, check_stability);
                    }
                }
            }
        }
    }
}

type EvIter<'a, V> = std::iter::Peekable<
    std::slice::Iter<'a, Ev<<<V as Ver>::C as AnyCodec>::P, <<V as Ver>::C as AnyCodec>::B>>,
>;

fn brief_ev<P: std::fmt::Debug, B: std::fmt::Debug>(e: Option<&Ev<P, B>>) -> String {
    match e {
        None => "need-more-data".into(),
        Some(Ev::Packet { p, at, .. }) => {
            let s = format!("{p:?}");
            format!("packet {} consumed-to {at}", s.chars().take(120).collect::<String>())
        }
        Some(Ev::Publish { p, at, piece, .. }) => {
            let s = format!("{p:?}");
            format!("publish {} piece {} consumed-to {at}", s.chars().take(120).collect::<String>(), piece.len())
        }
        Some(Ev::Chunk { piece, eof, .. }) => format!("chunk {} eof={eof}", piece.len()),
        Some(Ev::Err { e, .. }) => format!("error {e:?}"),
    }
}

fn no_more<V: Ver>(evs: &mut EvIter<'_, V>, j: Judged) -> Result<Judged, Failure> {
    match evs.next() {
        None => Ok(j),
        other => Err(fail::<V>("events-after-end", format!("unexpected {:?} after the terminal event", brief_ev(other)))),
    }
}

fn end_need_more<V: Ver>(
    evs: &mut EvIter<'_, V>,
    run: &Run<<V::C as AnyCodec>::P, <V::C as AnyCodec>::B>,
    j: Judged,
    why: &str,
) -> Result<Judged, Failure> {
    match evs.next() {
        None if run.need_more => Ok(j),
        other => Err(fail::<V>(
            "incomplete-not-need-more",
            format!("{why}: expected need-more-data, got {:?}", brief_ev(other)),
        )),
    }
}

fn end_error<V: Ver>(
    evs: &mut EvIter<'_, V>,
    j: Judged,
    why: &str,
    r: Option<Reject>,
) -> Result<Judged, Failure> {
    match evs.next() {
        Some(Ev::Err { .. }) => no_more::<V>(evs, j),
        other => {
            let class = r.map_or_else(|| "BadVarint".to_owned(), |r| format!("{:?}", r.class));
            Err(Failure::new(
                "must-reject",
                format!("{}/must-reject/{class}", V::NAME),
                format!("{why} ({class}) not reported as an error: got {:?}", brief_ev(other)),
            ))
        }
    }
}

/// soft-invalid or gray input: the library may refuse it, or accept it; if it
/// accepts, framing and stability still apply
fn end_either<V: Ver>(
    input: &[u8],
    off: usize,
    end: usize,
    evs: &mut EvIter<'_, V>,
    mut j: Judged,
    check_stability: bool,
) -> Result<Judged, Failure> {
    match evs.next() {
        Some(Ev::Err { .. }) => no_more::<V>(evs, j),
        Some(Ev::Packet { p, at, .. }) => {
            j.accepted_gray = true;
            if *at != end.min(input.len()) {
                return Err(fail::<V>("framing", format!("frame [{off},{end}) but decoder consumed to {at}")));
            }
            if check_stability {
                let got = V::from_packet(p);
                stability_packet::<V>(p, &got)?;
            }
            // whatever follows is judged no further (state after a tolerated
            // malformed frame is the library's business), but must not panic
            Ok(j)
        }
        Some(Ev::Publish { .. }) => {
            j.accepted_gray = true;
            Ok(j)
        }
        None => {
            // complete frame but no verdict
            if end <= input.len() {
                Err(fail::<V>("no-verdict", format!("complete frame {} classified neither packet nor error", hex(&input[off..end]))))
            } else {
                Ok(j)
            }
        }
        Some(Ev::Chunk { .. }) => Err(fail::<V>("events-after-end", "payload chunk without PUBLISH".into())),
    }
}

fn stability_packet<V: Ver>(p: &<V::C as AnyCodec>::P, got: &V::SP) -> Result<(), Failure> {
    let bytes = catch(|| V::reencode_packet(p))
        .map_err(|e| fail::<V>("stability-panic", e))?
        .map_err(|e| fail::<V>("stability-reencode", format!("accepted packet {got:?} cannot be re-encoded: {e}")))?;
    let codec = V::C::fresh(0, 0);
    match catch(|| decode_one(&codec, &bytes)).map_err(|e| fail::<V>("stability-panic", e))? {
        Ok(Some((Whole::Packet(p2, _), n))) if &p2 == p && n == bytes.len() => Ok(()),
        other => Err(fail::<V>(
            "stability",
            format!("accepted packet {got:?} re-encodes to {} which decodes to {other:?}", hex(&bytes)),
        )),
    }
}

fn stability_publish<V: Ver>(
    p: &<V::C as AnyCodec>::B,
    payload: &[u8],
    got: &V::SP,
) -> Result<(), Failure> {
    let bytes = catch(|| V::reencode_publish(p, payload))
        .map_err(|e| fail::<V>("stability-panic", e))?
        .map_err(|e| fail::<V>("stability-reencode", format!("accepted publish {got:?} cannot be re-encoded: {e}")))?;
    let codec = V::C::fresh(0, 0);
    match catch(|| decode_one(&codec, &bytes)).map_err(|e| fail::<V>("stability-panic", e))? {
        Ok(Some((Whole::Publish(p2, pl2, _), n))) if &p2 == p && pl2 == payload && n == bytes.len() => Ok(()),
        other => Err(fail::<V>(
            "stability",
            format!("accepted publish {got:?} re-encodes to {} which decodes to {other:?}", hex(&bytes)),
        )),
    }
}

/// Can the PUBLISH variable header announced so far never fit into its
/// Remaining Length, whatever bytes follow?
pub fn publish_doomed(first: u8, rl: u32, avail: &[u8], v5: bool) -> bool {
    let pid_len: u64 = if (first >> 1) & 3 == 0 { 0 } else { 2 };
    let extra: u64 = u64::from(v5);
    let rl = u64::from(rl);
    if rl < 2 + pid_len + extra {
        return true;
    }
    if avail.len() < 2 {
        return false;
    }
    let base = 2 + u64::from(u16::from_be_bytes([avail[0], avail[1]])) + pid_len;
    if base + extra > rl {
        return true;
    }
    if v5 && (avail.len() as u64) > base {
        let end = (avail.len() as u64).min(rl) as usize;
        return match wire::get_varint(&avail[base as usize..end]) {
            wire::VarInt::Ok(n, w) => base + w as u64 + u64::from(n) > rl,
            wire::VarInt::Malformed => true,
            wire::VarInt::Incomplete => end as u64 == rl,
        };
    }
    false
}

/// run + judge, mapping panics to failures
pub fn decode_and_judge<V: Ver>(
    input: &[u8],
    cuts: &[usize],
    cfg: DecCfg,
    check_stability: bool,
) -> Result<Judged, Failure> {
    let run = run_lib::<V>(input, cuts, cfg).map_err(|p| {
        // strip the line number: signature must survive unrelated edits
        Failure::new("panic", format!("{}/panic/{}", V::NAME, panic_key(&p)), p)
    })?;
    judge::<V>(input, cfg, &run, check_stability)
}

/// "panic at file:line: msg" -> "file: msg"
pub fn panic_key(p: &str) -> String {
    let s = p.strip_prefix("panic at ").unwrap_or(p);
    match s.split_once(": ") {
        Some((loc, msg)) => {
            let file = loc.rsplit_once(':').map_or(loc, |(f, _)| f);
            format!("{file}: {msg}")
        }
        None => s.to_owned(),
    }
}
