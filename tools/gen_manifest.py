#!/usr/bin/env python3
"""Generates /verif/MANIFEST.json from the table below (kept next to the checks)."""
import json, os

ROOT = os.path.dirname(os.path.dirname(os.path.abspath(__file__)))

# id -> (category, technique, level text, level note, design ref)
CHECKS = {
 "C18": ("exploration",
   "bounded-exhaustive enumeration + proptest generation against a section-4.7 reference matcher",
   "Every string of length <=5 (quick) / <=6 (thorough) over {a,b,$,/,+,#} is pushed through both validators, "
   "Display/levels round trips and, if valid, matched against every topic of length <=6/7 over {a,b,$,/}; all ordered "
   "filter pairs of length <=4/5 are checked for covering soundness; random unicode levels via proptest. Exhaustive "
   "on that alphabet, sampled beyond it - the right level because the functions are pure and tiny.",
   "Trusted: the reference matcher (harness/src/spec/topic.rs) transcribing MQTT 5 section 4.7; hook topic_is_valid is a plain wrapper.",
   "DESIGN.md section 3 C18"),
}

NOT_YET = {}

def main():
    props = [json.loads(l) for l in open(os.path.join(ROOT, "properties.jsonl"))]
    checks, na = [], []
    for p in props:
        pid = p["id"]
        if pid in CHECKS:
            cat, tech, text, note, ref = CHECKS[pid]
            checks.append({
                "property_id": pid,
                "quick_cmd": f"./check {pid} quick",
                "thorough_cmd": f"./check {pid} thorough",
                "evidence_file": f"evidence/{pid}.json",
                "replay_cmd_template": f"./check {pid} --replay {{path}}",
                "engine": "mqtt-verif",
                "level_claimed": {"category": cat, "text": text, "design_ref": ref},
                "level_note": note,
                "technique": tech,
            })
        else:
            na.append({"property_id": pid, "reason": NOT_YET.get(pid, "check not built yet in this revision of /verif (work in progress; see DESIGN.md section 3 for the planned check)")})
    manifest = {
        "version": 1,
        "setup_cmd": "./check --build",
        "hooks": {
            "guard": "cargo feature `verif-hooks` of ntex-mqtt",
            "enable": "harness/Cargo.toml depends on ntex-mqtt = { path = \"/repo\", features = [\"verif-hooks\"] }; every ./check invocation runs cargo build --release first, recompiling /repo's working tree",
            "baseline_off_cmd": "cd /repo && cargo test --workspace --no-fail-fast --offline",
            "source_commits": ["aad6c81"],
            "add_only": True,
        },
        "engines": [{
            "name": "mqtt-verif",
            "path": "harness",
            "serves_properties": [c["property_id"] for c in checks],
            "kind_free_text": "Rust binary: proptest-driven generators (fixed seeds from VERIF_SEED), bounded-exhaustive enumerators, independent MQTT reference codec, in-memory connection test bed; writes evidence/<id>.json",
        }],
        "checks": checks,
        "notes": "Exit codes: 0 held, 1 VIOLATION line printed, 2 infrastructure trouble (build failure, watchdog). known_findings.json lists genuine defects (open = suppressed by exact signature, fixed = not suppressed).",
        "not_applicable": na,
    }
    with open(os.path.join(ROOT, "MANIFEST.json"), "w") as f:
        json.dump(manifest, f, indent=1)
        f.write("\n")

if __name__ == "__main__":
    main()
