#!/usr/bin/env python3
"""Generates /verif/MANIFEST.json from the table below (kept next to the checks)."""
import json, os

ROOT = os.path.dirname(os.path.dirname(os.path.abspath(__file__)))

# id -> (category, technique, level text, level note, design ref)
CHECKS = {
 "C20": ("exploration",
   "real-time scenario enumeration on a coarse grid, many connections concurrently, tolerance-zone oracle with a driver-slip guard",
   "Keep-alive source (client value -> k + k/2, handshake override, v3 disabled) x pattern (dead peer after 0..2 packets at two phases; live peer for three periods, whole or fragmented packets; partial frame stalled / trickling below the frame read rate / three fast-enough frames in a row / a fast-enough frame under a read rate without time limit; half a CONNECT or a trickling CONNECT against the connect timeout; idle client with keep-alive (its own or a Server Keep Alive it did not ask for), with a full send window, after a stream that owed payload at a tick; live peer while a handler is busy; dead peer after the publish service was not ready for a while), "
   "v3 and v5, repeated at staggered phases of the 1 s timer wheel. Dead peers end inside [T-0.6 s, T+2.2 s] with a keep-alive timeout (v5 DISCONNECT 0x8D), live peers never, slow frames with a read timeout, fast-enough frames are handled, stalled CONNECT dropped, clients write PINGREQ every k+1.2 s.",
   "Wall-clock check: cases whose driver woke more than 0.3 s late are inconclusive; more than 5 % inconclusive gives exit 2, never a violation.",
   "DESIGN.md section 3 C20"),
 "C19": ("exploration",
   "bounded-exhaustive enumeration of first packets x cut sets of the first bytes x server kind, enumerated handshake outcomes, and proptest-generated limit tuples probed by behaviour",
   "(a) every first packet (CONNECT name/level/reserved-flag variations, every other v3/v5 packet) against v3-only, v5-only and combined servers, unfragmented, byte-at-a-time and under sampled cut sets, with a pipelined PUBLISH; all cut sets of the first 12 (thorough 15) bytes of the plain CONNECTs on the combined server. "
   "(b) accept / every refusal code / handshake error, fast or held while the pipelined PUBLISH arrives. (c) configured x requested x overridden limit tuples, four roles, each limit probed after the handshake: CONNACK announcements, send window (credit and frames on the wire), inbound size (also lifted by the handshake), QoS, alias, Receive Maximum, outbound size; late first packets on a combined server without a version time limit.",
   "Trusted: reference codec. Keep-alive duration is measured by C20; a client keep-alive of 0 gets the library's documented idle timeout unannounced (not judged).",
   "DESIGN.md section 3 C19"),
 "C15": ("exploration",
   "bounded-exhaustive enumeration of ordered initiator pairs (thorough: triples) x separators x control-service answers x Stop held/handled, plus proptest mixes; oracle over the reference-decoded output stream",
   "Every single close initiator and every ordered pair with repetition (application close variants, protocol handler disconnect_with, six dedicated-code violations, malformed bytes, unsolicited ack, handler errors, peer DISCONNECT with/without session expiry) x three separators x three Stop answers x Stop held open or not, "
   "v5 server and v5 client. At most one DISCONNECT, nothing after it, none after the peer's DISCONNECT was handled, a first error cause that is not overtaken never yields 0x00 and carries its dedicated code, a lone error cause is reported at all.",
   "Trusted: reference decoder. Keep-alive (0x8D) is checked by C20. Which of two unseparated initiators writes the single DISCONNECT is not judged.",
   "DESIGN.md section 3 C15"),
 "C07": ("fault_enumeration",
   "exhaustive enumeration of the grid base scenario x step index x termination cause x Stop held/handled x role (plus every byte offset inside the packet being delivered for peer close / read error), teardown oracle over the application log and owned futures; thorough tier additionally a coverage-guided libFuzzer campaign (target `sink`) over byte-encoded histories judged by the same oracle",
   "Nine base scenarios (idle; publishes in flight with gated handlers; inbound payload half received with a reader waiting; outbound sends awaiting acknowledgement; senders parked on a full window; ready() parked on write back-pressure; outbound stream half written; "
   "gated protocol handler with packets buffered; mixed) x every step index x 12-17 causes per role x Stop notification handled at once or held open x four roles; byte offsets 1..39 inside inbound packets for peer close / read error; a send started while the Stop notification is being handled; the peer going away while the handshake service is still deciding (servers). "
   "Exactly one Stop of the class the cause demands and no control call after it, every owned future resolved, no clean end of an incomplete payload, no handler cancelled before the held Stop was handled and none left running, connection task finished, no panic.",
   "Trusted: as C03. Keep-alive expiry is a real-time cause after the last step of each scenario (server roles; timing itself is C20's subject); a failing back-pressure notification does not end the connection in this library and is only required not to break teardown.",
   "DESIGN.md section 3 C07"),
 "C08": ("exploration",
   "stateful proptest histories of sink operations and inbound traffic plus deterministic scenarios; whole-stream parse with the reference decoder and a supplied-bytes oracle; thorough tier additionally a coverage-guided libFuzzer campaign (target `sink`) over byte-encoded histories judged by the same oracle",
   "Plain, failing (over-long topic/user property, over the peer's Maximum Packet Size, id in use, send while a payload is owed) and streamed sends (QoS 0/1, arbitrary chunkings, under-/over-delivery, drops, failing starts) interleaved with inbound PUBLISH/PINGREQ/SUBSCRIBE "
   "whose handlers may be held and released mid-stream, acknowledgements, back-pressure stalls, close and fault paths, four roles. The complete output parses as whole packets (incomplete last frame only for a live stream in progress or after the connection was aborted); "
   "every request frame belongs to exactly one operation that did not fail locally and carries the supplied payload; streamed payload bytes on the wire are exactly the accepted chunks in order; successful sends are on the wire.",
   "Trusted: reference decoder; whether the connection survives a response falling due inside a streamed payload is not judged.",
   "DESIGN.md section 3 C08"),
 "C06": ("exploration",
   "stateful proptest histories plus a deterministic deviation matrix and an id wrap-around run; acknowledgement-log oracle; thorough tier additionally a coverage-guided libFuzzer campaign (target `sink`) over byte-encoded histories judged by the same oracle",
   "Deviation matrix (every send kind x every acknowledgement type x position 0..2, wrong id, duplicate, reordered, unsolicited; four roles), one run of 65545 automatic ids across the 65535->1 wrap per role, and generated histories "
   "of sends with automatic/caller-chosen ids, locally failing sends, singly/batched acknowledgements with generated v5 contents and at most one deviation. A send completes Ok only after the peer sent the right acknowledgement for its id and returns its contents; "
   "outstanding ids non-zero and distinct; a deviation gives exactly one Stop(Protocol) and resolves all pending futures; a correct peer completes everything, keeps the connection and restores credit().",
   "Trusted: as C03; out-of-order PUBCOMPs among several released exchanges are not judged.",
   "DESIGN.md section 3 C06"),
 "C05": ("exploration",
   "stateful proptest histories with a harness-owned sender schedule; counter model on the spec-decoded wire; thorough tier additionally a coverage-guided libFuzzer campaign (target `sink`) over byte-encoded histories judged by the same oracle",
   "Histories of 3..25 ops for send limits 1..4 (established via config, HandshakeAck::max_send, or the peer's Receive Maximum lower/higher than the configured value): create / poll / drop sink futures in any order, "
   "'send again on completion' loops, acknowledgements singly or batched, QoS 2 release and receipt drops, stalled-peer episodes. After every op: unacknowledged QoS>0 PUBLISH frames on the wire <= limit, and credit() == limit - outstanding after settles.",
   "Trusted: as C03; only the awaiting send APIs are exercised, as the statement requires.",
   "DESIGN.md section 3 C05"),
 "C13": ("exploration",
   "stateful proptest histories weighted to cancellations and back-pressure toggles; liveness judged at deterministic quiescence; thorough tier additionally a coverage-guided libFuzzer campaign (target `sink`) over byte-encoded histories judged by the same oracle",
   "Same op set as C05 weighted towards dropping parked / woken futures and stall toggles, with a peer that acknowledges everything correctly; final phase lifts the stall, releases receipts, acknowledges everything, polls every survivor until nothing changes; "
   "then no future may be pending while slots are free and back-pressure is off, none may have failed, the connection must be alive.",
   "Trusted: as C03. 'Forever' is decidable because the harness owns transport and schedule.",
   "DESIGN.md section 3 C13"),
 "C14": ("exploration",
   "bounded-exhaustive schedule enumeration (release permutations x drop masks x batching x interleavings) with a per-id QoS 2 exchange model",
   "All schedules for 2..3 (thorough 4) concurrent exactly-once sends: every release order, every release/drop mask, PUBRECs and PUBCOMPs singly or batched, polls in between, pipelined or phased, QoS 1 traffic before/after/in between, "
   "four roles. Each send gets the receipt of its own id, no UnexpectedRelease, exactly one PUBREL per id (also on drop), a release completes exactly with its own PUBCOMP, credit() returns to the limit.",
   "Trusted: as C03; conforming peer (answers in order of receipt).",
   "DESIGN.md section 3 C14"),
 "C12": ("exploration",
   "stateful proptest bursts against gated handlers with an adaptive conforming/exceeding scripted peer; overlap/byte/liveness oracle",
   "Generated bursts of publishes (QoS 0/1/2, sizes around the byte limit, some streamed), PINGREQ and gated SUBSCRIBE, released in generated order, over the configuration grid max_receive 0..4 x "
   "max_receive_size {0,1,8,64,1024,65535} (v3 default middleware) and Receive Maximum 1..4 (v5 server and client); the scripted v5 peer either stays within Receive Maximum or exceeds it at a generated point; deterministic scenarios for duplicate ids, repeated PUBREL, byte-limit boundaries and endpoints that announced no Receive Maximum. "
   "Handler overlap and packet bytes must stay within the limits, 0x93 is sent exactly to the exceeding peer, and with all gates open every publish is handled, read to its end, acknowledged and PINGREQ answered.",
   "Trusted: as C03. Exceeding is only judged when Receive Maximum publishes sit in unfinished handlers and no byte limit has paused reading.",
   "DESIGN.md section 3 C12"),
 "C17": ("exploration",
   "model-based stateful testing (per-connection alias map) with bounded-exhaustive short histories + proptest histories over two connections",
   "Every history of <=3 (quick) / <=4 (thorough) publishes over {topic only, bind, use} x two topics x aliases {1, max, max+1}, plus random histories of up to 10 publishes interleaved on two "
   "connections of one server factory, with and without the topic router, server and client role, several advertised maxima (configured, rewritten by the handshake service, differing from the peer's CONNACK value), aliases bound by publishes dropped after an application close; the handler must see the topic the model resolves and the route it selects, "
   "invalid aliases must end the connection with a protocol error without reaching a handler, bindings of one connection are invisible on the other.",
   "Trusted: as C03.",
   "DESIGN.md section 3 C17"),
 "C16": ("exploration",
   "bounded-exhaustive packet-sequence enumeration + proptest sequences against idle/busy application states; crash/quiescence/responsiveness oracle",
   "Every sequence of length <=3 (quick) / <=4 (thorough) over 26-30 well-formed packet templates per version, after and instead of the handshake, against an idle application and one with "
   "outstanding QoS1/QoS2/subscribe/unsubscribe sends (shorter sequences against a held QoS 2 receipt and gated inbound handlers), plus random sequences of 4..12 packets, all four roles. "
   "No panic in any task (application futures polled by the driver), settle reaches a fixed point, the connection is ended (<=1 Stop) or answers a probe, input consumed, task finishes after peer close, pending sends resolve.",
   "Trusted: as C03; 'hang' is judged at deterministic quiescence of the in-memory bed (no timers involved).",
   "DESIGN.md section 3 C16"),
 "C11": ("exploration",
   "model-based stateful testing (reserved-id model) with bounded-exhaustive short histories + proptest histories",
   "Every history of 3 (quick) / 4 (thorough) packet ops over {PUBLISH QoS1/2, SUBSCRIBE, UNSUBSCRIBE, PUBREL} x ids {1,2} x gate placements, plus random histories over ids {1,2,3}, executed against "
   "servers and clients of both versions in lock-step with a reserved-id model whose release points are read off the wire: in-use ids never reach a handler (v3: violation 2.2.1-3, v5: 0x91), "
   "released ids are accepted again on every release path, PUBREL for a free id is refused (v3 ends, v5 PUBCOMP 0x92); deterministic scenarios: reuse inside an open QoS 2 exchange (also with DUP), reuse on a connection the application closed while publishes are still handled.",
   "Trusted: as C03. Ambiguous instants (acknowledgement generated but not yet written; second control packet while one is in progress) are skipped and counted.",
   "DESIGN.md section 3 C11"),
 "C03": ("exploration",
   "stateful proptest histories on an in-memory connection with a harness-owned schedule; per-packet-id exchange model",
   "Generated histories of 1..5 inbound publishes (QoS 0/1/2, payloads delivered in pieces so that they are streamed, random flags/properties), handler outcomes "
   "(ok / error / v5 negative ack / v5 error mapped to an ack), eager/lazy/abandoning readers, deferred completions in generated order, PUBREL answered by a scripted peer, "
   "PINGREQ/SUBSCRIBE interleaved, for v3/v5 x server/client. Checked: one handler entry with exactly the packet sent, payload equality, no success ack before the handler "
   "completed, per-QoS acknowledgement counts and order, failures never acknowledged as success.",
   "Trusted: IoTest as transport, yield-only settle() fixed point, reference codec used by the scripted peer. Known finding (client roles acknowledge QoS 2 with PUBACK) is excluded by construction and reported as KNOWN-FINDING.",
   "DESIGN.md section 3 C03"),
 "C04": ("exploration",
   "bounded-exhaustive schedules (all completion permutations x immediate/deferred masks) + proptest histories; order oracle on the spec-decoded wire",
   "For fourteen request-kind patterns (client patterns include PUBREL for the id of a running publish and the resource() routes) every completion permutation, every immediate/deferred mask and two arrival groupings are executed (n=4 quick, n=5 thorough); random histories add write "
   "groupings, gate openings interleaved with arrivals and stalled-peer (write back-pressure) episodes. At every settle point the responses on the wire must be exactly the longest "
   "arrival-order prefix of completed requests.",
   "Trusted: as C03. Exhaustive only for the listed patterns.",
   "DESIGN.md section 3 C04"),
 "C01": ("exploration",
   "proptest value generation; round-trip + differential against an independent spec codec; exhaustive varints",
   "Generated packet values of every kind (optional fields/properties independently present, all reason codes, boundary string lengths, PUBLISH aimed at "
   "every Remaining-Length width boundary) are encoded by the library and read back by an independent reference decoder, round-tripped through the library, "
   "and the reference encoder's bytes (random property order, explicit defaults, short forms) are read by the library. Variable byte integers: all n < 2^17 "
   "quick, all 2^28 thorough. Sampled, not exhaustive, over packet values: the space is unbounded.",
   "Trusted: reference codec harness/src/spec/{wire,v3,v5}.rs written from the OASIS texts (cross-checked by the foreign-bytes oracle); conv.rs projection rules (absent <=> default).",
   "DESIGN.md section 3 C01"),
 "C02": ("exploration",
   "bounded-exhaustive byte strings + structure-aware mutation fuzzing against a frame splitter / reference decoder oracle",
   "Every byte string of length <=3 and every string of length <=6/7 over 12 interesting bytes, plus tens of thousands of structure-aware mutations of valid frames, "
   "each under several deliveries and max-size/min-chunk settings, through the v3 codec, the v5 codec and the sniffing codec; judged for panics, progress, framing, the "
   "must-reject classes of the statement, early oversize rejection and stability of everything accepted. Exhaustive on the short inputs, sampled on mutations.",
   "Trusted: reference decoder's classification of frames into valid / must-reject / gray (gray zone listed in the evidence assumptions).",
   "DESIGN.md section 3 C02"),
 "C09": ("exploration",
   "proptest packets x exhaustive limit grid, metamorphic 'only diagnostics dropped' relation checked with the reference decoder",
   "Ack-heavy generated packets x every outbound limit 1..=64 plus sampled/extreme limits x Request-Problem-Information flag (set through the public decode path); "
   "each output must be exactly one frame within the limit whose non-diagnostic fields are unchanged and whose user properties are an ordered sub-list; failing encodes "
   "must append nothing; the varint-length arithmetic is checked over 2^20 (quick) / 2^28 (thorough) values.",
   "Trusted: reference decoder; 32-byte tolerance around the library's conservative size reserve when judging 'over-size without need'.",
   "DESIGN.md section 3 C09"),
 "C10": ("exploration",
   "metamorphic fragmentation-invariance: generated valid streams x exhaustive/structural/random cut sets x min-chunk settings",
   "Valid streams with PUBLISH payloads around chunk and varint boundaries are decoded under whole, byte-at-a-time, structural +-1 and random fragmentations and "
   "all 2^(n-1) cut sets of short streams; every run must announce each PUBLISH once, hand out exactly the bytes sent with exactly one final piece, respect min_chunk_size and "
   "decode the following packet unchanged. Connection level (four roles): streams of 1..3 publishes under whole / byte-at-a-time / frame-boundary / random fragmentation x min_chunk_size x payload buffer 8/64/32K x reader pace "
   "(eager, lazy, read_all eager/lazy, abandon, partial) with handlers finishing at once or held: every reading handler gets exactly the bytes sent, abandoned payloads leak nothing into the next packet, everything is acknowledged.",
   "Trusted: reference encoder producing the streams; the judge in harness/src/decoding.rs.",
   "DESIGN.md section 3 C10"),
 "C18": ("exploration",
   "bounded-exhaustive enumeration + proptest generation against a section-4.7 reference matcher",
   "Every string of length <=5 (quick) / <=6 (thorough) over {a,b,$,/,+,#} is pushed through both validators, "
   "Display/levels round trips and, if valid, matched against every topic of length <=6/7 over {a,b,$,/}; all ordered "
   "filter pairs of length <=4/5 are checked for covering soundness; random unicode levels via proptest. Exhaustive "
   "on that alphabet, sampled beyond it - the right level because the functions are pure and tiny.",
   "Trusted: the reference matcher (harness/src/spec/topic.rs) transcribing MQTT 5 section 4.7; hook topic_is_valid is a plain wrapper.",
   "DESIGN.md section 3 C18"),
}

NOT_YET = {}

# thorough tiers that add coverage-guided campaigns (libFuzzer) to the generated checks
THOROUGH = {
    "C01": "./check C01 thorough && ./fuzz/run.sh rt5 300 C01",
    "C02": "./check C02 thorough && ./fuzz/run.sh dec_v5 300 C02 && ./fuzz/run.sh dec_v3 300 C02 && ./fuzz/run.sh sniff 120 C02",
    "C05": "./check C05 thorough && ./fuzz/run.sh sink 300 C05",
    "C06": "./check C06 thorough && ./fuzz/run.sh sink 300 C06",
    "C07": "./check C07 thorough && ./fuzz/run.sh sink 300 C07",
    "C08": "./check C08 thorough && ./fuzz/run.sh sink 300 C08",
    "C13": "./check C13 thorough && ./fuzz/run.sh sink 300 C13",
    "C04": "./check C04 thorough && ./fuzz/run.sh disp 300 C04",
    "C11": "./check C11 thorough && ./fuzz/run.sh disp 300 C11",
    "C12": "./check C12 thorough && ./fuzz/run.sh disp 300 C12",
    "C16": "./check C16 thorough && ./fuzz/run.sh disp 300 C16",
    "C17": "./check C17 thorough && ./fuzz/run.sh disp 300 C17",
}


def main():
    props = [json.loads(l) for l in open(os.path.join(ROOT, "properties.jsonl"))]
    checks, na = [], []
    for p in props:
        pid = p["id"]
        if pid in CHECKS:
            cat, tech, text, note, ref = CHECKS[pid]
            checks.append({
                "property_id": pid,
                "quick_cmd": f"./check {pid} quick",
                "thorough_cmd": THOROUGH.get(pid, f"./check {pid} thorough"),
                "evidence_file": f"evidence/{pid}.json",
                "replay_cmd_template": f"./check {pid} --replay {{path}}",
                "engine": "mqtt-verif",
                "level_claimed": {"category": cat, "text": text, "design_ref": ref},
                "level_note": note,
                "technique": tech,
            })
        else:
            na.append({"property_id": pid, "reason": NOT_YET.get(pid, "check not built yet in this revision of /verif (work in progress; see DESIGN.md section 3 for the planned check)")})
    manifest = {
        "version": 1,
        "setup_cmd": "./check --build",
        "hooks": {
            "guard": "cargo feature `verif-hooks` of ntex-mqtt",
            "enable": "harness/Cargo.toml depends on ntex-mqtt = { path = \"/repo\", features = [\"verif-hooks\"] }; every ./check invocation runs cargo build --release first, recompiling /repo's working tree",
            "baseline_off_cmd": "cd /repo && cargo test --workspace --no-fail-fast --offline",
            "source_commits": ["aad6c81"],
            "add_only": True,
        },
        "engines": [{
            "name": "mqtt-verif",
            "path": "harness",
            "serves_properties": [c["property_id"] for c in checks],
            "kind_free_text": "Rust binary: proptest-driven generators (fixed seeds from VERIF_SEED), bounded-exhaustive enumerators, independent MQTT reference codec, in-memory connection test bed; writes evidence/<id>.json",
        }],
        "checks": checks,
        "notes": "Exit codes: 0 held, 1 VIOLATION line printed, 2 infrastructure trouble (build failure, watchdog). known_findings.json lists genuine defects (open = suppressed by exact signature, fixed = not suppressed).",
        "not_applicable": na,
    }
    with open(os.path.join(ROOT, "MANIFEST.json"), "w") as f:
        json.dump(manifest, f, indent=1)
        f.write("\n")

if __name__ == "__main__":
    main()
