#!/bin/bash
# confirm a seeded change in its scratch worktree: demo passes on clean source, suite passes and demo fails with the change
# usage: confirm_mutant.sh <worktree> <n>
set -u
W=$1; N=$2
cd "$W" || exit 2
export CARGO_NET_OFFLINE=true CARGO_TARGET_DIR=$W/target RUST_BACKTRACE=0 CARGO_INCREMENTAL=0 CARGO_PROFILE_DEV_DEBUG=0 CARGO_PROFILE_TEST_DEBUG=0
git checkout -q -- . ; rm -f tests/seeded_demo.rs
cp OUT/demo$N.rs tests/seeded_demo.rs
echo "== clean source: demo"
cargo test --offline --test seeded_demo 2>&1 | grep -E "^test result|panicked|error(\[|:)" | head -5
git apply OUT/patch$N.diff || { echo "PATCH DOES NOT APPLY"; exit 1; }
echo "== with change: existing suite + demo"
cargo test --workspace --no-fail-fast --offline 2>&1 | grep -E "^test result|Running|panicked at" | sed -e 's/(target.*//' | head -30
git checkout -q -- . ; rm -f tests/seeded_demo.rs
