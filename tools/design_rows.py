#!/usr/bin/env python3
"""print DESIGN.md 7.5 table rows for kept seeded changes: tools/design_rows.py C02-5 C02-6 ..."""
import json, sys
for n in sys.argv[1:]:
    m = json.load(open(f"/verif/seeded/{n}/meta.json"))
    note = m["checks"]["note"]
    at_once = "no" if ("missed at first" in note or "anticipated" in note or "not visible to" in note) else "yes"
    s = (m.get("summary") or "").replace("|", "/").replace("\n", " ")
    s = s[:150] + ("…" if len(s) > 150 else "")
    print(f"| {n} | {m['property']} | {m['checks']['caught_by']} | {at_once} | {s} | {note.replace('|','/')} |")
