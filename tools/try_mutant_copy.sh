#!/bin/bash
# run quick checks against a seeded change on a scratch copy of /repo (kept under $TRY_SCRATCH, default /tmp/trycopy, with its
# own build directory; /repo and /verif/evidence are not touched): apply, run, undo
# usage: try_mutant_copy.sh <patch> <check-id>...        TRY_SCRATCH_RM=1 removes the scratch copy afterwards
set -u
P=$(readlink -f "$1"); shift
S=${TRY_SCRATCH:-/tmp/trycopy}
mkdir -p "$S"
if [ ! -d "$S/repo" ]; then git -C /repo worktree add --detach -q "$S/repo" HEAD || exit 2; fi
git -C "$S/repo" checkout -q --detach "$(git -C /repo rev-parse HEAD)" 2>/dev/null
git -C "$S/repo" checkout -q -- .
git -C "$S/repo" apply "$P" || { echo "PATCH DOES NOT APPLY"; exit 1; }
for id in "$@"; do
  for seed in ${SEEDS:-1}; do
    out=$(cd /verif && VERIF_REPO=$S/repo VERIF_TARGET=$S/target VERIF_OUT=$S/out VERIF_SEED=$seed ./check $id ${TIER:-quick} 2>&1)
    echo "$out" | grep -E "^$id |VIOLATION|failing|error\[|BUILD-FAILED" | cut -c1-400 | head -${LINES_MAX:-4}
  done
done
git -C "$S/repo" checkout -q -- .
if [ -n "${TRY_SCRATCH_RM:-}" ]; then git -C /repo worktree remove --force "$S/repo"; rm -rf "$S"; fi
