#!/usr/bin/env python3
"""keep a confirmed seeded change: tools/keep_mutant.py <OUT dir> <n> <name> <property> <caught-by|MISSED> <note>"""
import json, shutil, sys, os
out, n, name, prop, caught, note = sys.argv[1:7]
d = f"/verif/seeded/{name}"
os.makedirs(d, exist_ok=True)
shutil.copy(f"{out}/patch{n}.diff", f"{d}/patch.diff")
shutil.copy(f"{out}/demo{n}.rs", f"{d}/demo.rs")
m = json.load(open(f"{out}/meta{n}.json"))
meta = {
    "property": prop,
    "summary": m.get("summary"),
    "breaks": m.get("breaks"),
    "needs": m.get("needs"),
    "base_commit": os.popen("git -C /repo rev-parse --short HEAD").read().strip(),
    "confirmed": {
        "how": "tools/confirm_mutant.sh in a scratch worktree: demo passes on the clean source; with the change the existing suite (215 tests) passes and the demo fails",
        "seeder_suite": m.get("suite"),
        "demo_with_change": m.get("demo_with_change"),
    },
    "checks": {"caught_by": caught, "note": note, "command": f"tools/try_mutant.sh seeded/{name}/patch.diff {caught if caught != 'MISSED' else prop}"},
}
json.dump(meta, open(f"{d}/meta.json", "w"), indent=1)
print("kept", d)
