#!/bin/bash
# self-test of the checks against the kept seeded changes: apply each to /repo, run the check(s) named in meta.json,
# expect a violation, undo.  Prints one line per change.
set -u
cd /verif
for d in seeded/C*/; do
  n=$(basename "$d")
  ids=$(python3 -c "import json;print(json.load(open('$d/meta.json'))['checks']['caught_by'].replace(',',' '))")
  if ! git -C /repo apply --check "$PWD/$d/patch.diff" 2>/dev/null; then echo "$n: PATCH DOES NOT APPLY"; continue; fi
  git -C /repo apply "$PWD/$d/patch.diff"
  res=""
  for id in $ids; do
    out=$(VERIF_SEED=${VERIF_SEED:-1} ./check $id quick 2>&1); rc=$?
    sig=$(echo "$out" | grep -m1 "failing: signature=" | sed 's/.*signature=\([^ ]*\).*/\1/')
    res="$res $id:rc=$rc:${sig:-none}"
  done
  git -C /repo checkout -q -- .
  echo "$n:$res"
done
find replays -name "quick-*" -delete
