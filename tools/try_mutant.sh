#!/bin/bash
# run quick checks against a seeded change: apply to /repo, run, undo
# usage: try_mutant.sh <patch> <check-id>...
set -u
P=$1; shift
git -C /repo apply "$P" || { echo "PATCH DOES NOT APPLY to /repo"; exit 1; }
trap 'git -C /repo checkout -q -- .' EXIT
for id in "$@"; do
  for seed in ${SEEDS:-1}; do
    out=$(cd /verif && VERIF_SEED=$seed ./check $id ${TIER:-quick} 2>&1)
    echo "$out" | grep -E "^$id |VIOLATION|failing|error\[" | cut -c1-400 | head -${LINES_MAX:-4}
  done
done
