#!/bin/bash
# "a fixed entry suppresses nothing: the check reports the violation again if it ever returns".  For every repo fix listed in
# known_findings.json: take the reverse of the fix commit, apply it to a scratch copy of /repo (skipped when later fixes
# touched the same lines and it no longer applies), run the quick check of the property, expect a violation.
# usage: tools/check_fix_reverts.sh          (scratch copy under /tmp/fixrev, removed at the end)
set -u
cd /verif
S=/tmp/fixrev
mkdir -p $S
git -C /repo worktree add --detach -q $S/repo HEAD 2>/dev/null
python3 - > $S/list.txt <<'PY'
import json
seen=set()
for f in json.load(open('/verif/known_findings.json'))['findings']:
    if f.get('status')=='fixed':
        for c in f['commit'].replace('+',' ').split():
            c=c.strip()
            if (f['property'],c) not in seen:
                seen.add((f['property'],c)); print(f['property'], c)
PY
while read prop commit; do
  git -C /repo diff $commit $commit~1 > $S/rev.diff 2>/dev/null || { echo "$prop $commit: no such commit"; continue; }
  git -C $S/repo checkout -q -- .
  if ! git -C $S/repo apply --check $S/rev.diff 2>/dev/null; then echo "$prop $commit: reverse patch no longer applies (later fixes on the same lines)"; continue; fi
  git -C $S/repo apply $S/rev.diff
  out=$(VERIF_REPO=$S/repo VERIF_TARGET=$S/target VERIF_OUT=$S/out VERIF_SEED=${VERIF_SEED:-1} ./check $prop quick 2>&1); rc=$?
  sig=$(echo "$out" | grep -m1 "failing: signature=" | sed 's/.*signature=\([^ ]*\).*/\1/')
  echo "$prop $commit: rc=$rc ${sig:-none}"
done < $S/list.txt
git -C /repo worktree remove --force $S/repo; rm -rf $S
