#!/bin/bash
# run every quick check under several seeds; prints one line per (seed, check) that is not "rc=0"
# usage: tools/seed_sweep.sh <first-seed> <last-seed>
cd "$(dirname "$0")/.." || exit 2
./check --build || exit 2
for seed in $(seq $1 $2); do
  for i in 01 02 03 04 05 06 07 08 09 10 11 12 13 14 15 16 17 18 19 20; do
    out=$(VERIF_SEED=$seed ./check C$i quick 2>&1); rc=$?
    if [ $rc -ne 0 ]; then echo "seed $seed C$i rc=$rc: $(echo "$out" | grep -m2 -E 'failing|VIOLATION|watchdog|inconclusive' | cut -c1-300)"; fi
  done
  echo "seed $seed done"
done
