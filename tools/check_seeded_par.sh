#!/bin/bash
# Parallel self-test of the checks against the kept seeded changes.  Each of J workers owns a scratch copy of /repo
# (git worktree under $SCRATCH, default /tmp/seeded-par) with its own build directory; /repo itself and /verif/evidence
# are not touched.  For every seeded/<name>: apply patch.diff to the copy, run the check(s) named in meta.json
# (quick tier, VERIF_SEED default 1) against the copy, expect a violation, undo.
# usage: tools/check_seeded_par.sh [J] [name-pattern]      prints one line per change; scratch copies are removed at the end
set -u
J=${1:-4}
PAT=${2:-C}
SCRATCH=${SCRATCH:-/tmp/seeded-par}
cd /verif
names=$(ls -d seeded/${PAT}* 2>/dev/null | xargs -n1 basename | grep -v retired)
mkdir -p "$SCRATCH"
worker() {
  k=$1; shift
  W=$SCRATCH/w$k
  git -C /repo worktree add --detach -q "$W/repo" HEAD 2>/dev/null || { echo "worker $k: cannot create worktree"; return; }
  for n in "$@"; do
    d=/verif/seeded/$n
    ids=$(python3 -c "import json;print(json.load(open('$d/meta.json'))['checks']['caught_by'].replace(',',' '))")
    if ! git -C "$W/repo" apply --check "$d/patch.diff" 2>/dev/null; then echo "$n: PATCH DOES NOT APPLY"; continue; fi
    git -C "$W/repo" apply "$d/patch.diff"
    res=""
    for id in $ids; do
      out=$(VERIF_REPO=$W/repo VERIF_TARGET=$W/target VERIF_OUT=$W/out VERIF_SEED=${VERIF_SEED:-1} ./check $id quick 2>&1); rc=$?
      sig=$(echo "$out" | grep -m1 "failing: signature=" | sed 's/.*signature=\([^ ]*\).*/\1/')
      res="$res $id:rc=$rc:${sig:-none}"
    done
    git -C "$W/repo" checkout -q -- .
    echo "$n:$res"
  done
  git -C /repo worktree remove --force "$W/repo"
  rm -rf "$W"
}
i=0
declare -a buckets
for n in $names; do buckets[$((i % J))]="${buckets[$((i % J))]:-} $n"; i=$((i + 1)); done
for k in $(seq 0 $((J - 1))); do
  [ -n "${buckets[$k]:-}" ] && worker $k ${buckets[$k]} &
done
wait
rmdir "$SCRATCH" 2>/dev/null
