use std::time::Duration;
use ntex::service::cfg::SharedCfg;
use ntex::time::{Millis, sleep};
use ntex::util::{ByteString, Ready};
use ntex::{server};
use ntex_mqtt::v3::codec::{self, Decoded, Encoded, Packet};
use ntex_mqtt::v3::{Handshake, HandshakeAck, MqttServer, ProtocolMessage, Publish};
use ntex_mqtt::QoS;
use std::num::NonZeroU16;

#[derive(Debug)]
struct TestError;
impl From<()> for TestError { fn from(_: ()) -> Self { TestError } }

async fn handshake(p: Handshake) -> Result<HandshakeAck<()>, TestError> { Ok(p.ack((), false)) }

fn publ(id: u16, qos: QoS) -> codec::Publish {
    codec::Publish { dup: false, retain: false, qos, topic: ByteString::from("t"), packet_id: NonZeroU16::new(id), payload_size: 0 }
}

#[ntex::test]
async fn wedge() {
    let srv = server::TestServerBuilder::new(async || {
        MqttServer::new(handshake)
            .protocol(|msg: ProtocolMessage| async move {
                if let ProtocolMessage::PublishRelease(r) = &msg { if r.id().get() == 100 { sleep(Millis(400)).await; } }
                Ok::<_, TestError>(msg.ack())
            })
            .publish(|p: Publish| async move {
                if p.id().map(|i| i.get()) == Some(4) { sleep(Millis(800)).await; } else if p.id().map(|i| i.get()) == Some(1) { sleep(Millis(100)).await; }
                Ok::<_, TestError>(())
            })
    })
    .config(SharedCfg::new("MQTT").add(ntex_mqtt::MqttServiceConfig::new().set_max_qos(QoS::ExactlyOnce)))
    .start();
    let io = srv.connect().await.unwrap();
    let codec = codec::Codec::default();
    io.send(Encoded::Packet(codec::Connect::default().client_id("user").into()), &codec).await.unwrap();
    let _ = io.recv(&codec).await.unwrap().unwrap();
    // two QoS2 first legs
    for id in [100u16, 101] {
        io.send(Encoded::Publish(publ(id, QoS::ExactlyOnce), Some(ntex::util::Bytes::new())), &codec).await.unwrap();
        let r = io.recv(&codec).await.unwrap().unwrap();
        println!("got {r:?}");
    }
    // group 1: qos1 publish (slow handler) + PUBREL 100
    io.encode(Encoded::Publish(publ(1, QoS::AtLeastOnce), Some(ntex::util::Bytes::new())), &codec).unwrap();
    io.send(Encoded::Packet(Packet::PublishRelease { packet_id: NonZeroU16::new(100).unwrap() }), &codec).await.unwrap();
    sleep(Millis(200)).await;
    // group 2: PUBREL 101 + qos1 publish
    io.encode(Encoded::Packet(Packet::PublishRelease { packet_id: NonZeroU16::new(101).unwrap() }), &codec).unwrap();
    io.send(Encoded::Publish(publ(4, QoS::AtLeastOnce), Some(ntex::util::Bytes::new())), &codec).await.unwrap();
    // expect: PUBACK 1 (after 1.5s), PUBCOMP 100, PUBCOMP 101, PUBACK 4 within ~4s
    let mut got = Vec::new();
    let deadline = std::time::Instant::now() + Duration::from_secs(6);
    while got.len() < 4 && std::time::Instant::now() < deadline {
        match ntex::time::timeout(Millis(500), io.recv(&codec)).await {
            Ok(Ok(Some(Decoded::Packet(p, _)))) => { println!("recv {p:?}"); got.push(p); }
            Ok(other) => { println!("other {other:?}"); break; }
            Err(_) => {}
        }
    }
    assert_eq!(got.len(), 4, "responses received: {got:?}");
}
