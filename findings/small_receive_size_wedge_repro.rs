// Real-TCP reproduction of the wedge repaired by the in-flight limiter fix (known_findings.json, property C12): a v3 server with a byte limit smaller than any packet (set_max_receive_size(1)).
// The peer pipelines PINGREQ and SUBSCRIBE in one write; the protocol handler takes 50 ms per message.
use std::time::Duration;

use ntex::server;
use ntex::service::cfg::SharedCfg;
use ntex::time::{Millis, sleep, timeout};
use ntex::util::ByteString;
use ntex_mqtt::v3::codec::{self, Decoded, Encoded, Packet};
use ntex_mqtt::v3::{Handshake, HandshakeAck, MqttServer, ProtocolMessage};
use ntex_mqtt::{MqttServiceConfig, QoS};
use std::num::NonZeroU16;

async fn handshake(p: Handshake) -> Result<HandshakeAck<()>, ()> {
    Ok(p.ack((), false))
}

#[ntex::test]
async fn small_receive_size() {
    let srv = server::TestServerBuilder::new(async move || {
        MqttServer::new(handshake)
            .protocol(async move |msg: ProtocolMessage| {
                sleep(Millis(50)).await;
                match msg {
                    ProtocolMessage::Subscribe(mut s) => {
                        for mut sub in &mut s {
                            sub.confirm(QoS::AtMostOnce);
                        }
                        Ok::<_, ()>(s.ack())
                    }
                    other => Ok(other.ack()),
                }
            })
            .publish(async |_| Ok(()))
    })
    .config(SharedCfg::new("SRV").add(MqttServiceConfig::new().set_max_receive_size(1)))
    .start();

    let io = srv.connect().await.unwrap();
    let codec = codec::Codec::default();
    io.send(Encoded::Packet(Packet::Connect(codec::Connect::default().client_id("user").into())), &codec).await.unwrap();
    io.recv(&codec).await.unwrap().unwrap();

    io.encode(Encoded::Packet(Packet::PingRequest), &codec).unwrap();
    io.encode(
        Encoded::Packet(Packet::Subscribe { packet_id: NonZeroU16::new(1).unwrap(), topic_filters: vec![(ByteString::from_static("a/b"), QoS::AtMostOnce)] }),
        &codec,
    )
    .unwrap();
    io.flush(true).await.unwrap();

    let mut got = Vec::new();
    for _ in 0..2 {
        match timeout(Millis(2000), io.recv(&codec)).await {
            Ok(Ok(Some(Decoded::Packet(p, _)))) => got.push(format!("{p:?}")),
            other => {
                got.push(format!("nothing: {:?}", other.is_err()));
                break;
            }
        }
    }
    let _ = Duration::from_millis(1);
    eprintln!("RESULT {got:?}");
    drop(io);
    sleep(Millis(100)).await;
    assert_eq!(got.len(), 2, "PINGRESP and SUBACK expected, got {got:?}");
    assert!(got[1].contains("SubscribeAck"), "got {got:?}");
}
