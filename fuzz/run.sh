#!/bin/bash
# coverage-guided campaign: fuzz/run.sh <target> <seconds> [property]
# exit 0 = no failing input found, 1 = the target reported a violation (replay saved), 2 = infrastructure trouble.
# On success the campaign is added to evidence/<property>.json under coverage.fuzz_campaigns.
set -u
T=$1; SECS=$2; PROP=${3:-C02}
# the connection-level target judges with the oracle of the property it is run for
[ "$T" = sink ] && export SINK_PROP=$PROP
[ "$T" = disp ] && export DISP_PROP=$PROP
cd "$(dirname "$0")/.." || exit 2
export CARGO_NET_OFFLINE=true VERIF_ROOT=$PWD ASAN_OPTIONS=detect_leaks=0
./check --build >/dev/null 2>&1 || { echo "harness build failed"; exit 2; }
mkdir -p fuzz/logs
cargo +nightly fuzz build --fuzz-dir fuzz "$T" >fuzz/logs/build-$T.log 2>&1 || { echo "fuzz build failed, see fuzz/logs/build-$T.log"; exit 2; }
rm -rf fuzz/corpus-run/$T fuzz/artifacts/$T; mkdir -p fuzz/corpus-run/$T fuzz/artifacts/$T
harness/target/release/verif-check --emit-corpus fuzz/corpus-run >/dev/null 2>&1
SEED=${VERIF_SEED:-1}; [ "$SEED" = 0 ] && SEED=1
J=${FUZZ_JOBS:-8}
rm -f fuzz-*.log
out=$(cargo +nightly fuzz run --fuzz-dir fuzz "$T" fuzz/corpus-run/$T -- -max_total_time=$SECS -seed=$SEED -max_len=4096 -len_control=0 -timeout=20 -rss_limit_mb=4096 -print_final_stats=1 -detect_leaks=0 -artifact_prefix=fuzz/artifacts/$T/ -workers=$J -jobs=$J 2>&1)
rc=$?
execs=$(cat fuzz-*.log 2>/dev/null | grep "stat::number_of_executed_units" | awk '{s+=$2} END {print s+0}')
cov=$(cat fuzz-*.log 2>/dev/null | grep -o "cov: [0-9]*" | awk '{if ($2>m) m=$2} END {print m+0}')
corpus=$(ls fuzz/corpus-run/$T | wc -l)
mkdir -p fuzz/logs/$T; mv fuzz-*.log fuzz/logs/$T/ 2>/dev/null
echo "fuzz $T: $execs executions in ${SECS}s x $J jobs, coverage $cov edges, corpus $corpus files, status $rc"
if echo "$out" | grep -q "^VIOLATION" || grep -qs "^VIOLATION" fuzz/logs/$T/*.log; then
  (echo "$out"; cat fuzz/logs/$T/*.log) | grep -m1 "^VIOLATION"
  exit 1
fi
if [ $rc -ne 0 ]; then
  if ls fuzz/artifacts/$T/crash-* >/dev/null 2>&1; then echo "VIOLATION property=$PROP replay=$(ls $PWD/fuzz/artifacts/$T/crash-* | head -1)"; exit 1; fi
  echo "fuzzer ended with status $rc without a crash artifact (timeout / oom / infrastructure): inconclusive"; exit 2
fi
python3 - "$PROP" "$T" "$SECS" "$J" "$execs" "$cov" "$corpus" "$SEED" <<'PY'
import json, sys
prop, target, secs, jobs, execs, cov, corpus, seed = sys.argv[1:9]
path = f"evidence/{prop}.json"
try:
    e = json.load(open(path))
except Exception:
    sys.exit(0)
c = e.setdefault("coverage", {})
camps = [x for x in c.get("fuzz_campaigns", []) if x.get("target") != target]
camps.append({"target": target, "engine": "libFuzzer (cargo fuzz, ASan, debug assertions)", "seconds": int(secs), "jobs": int(jobs), "executions": int(execs),
              "coverage_edges": int(cov), "corpus_files_at_end": int(corpus), "seed": int(seed), "failing_inputs": 0,
              "oracle": "the same judge as the generated checks (see fuzz/fuzz_targets)"})
c["fuzz_campaigns"] = camps
json.dump(e, open(path, "w"), indent=1)
PY
exit 0
