#!/bin/bash
# coverage-guided campaign: fuzz/run.sh <target> <seconds> [property]
# exit 0 = no failing input found, 1 = the target reported a violation (replay saved), 2 = infrastructure trouble
set -u
T=$1; SECS=$2; PROP=${3:-C02}
cd "$(dirname "$0")/.." || exit 2
export CARGO_NET_OFFLINE=true VERIF_ROOT=$PWD
./check --build >/dev/null 2>&1 || { echo "harness build failed"; exit 2; }
cargo +nightly fuzz build --fuzz-dir fuzz "$T" >fuzz/build-$T.log 2>&1 || { echo "fuzz build failed, see fuzz/build-$T.log"; exit 2; }
rm -rf fuzz/corpus-run/$T; mkdir -p fuzz/corpus-run/$T fuzz/artifacts/$T
harness/target/release/verif-check --emit-corpus fuzz/corpus-run >/dev/null 2>&1
SEED=${VERIF_SEED:-1}; [ "$SEED" = 0 ] && SEED=1
out=$(cargo +nightly fuzz run --fuzz-dir fuzz "$T" fuzz/corpus-run/$T -- -max_total_time=$SECS -seed=$SEED -max_len=4096 -len_control=0 -timeout=20 -rss_limit_mb=4096 -artifact_prefix=fuzz/artifacts/$T/ -workers=${FUZZ_JOBS:-8} -jobs=${FUZZ_JOBS:-8} 2>&1)
rc=$?
echo "$out" | grep -E "VIOLATION|stat::number_of_executed_units|cov:" | tail -12
mv fuzz-*.log fuzz/ 2>/dev/null
if echo "$out" | grep -q "^VIOLATION"; then exit 1; fi
if [ $rc -ne 0 ]; then
  if ls fuzz/artifacts/$T/crash-* >/dev/null 2>&1; then echo "VIOLATION property=$PROP replay=$(ls fuzz/artifacts/$T/crash-* | head -1)"; exit 1; fi
  echo "fuzzer ended with status $rc without a crash artifact (timeout / oom / infrastructure): inconclusive"; exit 2
fi
exit 0
