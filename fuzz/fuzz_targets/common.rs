// shared by the decoder targets: split the fuzz input into (configuration, cut set, stream) and report a failed
// judgement as a crash after saving a replay file for `./check C02 --replay`
use mqtt_verif::decoding::DecCfg;
use mqtt_verif::runner::Failure;

pub fn split_input(data: &[u8]) -> Option<(DecCfg, Vec<usize>, &[u8])> {
    if data.len() < 4 {
        return None;
    }
    let max_size = [0u32, 0, 0, 16, 64, 300, 5000][usize::from(data[0]) % 7];
    let min_chunk = [0u32, 0, 1, 4, 16, 1024][usize::from(data[1]) % 6];
    let k = usize::from(data[2]) % 6;
    if data.len() < 3 + k + 1 {
        return None;
    }
    let stream = &data[3 + k..];
    let mut cuts: Vec<usize> = data[3..3 + k].iter().map(|b| usize::from(*b) % stream.len().max(1)).filter(|c| *c > 0).collect();
    cuts.sort_unstable();
    cuts.dedup();
    Some((DecCfg { max_size, min_chunk }, cuts, stream))
}

pub fn report(prop: &str, f: &Failure) -> ! {
    let dir = mqtt_verif::runner::verif_root().join("replays").join(prop);
    let _ = std::fs::create_dir_all(&dir);
    let body = serde_json::json!({"property": prop, "rule": f.rule, "signature": f.signature, "detail": f.detail, "case": f.case, "tier": "fuzz"});
    let name = format!("fuzz-{:016x}.json", mqtt_verif::runner::hash_of(&f.signature));
    let path = dir.join(name);
    let _ = std::fs::write(&path, serde_json::to_string_pretty(&body).unwrap());
    eprintln!("VIOLATION property={prop} replay={}", path.display());
    panic!("{}: {}", f.signature, f.detail);
}
