#![no_main]
// Connection-level, coverage-guided, dispatcher side: the input is decoded into a case of C16 (sequence of well-formed
// packet templates against an application state), C11 (history of id-carrying packets and gate openings), C04 (requests,
// deferred mask, write grouping, completion order, stall), C12 (burst of publishes against receive limits) or C17 (alias
// history) and judged by that property's own oracle.  Every field is decoded into the domain of the property's own
// generator (the oracles are only claimed to be sound there).  One or two in-memory connections per execution.
mod common;
use libfuzzer_sys::fuzz_target;
use mqtt_verif::bed::Role;
use mqtt_verif::props::{c04, c11, c12, c16, c17};

fn at(b: &[u8], i: usize) -> u8 {
    b.get(i).copied().unwrap_or(0)
}

fn perm(b: &[u8], n: usize) -> Vec<u8> {
    let mut v: Vec<u8> = (0..n as u8).collect();
    for i in (1..n).rev() {
        let j = usize::from(at(b, i)) % (i + 1);
        v.swap(i, j);
    }
    v
}

fuzz_target!(|data: &[u8]| {
    if data.len() < 8 {
        return;
    }
    let role = Role::ALL[usize::from(data[1]) % 4];
    let body = &data[4..];
    let sel = match std::env::var("DISP_PROP").ok().as_deref() {
        Some("C16") => 0,
        Some("C11") => 1,
        Some("C04") => 2,
        Some("C12") => 3,
        Some("C17") => 4,
        _ => data[0] % 5,
    };
    let res = match sel {
        0 => {
            use c16::AppState as S;
            let states = [S::Idle, S::BusySends, S::BusySendsRot(1), S::BusySendsRot(2), S::BusySendsRot(3), S::BusyReceipt, S::BusyHandlers, S::BusyNoBlock, S::NoHandshake, S::GatedAll, S::BusyAbandoned];
            let c = c16::Case { role, state: states[usize::from(data[2]) % states.len()], seq: body.iter().take(12).map(|b| b % 40).collect() };
            c16::check_case(&c).map_err(|f| ("C16", f.with_case(serde_json::json!({"case": c}))))
        }
        1 => {
            let ops: Vec<c11::Op> = body
                .chunks(2)
                .take(10)
                .map(|ch| {
                    let (a, b) = (ch[0], at(ch, 1));
                    let id = 1 + u16::from(b >> 1) % 3;
                    match a % 13 {
                        0..=3 => c11::Op::Pub { qos: 1 + (b & 1), id, deferred: b & 8 != 0, neg: [0u8, 0, 0, 0, 0x87, 0x10][usize::from(b >> 4) % 6] },
                        4 | 5 => c11::Op::Sub { id, deferred: b & 8 != 0 },
                        6 | 7 => c11::Op::Unsub { id, deferred: b & 8 != 0 },
                        8 | 9 => c11::Op::Rel { id },
                        _ => c11::Op::Open(b % 4),
                    }
                })
                .collect();
            let c = c11::Case { role, ops };
            c11::check_case(&c).map_err(|f| ("C11", f.with_case(serde_json::json!({"case": c}))))
        }
        2 => {
            let alphabet = c04::kinds_for(role);
            let n = 2 + usize::from(data[2]) % 6;
            let kinds: Vec<c04::Kind> = (0..n).map(|i| alphabet[usize::from(at(body, i)) % alphabet.len()]).collect();
            let deferred = u32::from_le_bytes([at(body, 8), at(body, 9), at(body, 10), at(body, 11)]);
            let g = 1 + usize::from(data[3] & 7) % 6;
            let groups: Vec<u8> = (0..g).map(|i| 1 + at(body, 12 + i) % 4).collect();
            let stall = (data[3] & 0x40 != 0 && at(body, 18) % 4 == 0).then(|| {
                let a = at(body, 19) % 3;
                (a, a + 1 + at(body, 20) % 4)
            });
            let c = c04::Case {
                role,
                kinds,
                deferred,
                groups,
                settle_between: data[3] & 0x80 != 0,
                open_order: perm(&body[body.len().min(21)..], 8),
                open_after: (0..8).map(|i| at(body, 30 + i) % 5).collect(),
                stall,
                router: data[3] & 0x20 != 0,
            };
            c04::check_case(&c).map_err(|f| ("C04", f.with_case(serde_json::json!({"case": c}))))
        }
        3 => {
            let server = role.is_server();
            let n = 1 + usize::from(data[2]) % 10;
            let items: Vec<c12::Item> = (0..n)
                .map(|i| {
                    let (a, b) = (at(body, 2 * i), at(body, 2 * i + 1));
                    if server && a % 10 == 8 {
                        c12::Item::Ping
                    } else if server && a % 10 == 9 {
                        c12::Item::Sub
                    } else {
                        let payload = match b % 6 {
                            0..=2 => u32::from(a) % 40,
                            3 | 4 => 40 + u32::from(a) % 160,
                            _ => 900 + u32::from(a) % 300,
                        };
                        c12::Item::Pub(c12::PubSpec { qos: (b >> 3) % 3, payload, pieces: if b & 0x40 != 0 { 2 + (b >> 7) } else { 1 } })
                    }
                })
                .collect();
            let c = c12::Case {
                role,
                max_receive: [0u16, 1, 2, 3, 4][usize::from(data[3]) % 5],
                max_receive_size: [0usize, 1, 8, 64, 1024, 65_535][usize::from(data[3] >> 3) % 6],
                items,
                burst: 1 + at(body, 24) % 4,
                open_order: (0..12).map(|i| at(body, 25 + i)).collect(),
                exceed_at: (role.is_v5() && at(body, 37) % 4 == 0).then(|| at(body, 38) % 6),
            };
            c12::check_case(&c).map_err(|f| ("C12", f.with_case(serde_json::json!({"case": c}))))
        }
        _ => {
            let server = data[1] & 1 == 0;
            let maxima: &[u16] = if server { &[0, 2, 16] } else { &[0, 2, 16, 32] };
            let n = 1 + usize::from(data[2]) % 10;
            let pubs: Vec<c17::Pub> = (0..n)
                .map(|i| {
                    let (a, b) = (at(body, 2 * i), at(body, 2 * i + 1));
                    let form = match a % 7 {
                        0 => c17::Form::TopicOnly,
                        1..=3 => c17::Form::Bind,
                        _ => c17::Form::Use,
                    };
                    c17::Pub { conn: b & 1, form, topic: (b >> 1) % 3, alias: (b >> 3) % 4, qos: (b >> 5) % 2 }
                })
                .collect();
            let c = c17::Case {
                server,
                router: data[3] & 1 != 0,
                alias_max: maxima[usize::from(data[3] >> 1) % maxima.len()],
                pubs,
                other_max: [None, None, None, Some(0u16), Some(1), Some(8), Some(40), Some(48)][usize::from(data[3] >> 4) % 8],
            };
            c17::check_case(&c).map_err(|f| ("C17", f.with_case(serde_json::json!({"case": c}))))
        }
    };
    if let Err((prop, f)) = res {
        common::report(prop, &f);
    }
});
