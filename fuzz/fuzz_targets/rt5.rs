#![no_main]
// C01: every frame the reference decoder accepts (outside its gray zone) must survive
// library decode -> library encode -> reference decode, in the MQTT byte layout
mod common;
use libfuzzer_sys::fuzz_target;
use mqtt_verif::spec::v5::{self as s5, Layout, P5, Verdict};
use mqtt_verif::spec::wire::{Split, split};

fuzz_target!(|data: &[u8]| {
    let Split::Frame { first, rl, hdr, complete: true } = split(data) else { return };
    let body = &data[hdr..hdr + rl as usize];
    let pkt = if first >> 4 == 3 {
        match s5::decode_publish_header(first, rl, body) {
            Ok(Some((p, _, _))) if p.payload_len <= 4096 => P5::Publish(Box::new(p)).normalize(),
            _ => return,
        }
    } else {
        match s5::decode(first, body) {
            Verdict::Valid { pkt, gray: false } => pkt,
            _ => return,
        }
    };
    if !mqtt_verif::conv::representable5(&pkt) {
        return;
    }
    let case = mqtt_verif::props::c01::Case5 { pkt, layout: Layout::default(), payload_seed: u32::from(first) };
    if let Err(f) = mqtt_verif::props::c01::check_case5(&case) {
        common::report("C01", &f);
    }
});
