#![no_main]
// C02 rule 8 / C19: protocol version sniffing agrees with the reference for every prefix
mod common;
use libfuzzer_sys::fuzz_target;

fuzz_target!(|data: &[u8]| {
    if let Err(f) = mqtt_verif::props::c02::check_sniff(data) {
        common::report("C02", &f);
    }
});
