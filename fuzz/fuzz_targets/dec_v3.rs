#![no_main]
// C02 / C10: arbitrary bytes through the v3 decoder under a fuzzer-chosen configuration and fragmentation,
// judged by the same oracle as ./check C02 (framing, must-reject classes, stability, no panic)
mod common;
use libfuzzer_sys::fuzz_target;

fuzz_target!(|data: &[u8]| {
    let Some((cfg, cuts, stream)) = common::split_input(data) else { return };
    if let Err(f) = mqtt_verif::props::c02::check_input(3, stream, &cuts, cfg, "fuzz") {
        common::report("C02", &f);
    }
    // fragmentation independence (C10): the same stream in one piece
    if !cuts.is_empty() {
        if let Err(f) = mqtt_verif::props::c02::check_input(3, stream, &[], cfg, "fuzz-whole") {
            common::report("C02", &f);
        }
    }
});
