#![no_main]
// Connection-level, coverage-guided: the input is decoded into a history of sink operations (sends of every kind incl. the
// non-blocking API, polls, drops, peer acknowledgements, back-pressure, streamed publishes, inbound traffic) and judged by the
// oracle of C08 (wire well-formedness), C13 (no sender left behind), C06 (acknowledgement matching), C05 (send window) or
// C07 (teardown), selected by the first byte.  One in-memory connection per execution, on a thread of its own.
// Every operation is first projected onto the domain of the selected property's own generator (the oracles are only
// claimed to be sound there).
mod common;
use libfuzzer_sys::fuzz_target;
use mqtt_verif::bed::Role;
use mqtt_verif::bed::v5::SendKind as K;
use mqtt_verif::props::{c05, c06, c07, c08, c13};
use mqtt_verif::sinkbed::{LimitHow, Op, decode_ops};

fn for_c08(o: Op) -> Option<Op> {
    Some(match o {
        Op::Send { kind, own_id, .. } if kind != K::Ready => Op::Send { kind, again: false, own_id: own_id % 3 },
        Op::SendBad { kind, how } if kind != K::Ready => Op::SendBad { kind, how: (how & 3) % 3 | (how >> 2) % 3 << 2 },
        Op::StreamStart { qos, declared, bad } => Op::StreamStart { qos: qos % 2, declared, bad: bad % 4 },
        Op::Chunk { stream, len } => Op::Chunk { stream: stream % 2, len: len % 6 },
        Op::StreamDrop(k) => Op::StreamDrop(k % 2),
        Op::Inbound(k) => Op::Inbound(k % 4),
        Op::Ack { n, batch } => Op::Ack { n: 1 + n % 3, batch },
        Op::Close(k) => Op::Close(k % 3),
        Op::PeerFault(k) => Op::PeerFault(k % 3),
        o @ (Op::Hold(_) | Op::Window(_) | Op::Poll(_) | Op::Settle | Op::Release(_)) => o,
        _ => return None,
    })
}

fn for_c13(o: Op) -> Option<Op> {
    Some(match o {
        Op::Send { kind: K::Qos0, .. } => Op::Send { kind: K::Qos0, again: false, own_id: 0 },
        Op::Send { kind, again, .. } => Op::Send { kind, again, own_id: 0 },
        Op::Create { kind, again, .. } if kind != K::Qos0 => Op::Create { kind, again, own_id: 0 },
        Op::StreamStart { qos, .. } => Op::StreamStart { qos: qos % 2, declared: 200, bad: 0 },
        Op::Chunk { len, .. } => Op::Chunk { stream: 0, len: [1u8, 2, 3, 5][usize::from(len) % 4] },
        Op::Inbound(k) => Op::Inbound(k % 4),
        Op::Ack { n, batch } => Op::Ack { n: 1 + n % 3, batch },
        Op::Yield(k) => Op::Yield(k % 4),
        o @ (Op::Poll(_) | Op::DropFut(_) | Op::Window(_) | Op::Settle | Op::Release(_) | Op::Hold(_)) => o,
        _ => return None,
    })
}

fn for_c05(o: Op) -> Option<Op> {
    Some(match o {
        Op::Send { kind, again, .. } if !matches!(kind, K::Qos0 | K::NoBlock) => Op::Send { kind, again, own_id: 0 },
        Op::Create { kind, again, .. } if !matches!(kind, K::Qos0 | K::NoBlock) => Op::Create { kind, again, own_id: 0 },
        Op::StreamStart { bad, .. } => Op::StreamStart { qos: 1, declared: 6, bad: if bad % 2 == 0 { 0 } else { 3 } },
        Op::Chunk { len, .. } => Op::Chunk { stream: 0, len: if len % 2 == 0 { 1 } else { 3 } },
        Op::Inbound(k) => Op::Inbound(k % 4),
        Op::Ack { n, batch } => Op::Ack { n: 1 + n % 3, batch },
        Op::Yield(k) => Op::Yield(k % 4),
        o @ (Op::Poll(_) | Op::DropFut(_) | Op::Window(_) | Op::Settle | Op::Release(_) | Op::DropReceipt(_)) => o,
        _ => return None,
    })
}

fn for_c06(o: Op) -> Option<Op> {
    Some(match o {
        Op::Send { kind, own_id, .. } if !matches!(kind, K::Qos0 | K::Ready) => Op::Send { kind, again: false, own_id: if own_id >= 254 { own_id } else { own_id % 4 } },
        Op::SendBad { kind, how } if matches!(kind, K::Qos0 | K::Qos1 | K::Subscribe | K::NoBlock) => Op::SendBad { kind, how: (how & 3) % 3 | (how >> 2) % 4 << 2 },
        Op::StreamStart { qos, bad, .. } => Op::StreamStart { qos: qos % 2, declared: 3, bad: 1 + bad % 2 },
        Op::Chunk { .. } => Op::Chunk { stream: 0, len: 1 },
        Op::StreamDrop(_) => Op::StreamDrop(0),
        Op::Ack { n, batch } => Op::Ack { n: 1 + n % 3, batch },
        o @ (Op::AckDev(_) | Op::Release(_) | Op::DropReceipt(_) | Op::Settle) => o,
        _ => return None,
    })
}

fuzz_target!(|data: &[u8]| {
    if data.len() < 8 {
        return;
    }
    let role = Role::ALL[usize::from(data[1]) % 4];
    let limit = 1 + u16::from(data[2]) % 3;
    let raw = decode_ops(&data[4..], 24);
    // SINK_PROP=C05|C06|C07|C08|C13 pins the oracle (campaigns of one property's thorough tier); otherwise the first byte selects it
    let sel = match std::env::var("SINK_PROP").ok().as_deref() {
        Some("C08") => 0,
        Some("C13") => 1,
        Some("C06") => 2,
        Some("C05") => 3,
        Some("C07") => 4,
        _ => data[0] % 5,
    };
    let res = match sel {
        0 => {
            let ops: Vec<Op> = raw.into_iter().filter_map(for_c08).collect();
            let c = c08::Case { role, limit, write_hw: if data[3] & 1 != 0 { 48 } else { 0 }, peer_max: (data[3] & 2 != 0).then_some(64), ops };
            c08::check_case(&c).map_err(|f| ("C08", f.with_case(serde_json::json!({"case": c}))))
        }
        1 => {
            let ops: Vec<Op> = raw.into_iter().filter_map(for_c13).collect();
            let c = c13::Case { role, limit, ops, pre: Vec::new(), neg: data[3] & 1 != 0 && role.is_v5(), hold_bp: data[3] & 4 != 0, busy_reader: data[3] & 8 != 0 };
            c13::check_case(&c).map_err(|f| ("C13", f.with_case(serde_json::json!({"case": c}))))
        }
        2 => {
            // at most one deviating acknowledgement, as in the generator of C06
            let mut seen = false;
            let ops: Vec<Op> = raw.into_iter().filter_map(for_c06).filter(|o| !matches!(o, Op::AckDev(_)) || !std::mem::replace(&mut seen, true)).collect();
            let c = c06::Case { role, limit: limit + 1, ops, peer_max: data[3] & 2 != 0 };
            c06::check_case(&c).map_err(|f| ("C06", f.with_case(serde_json::json!({"case": c}))))
        }
        3 => {
            let how = [LimitHow::Config, LimitHow::Handshake, LimitHow::PeerLower, LimitHow::PeerHigher, LimitHow::HandshakeAbovePeer, LimitHow::HandshakeBelowPeer][usize::from(data[3]) % 6];
            let ops: Vec<Op> = raw.into_iter().filter_map(for_c05).collect();
            let c = c05::Case { role, limit, how, ops, pre: Vec::new() };
            c05::check_case(&c).map_err(|f| ("C05", f.with_case(serde_json::json!({"case": c}))))
        }
        _ => {
            let causes = c07::causes(role);
            let cause = causes[usize::from(data[3] >> 2) % causes.len()];
            let hold_stop = data[3] & 1 != 0;
            let base = c07::Case { role, scenario: 255, cut: 255, byte: None, cause, hold_stop, stop_fail: data[3] & 2 != 0 && !hold_stop };
            let ops: Vec<Op> = raw.into_iter().filter_map(for_c08).filter(|o| !matches!(o, Op::Close(_) | Op::PeerFault(_))).collect();
            let c = c07::RandCase { base, limit, write_hw: 0, ops };
            c07::check_rand(&c).map_err(|f| ("C07", f.with_case(serde_json::json!({"rand": c}))))
        }
    };
    if let Err((prop, f)) = res {
        common::report(prop, &f);
    }
});
